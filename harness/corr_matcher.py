"""Correspondence for apply_matcher (C05) and Filter.filter_candset (C06): whole calls; the
row-wise models of Model/Matcher.v are evaluated inside Coq on tables of independently computed
sim_function / filter_pair values and compared with the returned frame (order, _id, keys, score)."""
import math
import os
import random
import sys
import traceback

import numpy as np
import pandas as pd

sys.path.insert(0, os.path.dirname(os.path.abspath(__file__)))
import common as C  # noqa: E402
import gens  # noqa: E402
import tables as T  # noqa: E402
import corr_filters  # noqa: E402


class Scorer:
    """A similarity 'object' whose bound method is handed to apply_matcher."""

    def __init__(self, bias):
        self.bias = bias

    def score(self, a, b):
        return len(set(a) & set(b)) + self.bias


def plain_common(a, b):
    return float(len(set(a) & set(b)))


def order_sensitive(a, b):
    return len(a) - 2 * len(b)


def nan_on_disjoint(x, y):
    """a similarity that is NaN for two PRESENT values without a common token (a NaN score is a score, not a
    missing value: the pair is kept or dropped by comparing NaN with the threshold)"""
    a, b = set(x), set(y)
    if not (a & b):
        return float('nan')
    return len(a & b) / float(len(a | b))


def make_sim(rng):
    import py_stringmatching as sm
    k = rng.choice(['jaccard', 'cosine', 'dice', 'overlapcoef', 'lev', 'plain', 'bound', 'ordersens', 'nan_on_disjoint'])
    if k == 'nan_on_disjoint':
        return k, nan_on_disjoint, True
    if k == 'jaccard':
        return k, sm.Jaccard().get_raw_score, True
    if k == 'cosine':
        return k, sm.Cosine().get_raw_score, True
    if k == 'dice':
        return k, sm.Dice().get_raw_score, True
    if k == 'overlapcoef':
        return k, sm.OverlapCoefficient().get_raw_score, True
    if k == 'lev':
        return k, sm.Levenshtein().get_raw_score, False
    if k == 'plain':
        return k, plain_common, True
    if k == 'bound':
        return k, Scorer(rng.choice([0, 1, 0.5])).score, True
    return k, order_sensitive, rng.random() < 0.5


def gen_candset(rng, L, R, names, big=None):
    lkey, _, rkey, _ = names
    pairs = [(a, b) for a in L[lkey].tolist() for b in R[rkey].tolist()]
    rng.shuffle(pairs)
    if not pairs:
        n = 0
    elif big is None:
        n = rng.randint(0, len(pairs))
    elif big:
        n = len(pairs)
    else:
        n = min(len(pairs), max(1, (len(L) + len(R)) // 2 - 1))
    pairs = pairs[:n]
    ids = rng.sample(range(1000), n) if rng.random() < 0.5 else list(range(n))
    cl, cr = rng.choice([('l_' + lkey, 'r_' + rkey), ('ltable_k', 'rtable_k')])
    cols = {'_id': ids, cl: [p[0] for p in pairs], cr: [p[1] for p in pairs]}
    order = ['_id', cl, cr]
    if rng.random() < 0.4:
        cols['extra'] = [rng.random() for _ in range(n)]
        order.append('extra')
    cand = pd.DataFrame(cols, columns=order)
    if n and isinstance(pairs[0][0], str):
        cand[cl] = cand[cl].astype(object)
    if n and isinstance(pairs[0][1], str):
        cand[cr] = cand[cr].astype(object)
    r = rng.random()
    if n and r < 0.5:
        cand.index = rng.sample(range(5000), n)
    elif n and r < 0.7:
        # repeated labels, as in a candidate set produced by filter_tables with n_jobs > 1
        cand.index = [rng.randint(0, max(1, n // 2)) for _ in range(n)]
    return cand, cl, cr


def value_ids(L, R, names):
    ids = {}
    rows = []
    for df, kcol, vcol in ((L, names[0], names[1]), (R, names[2], names[3])):
        out = []
        for k, v in zip(df[kcol].tolist(), df[vcol].tolist()):
            if T.is_missing(v):
                out.append((k, None))
            else:
                if v not in ids:
                    ids[v] = len(ids) + 1
                out.append((k, ids[v]))
        rows.append(out)
    return rows[0], rows[1], ids


def mrows_lit(rows, it):
    return '[%s]' % '; '.join('(%s, %s)' % (C.z(it.key(k)), 'None' if v is None else 'Some %s' % C.z(v))
                              for k, v in rows)


def score_lit(s):
    if s is None or (isinstance(s, (float, np.floating)) and math.isnan(s)):
        return 'PNone'
    return C.pyval_lit(s)


def run_matcher(seed, n):
    import joblib
    from py_stringsimjoin.matcher.apply_matcher import apply_matcher
    rng = random.Random(seed + 11)
    groups, info = [], []
    dist = {'sim': {}, 'op': {}, 'njobs': {}, 'cache_path': {}, 'tokenizer': {}, 'selfjoin': {}}
    exceptions = []
    for i in range(n):
        simname, simf, wants_tok = make_sim(rng)
        kind, tok = T.make_tokenizer(rng, 'qgram2' if simname == 'lev' else None)
        use_tok = wants_tok
        L, R, names = T.gen_tables(rng, kind, max_rows=5)
        selfjoin = False
        if rng.random() < 0.15 and len(L) > 1:
            # self-join: ONE table object on both sides, the same match column, but a different
            # (second) key column on the right -- a permutation of the left key's values, or
            # disjoint values: any confusion of the two key spaces picks another row or raises
            L = L.copy()
            keys = L[names[0]].tolist()
            perm = keys[:]
            rng.shuffle(perm)
            if rng.random() < 0.3:
                perm = ['zz%d' % j for j in range(len(keys))]
            L['code2'] = pd.Series(perm, index=L.index, dtype=object if isinstance(perm[0], str) else None)
            R = L
            names = (names[0], names[1], 'code2', names[1])
            selfjoin = True
        cand, cl, cr = gen_candset(rng, L, R, names, big=rng.choice([None, True, True, False]) if selfjoin else rng.choice([None, True, False]))
        op = rng.choice(['>=', '>', '<=', '<', '=', '!='])
        t = rng.choice([0, 1, 2, 0.5, 0.25, 1.0, 0.3333, rng.random()])
        am = rng.random() < 0.5
        ws = rng.random() < 0.8
        nj = rng.choice([1, 1, 2, 3, 5, -1])
        l_out = rng.choice([None, None, [names[1]], list(L.columns)])
        r_out = rng.choice([None, None, [names[3]]])
        lrows, rrows, ids = value_ids(L, R, names)
        rev = {v: k for k, v in ids.items()}
        tk = tok if use_tok else None
        cached = tk is not None and (len(L) + len(R) < 2 * len(cand))
        try:
            with joblib.parallel_config(backend=T.C_BACKEND[0]):
                out = apply_matcher(cand, cl, cr, L, R, names[0], names[2], names[1], names[3], tk, simf,
                                    t, op, am, l_out, r_out, 'l_', 'r_', ws, nj, False)
        except Exception as e:  # noqa
            exceptions.append({'sim': simname, 'op': op, 'exc': '%s: %s' % (type(e).__name__, e),
                               'tb': traceback.format_exc()[-1200:],
                               'candset': cand.to_dict(orient='split')})
            groups.append(('', []))
            info.append(None)
            continue
        # independent oracle table of sim_function values
        it = T.Interner()
        ldict = dict(lrows)
        rdict = dict(rrows)
        simtab = {}
        for a, b in zip(cand[cl].tolist(), cand[cr].tolist()):
            va, vb = ldict.get(a), rdict.get(b)
            if va is None or vb is None or (va, vb) in simtab:
                continue
            x, y = rev[va], rev[vb]
            if tk is not None:
                x, y = tk.tokenize(x), tk.tokenize(y)
            simtab[(va, vb)] = simf(x, y)
        for k, v in (('sim', simname), ('op', op), ('njobs', nj), ('cache_path', cached), ('selfjoin', selfjoin),
                     ('tokenizer', kind if tk is not None else 'None')):
            dist[k][str(v)] = dist[k].get(str(v), 0) + 1
        b = lambda x: 'true' if x else 'false'
        cand_lit = '[%s]' % '; '.join('(%s, %s, %s)' % (C.pyval_lit(i0), C.z(it.key(a)), C.z(it.key(bb)))
                                      for i0, a, bb in zip(cand.iloc[:, 0].tolist(), cand[cl].tolist(), cand[cr].tolist()))
        tab_lit = '[%s]' % '; '.join('(%s, %s, %s)' % (C.z(a), C.z(bb), score_lit(s)) for (a, bb), s in simtab.items())
        if len(cand) == 0:
            obs_rows = []       # the candset itself is returned
        else:
            lcol, rcol = 'l_' + names[0], 'r_' + names[2]
            sc = out['_sim_score'].tolist() if ws else [None] * len(out)
            obs_rows = list(zip(out['_id'].tolist(), out[lcol].tolist(), out[rcol].tolist(), sc))
        obs_lit = '[%s]' % '; '.join('(%s, %s, %s, %s)' % (C.pyval_lit(i0), C.z(it.key(a)), C.z(it.key(bb)), score_lit(s))
                                     for i0, a, bb, s in obs_rows)
        defs = ('Definition m%d := apply_matcher_model (assoc2 %s) %s %s %s %s %s %s %s %s %s.\n'
                'Definition mo%d : list (pyval * Z * Z * pyval) := %s.'
                % (i, tab_lit, C.pyval_lit(t), C.coq_str(op), b(am), b(ws), mrows_lit(lrows, it),
                   mrows_lit(rrows, it), C.z(nj), C.z(T.cpu_count()), cand_lit, i, obs_lit))
        exprs = ['match m%d with Some r => list_same mrow_same r mo%d | None => false end' % (i, i)]
        if len(cand) > 0:
            # header: _id, keys, requested attributes, score
            pass
        groups.append((defs, exprs))
        info.append({'sim': simname, 'op': op, 't': t, 'allow_missing': am, 'with_score': ws, 'njobs': nj,
                     'tokenizer': kind if tk is not None else None, 'cached_path': cached,
                     'names': list(names), 'candset_cols': [cl, cr], 'l_out': l_out, 'r_out': r_out,
                     'ltable': L.to_dict(orient='split'), 'rtable': R.to_dict(orient='split'),
                     'candset': cand.to_dict(orient='split'), 'observed': out.to_dict(orient='split'),
                     'nontrivial': 0 < len(out) < len(cand)})
    bad = C.run_groups('matcher_%d' % seed, ['Filters', 'Api', 'Matcher'], groups, shard=100)
    res = {'evaluations': n, 'distribution': dist, 'differ': [], 'spec_fail': [], 'exceptions': exceptions,
           'nontrivial': sum(1 for d in info if d and d['nontrivial']),
           'samples': [d for d in info if d][:2]}
    for gi, ei in sorted(bad):
        res['spec_fail'].append({'case': gi, 'which': 'apply_matcher rows', 'call': info[gi]})
    return res


def run_candset(seed, n):
    import joblib
    rng = random.Random(seed + 13)
    groups, info = [], []
    dist = {'filter': {}, 'measure': {}, 'njobs': {}}
    exceptions = []
    for i in range(n):
        fd = corr_filters.make_filter(rng)
        L, R, names = T.gen_tables(rng, fd['kind'], max_rows=5)
        if rng.random() < 0.15 and len(L) > 0:
            # self-join: the SAME DataFrame object on both sides, filtering two different columns of it
            L = L.copy()
            vals = [v for v in L[names[1]].tolist()]
            rng.shuffle(vals)
            L['alt_' + names[1]] = pd.Series(vals, index=L.index, dtype=object)
            R = L
            names = (names[0], names[1], names[0], 'alt_' + names[1])
        elif rng.random() < 0.15:
            # a table KEYED BY the column that is filtered (key attribute = filter attribute), on one
            # side or both: the projection then holds the same column twice
            def keyed(df, attr):
                d2 = df[df[attr].notnull()].drop_duplicates(subset=[attr]).copy()
                return d2
            side = rng.choice(['l', 'r', 'both'])
            if side in ('l', 'both'):
                L = keyed(L, names[1])
                names = (names[1], names[1], names[2], names[3])
            if side in ('r', 'both'):
                R = keyed(R, names[3])
                names = (names[0], names[1], names[3], names[3])
        bigkeys = False
        if rng.random() < 0.1 and len(L) and len(R) and L is not R \
                and all(isinstance(k, (int, np.integer)) for k in L[names[0]].tolist() + R[names[2]].tolist()):
            # integer keys that are NOT exactly representable as doubles, next to a float column in the
            # candidate set: any pass through a single float array would silently change the keys
            bigkeys = True
            L = L.copy()
            R = R.copy()
            L[names[0]] = [2 ** 53 + 2 * int(k) + 1 for k in L[names[0]].tolist()]
            R[names[2]] = [2 ** 53 + 2 * int(k) + 1 for k in R[names[2]].tolist()]
        cand, cl, cr = gen_candset(rng, L, R, names)
        if bigkeys and 'extra' not in cand.columns:
            cand['extra'] = [rng.random() for _ in range(len(cand))]
        r_ = rng.random()
        if len(cand) and r_ < 0.45:
            cand.index = rng.sample(range(5000), len(cand))
        elif len(cand) and r_ < 0.8:
            # repeated labels (a candidate set concatenated from per-job results)
            cand.index = [rng.randint(0, max(1, len(cand) // 3)) for _ in range(len(cand))]
        nj = rng.choice([1, 1, 2, 3, 5, -1])
        try:
            with joblib.parallel_config(backend=T.C_BACKEND[0]):
                out = fd['filt'].filter_candset(cand, cl, cr, L, R, names[0], names[2], names[1], names[3],
                                                nj, False)
        except Exception as e:  # noqa
            exceptions.append({'filter': fd['which'], 'measure': fd['measure'],
                               'exc': '%s: %s' % (type(e).__name__, e), 'tb': traceback.format_exc()[-1200:]})
            groups.append(('', []))
            info.append(None)
            continue
        it = T.Interner()
        lv = dict(zip(L[names[0]].tolist(), L[names[1]].tolist()))
        rv = dict(zip(R[names[2]].tolist(), R[names[3]].tolist()))
        tab = {}
        for a, b in zip(cand[cl].tolist(), cand[cr].tolist()):
            if (a, b) not in tab:
                tab[(a, b)] = bool(fd['filt'].filter_pair(lv[a], rv[b]))
        # align the returned rows with the candidate rows (order is preserved; index labels may repeat)
        import corr_meta as _M
        same_cols = list(out.columns) == list(cand.columns)
        crow = [(lab, tuple(_M.canon_cell(v) for v in r)) for lab, r in zip(cand.index.tolist(), cand.itertuples(index=False, name=None))]
        orow = [(lab, tuple(_M.canon_cell(v) for v in r)) for lab, r in zip(out.index.tolist(), out.itertuples(index=False, name=None))] if same_cols else []
        obs_pos, k, same_vals = [], 0, same_cols
        for item in orow:
            while k < len(crow) and crow[k] != item:
                k += 1
            if k == len(crow):
                same_vals = False
                break
            obs_pos.append(k)
            k += 1
        b = lambda x: 'true' if x else 'false'
        cand_lit = '[%s]' % '; '.join('(%d%%nat, %s, %s)' % (k, C.z(it.key(a)), C.z(it.key(bb)))
                                      for k, (a, bb) in enumerate(zip(cand[cl].tolist(), cand[cr].tolist())))
        tab_lit = '[%s]' % '; '.join('(%s, %s, %s)' % (C.z(it.key(a)), C.z(it.key(bb)), b(d)) for (a, bb), d in tab.items())
        defs = 'Definition fc%d := filter_candset_model (assoc2b %s) %s %s %s.' % (
            i, tab_lit, C.z(nj), C.z(T.cpu_count()), cand_lit)
        exprs = ['match fc%d with Some r => list_same Nat.eqb r %s | None => false end' % (i, C.natlist(obs_pos)),
                 b(same_cols and same_vals)]
        groups.append((defs, exprs))
        for k, v in (('filter', fd['which']), ('measure', fd['measure']), ('njobs', nj)):
            dist[k][str(v)] = dist[k].get(str(v), 0) + 1
        info.append({'filter': fd['which'], 'measure': fd['measure'], 't': repr(fd['t']), 'op': fd['op'],
                     'allow_empty': fd['allow_empty'], 'allow_missing': fd['allow_missing'], 'njobs': nj,
                     'tokenizer': fd['kind'], 'names': list(names), 'candset_cols': [cl, cr],
                     'ltable': L.to_dict(orient='split'), 'rtable': R.to_dict(orient='split'),
                     'candset': cand.to_dict(orient='split'), 'observed_index': out.index.tolist(),
                     'nontrivial': 0 < len(out) < len(cand)})
    bad = C.run_groups('candset_%d' % seed, ['Filters', 'Api', 'Matcher'], groups, shard=100)
    res = {'evaluations': n, 'distribution': dist, 'differ': [], 'spec_fail': [], 'exceptions': exceptions,
           'nontrivial': sum(1 for d in info if d and d['nontrivial']),
           'samples': [d for d in info if d][:2]}
    for gi, ei in sorted(bad):
        res['spec_fail'].append({'case': gi, 'which': ['filter_candset rows', 'columns/values preserved'][ei],
                                 'call': info[gi]})
    return res


if __name__ == '__main__':
    import json
    seed = int(sys.argv[1]) if len(sys.argv) > 1 else 1
    n = int(sys.argv[2]) if len(sys.argv) > 2 else 100
    r = run_matcher(seed, n) if (len(sys.argv) <= 3 or sys.argv[3] == 'matcher') else run_candset(seed, n)
    print(json.dumps(r['distribution'], default=str))
    print('NONTRIVIAL', r['nontrivial'], 'SPEC_FAIL', len(r['spec_fail']), 'EXC', len(r['exceptions']))
    for d in r['spec_fail'][:2]:
        print(json.dumps(d, default=str)[:3000])
    for d in r['exceptions'][:3]:
        print(json.dumps(d, default=str)[:1500])
