"""Function-level correspondence for the PAIR-LEVEL filter path (what filter_candset calls row by
row and what users call directly):

  SizeFilter.filter_pair      (filter/size_filter.py)      ~ size_filter_pair_gen
  PrefixFilter.filter_pair    (filter/prefix_filter.py)    ~ prefix_filter_pair_gen
  PositionFilter.filter_pair  (filter/position_filter.py)  ~ position_filter_pair_gen
  OverlapFilter.filter_pair   (filter/overlap_filter.py)   ~ overlap_filter_pair_gen

The REAL method is called on a SEQUENCE of pairs on ONE filter object (so state kept on the object
between calls would show); the GENERATED definitions of coq/Gen/FilterPairGen.v are evaluated
inside Coq on the same inputs and must return the same verdict (`PBool b`) or the same exception
class.  Tokens are interned as small ints that preserve the order of the Python strings (the
token ordering breaks frequency ties by token); the tokenizer is handed over as an
association-list lookup from the input value to its token list (or to the exception tokenize
raised); strings are passed as injectively escaped ASCII strings (emptiness preserved);
None -> PNone, float NaN -> PFloat NaN.
"""
import math
import os
import random
import sys

sys.path.insert(0, os.path.dirname(os.path.abspath(__file__)))
import common as C  # noqa: E402
import gens  # noqa: E402
import tables as T  # noqa: E402

if os.environ.get('VERIF_COQ'):       # evaluate against another compiled tree (development only)
    C.QFLAGS[:] = sum((['-Q', os.path.join(os.environ['VERIF_COQ'], d), 'SSJ'] for d in
                       ['Num', 'Base', 'Gen', 'Ext', 'Model', 'Spec', 'Proofs', 'Properties']), [])

IMPORTS = ['FilterUtilsGen', 'HelperGen', 'TokenOrderingGen', 'FilterPairGen']
FILTERS = ['size', 'prefix', 'position', 'position', 'overlap']
GEN_NAME = {'size': 'size_filter_pair_gen', 'prefix': 'prefix_filter_pair_gen',
            'position': 'position_filter_pair_gen', 'overlap': 'overlap_filter_pair_gen'}

TOKFUN = '(fun s_ : pyval => match dict_lookup %s s_ with Some v_ => v_ | None => PExc "KeyError" end)'


def esc(s):
    """injective ASCII escaping of a Python string ('' stays '')"""
    out = []
    for ch in s:
        if ch == '\\':
            out.append('\\\\')
        elif 32 <= ord(ch) < 127:
            out.append(ch)
        else:
            out.append('\\u%06x' % ord(ch))
    return ''.join(out)


def is_nan(v):
    return isinstance(v, float) and math.isnan(v)


def val_lit(v):
    if v is None:
        return 'PNone'
    if is_nan(v):
        return '(PFloat Fnan)'
    if isinstance(v, str):
        return '(PStr %s)' % C.coq_str(esc(v))
    return C.pyval_lit(v)


def make_filter(rng):
    import py_stringsimjoin as ssj
    which = rng.choice(FILTERS)
    r = rng.random()
    allow_missing = (rng.random() < 0.4) if r < 0.94 else rng.choice([0, 1, None])
    r = rng.random()
    allow_empty = (rng.random() < 0.6) if r < 0.94 else rng.choice([0, 1, None])
    if which == 'overlap':
        kind, tok = T.make_tokenizer(rng, None, return_set=rng.random() < 0.7)
        size = rng.choice([1, 1, 2, 3, 4])
        op = rng.choice(['>=', '>=', '>', '='])
        f = ssj.OverlapFilter(tok, size, op, allow_missing)
        return dict(which=which, measure='OVERLAP', t=size, op=op, tok=tok, kind=kind, filt=f,
                    allow_empty=None, allow_missing=allow_missing, q=getattr(tok, 'qval', None))
    m = rng.choice(gens.ALL_FILTER_MEASURES)
    if m == 'EDIT_DISTANCE':
        kind, tok = T.make_tokenizer(rng, rng.choice(['qgram2', 'qgram3', 'qgram2np']), return_set=False)
        t = rng.choice([0, 1, 1, 2, 2, 3])
        if rng.random() < 0.06:
            t = float(t)               # float prefix length: the slice raises TypeError
    elif m == 'OVERLAP':
        kind, tok = T.make_tokenizer(rng, None, return_set=True)
        t = rng.choice([1, 1, 2, 3])
    else:
        kind, tok = T.make_tokenizer(rng, None, return_set=rng.random() < 0.85)
        _, t = gens.any_threshold_value(rng)
    cls = {'size': ssj.SizeFilter, 'prefix': ssj.PrefixFilter, 'position': ssj.PositionFilter}[which]
    f = cls(tok, m, t, allow_empty, allow_missing)
    return dict(which=which, measure=m, t=t, op=None, tok=tok, kind=kind, filt=f,
                allow_empty=allow_empty, allow_missing=allow_missing, q=getattr(tok, 'qval', None))


def gen_pair(rng, kind, universe, weights):
    """A pair of values, often related (shared tokens / few edits); None / NaN / '' / blank."""
    l = T.gen_string(rng, kind, universe, weights, maxlen=8)
    if rng.random() < 0.14 and not kind.startswith('qgram') and len(universe) >= 4:
        # skewed sizes: a few common tokens, one side with several private tokens, the other long
        # (the position bound depends on where in the prefix the common token sits)
        sep = ',' if kind == 'delim' else ' '
        pool = list(universe) + ['w%d' % i for i in range(12)]
        rng.shuffle(pool)
        nc = rng.randint(1, 3)
        common, rest = pool[:nc], pool[nc:]
        a = rng.randint(0, 3)
        b = rng.randint(2, min(9, len(rest) - a))
        lt = common + rest[:a]
        rt = common + rest[a:a + b]
        rng.shuffle(lt)
        rng.shuffle(rt)
        l, r = sep.join(lt), sep.join(rt)
        if rng.random() < 0.5:
            l, r = r, l
        return l, r
    if rng.random() < 0.65:
        if kind.startswith('qgram'):
            r = list(l)
            for _ in range(rng.randint(0, 3)):
                op = rng.choice('ids')
                pos = rng.randint(0, len(r))
                if op == 'i':
                    r.insert(pos, rng.choice('abz#'))
                elif op == 'd' and r:
                    del r[min(pos, len(r) - 1)]
                elif op == 's' and r:
                    r[min(pos, len(r) - 1)] = rng.choice('abz')
            r = ''.join(r)
        else:
            sep = ',' if kind == 'delim' else ' '
            toks = [t for t in l.split(sep) if t]
            keep = [t for t in toks if rng.random() < 0.7]
            extra = rng.sample(universe, rng.randint(0, min(3, len(universe))))
            r = sep.join(keep + extra)
            if rng.random() < 0.3:
                rr = r.split(sep)
                rng.shuffle(rr)
                r = sep.join(rr)
    else:
        r = T.gen_string(rng, kind, universe, weights, maxlen=8)
    if rng.random() < 0.5:
        l, r = r, l
    x = rng.random()
    if x < 0.05:
        l = None
    elif x < 0.08:
        l = float('nan')
    x = rng.random()
    if x < 0.04:
        r = None
    elif x < 0.08:
        r = float('nan')
    if rng.random() < 0.015:
        l = rng.choice([0, 7])           # not a string: tokenize raises (overlap: `not 0`)
    return l, r


def gen_sequence(rng, fd):
    kind = fd['kind']
    k = rng.randint(2, 10)
    universe = rng.sample(T.WORDS, k)
    weights = [rng.choice([1, 1, 2, 4]) for _ in universe]
    seq = []
    for _ in range(rng.choice([2, 3, 3, 4, 5, 6])):
        x = rng.random()
        strs = [p for p in seq if isinstance(p[0], str) and isinstance(p[1], str)]
        if strs and x < 0.15:
            seq.append(rng.choice(seq))                      # the same pair again
        elif strs and x < 0.25:
            l, r = rng.choice(strs)                          # swapped
            seq.append((r, l))
        elif strs and x < 0.37:
            l, r = rng.choice(strs)                          # same concatenation, other split
            c = l + r
            cut = rng.randint(0, len(c))
            seq.append((c[:cut], c[cut:]))
        else:
            seq.append(gen_pair(rng, kind, universe, weights))
    return seq


def seq_case(gi, fd, seq):
    """-> (defs, exprs, labels, info, nontrivial)"""
    tok = fd['tok']
    values, tokens = [], {}
    for p in seq:
        for v in p:
            if v is None or is_nan(v):
                continue
            key = repr(v)
            if key in tokens:
                continue
            values.append(v)
            try:
                tokens[key] = list(tok.tokenize(v))
            except Exception as e:  # noqa
                tokens[key] = e
    alltoks = sorted(set(w for tl in tokens.values() if isinstance(tl, list) for w in tl))
    ids = {w: i for i, w in enumerate(alltoks)}
    items = []
    for v in values:
        tl = tokens[repr(v)]
        items.append('PTuple [%s; %s]' % (
            val_lit(v), ('(PExc %s)' % C.coq_str(type(tl).__name__)) if isinstance(tl, BaseException)
            else 'PList [%s]' % '; '.join('PInt %d' % ids[w] for w in tl)))
    n = 'fp%d_' % gi
    defs = ['Definition %stok := %s.' % (n, TOKFUN % ('[%s]' % '; '.join(items)))]
    which = fd['which']
    if which == 'overlap':
        head = '%s %s (PStr %s) %s' % (GEN_NAME[which], C.pyval_lit(fd['t']), C.coq_str(fd['op']),
                                       C.pyval_lit(fd['allow_missing']))
        tail = '%stok' % n
    else:
        head = '%s (PStr %s) %s %s %s' % (GEN_NAME[which], C.coq_str(fd['measure']), C.pyval_lit(fd['t']),
                                          C.pyval_lit(fd['allow_empty']), C.pyval_lit(fd['allow_missing']))
        tail = ('%stok' % n) if which == 'size' else '%s %stok' % (C.pyval_lit(fd['q']), n)
    exprs, labels, obs = [], [], []
    nontrivial = False
    for j, (l, r) in enumerate(seq):
        try:
            verdict = fd['filt'].filter_pair(l, r)
            exp = C.pyval_lit(bool(verdict)) if isinstance(verdict, (bool,)) or \
                type(verdict).__name__ == 'bool_' else C.pyval_lit(verdict)
            obs.append(bool(verdict))
            if isinstance(l, str) and isinstance(r, str) and l.strip() and r.strip() and not verdict:
                nontrivial = True
        except Exception as e:  # noqa
            exp = '(PExc %s)' % C.coq_str(type(e).__name__)
            obs.append('raised %s: %s' % (type(e).__name__, e))
        exprs.append('pv_same (%s %s %s %s) %s' % (head, val_lit(l), val_lit(r), tail, exp))
        labels.append('%s on pair %d of the sequence' % (GEN_NAME[which], j))
    info = {'filter': which, 'measure': fd['measure'],
            'threshold': fd['t'].hex() if isinstance(fd['t'], float) else fd['t'], 'threshold_repr': repr(fd['t']),
            'comp_op': fd['op'], 'tokenizer': fd['kind'], 'return_set': fd['tok'].get_return_set(),
            'allow_empty': fd['allow_empty'], 'allow_missing': fd['allow_missing'],
            'pairs': [[None if (v is None or is_nan(v)) else v for v in p] for p in seq],
            'pairs_repr': [repr(p) for p in seq], 'observed': obs}
    return '\n'.join(defs), exprs, labels, info, nontrivial


def run(seed, n):
    rng = random.Random(seed + 4177)
    res = {'evaluations': 0, 'nontrivial': 0, 'distribution': {}, 'differ': [], 'spec_fail': [],
           'exceptions': [], 'samples': []}
    groups, meta = [], []
    for k in range(n):
        try:
            fd = make_filter(rng)
        except Exception as e:  # noqa   (constructor rejected the arguments: not a case)
            res['exceptions'].append({'case': k, 'call': {'observed_exception': '%s: %s' % (type(e).__name__, e)}})
            continue
        seq = gen_sequence(rng, fd)
        defs, exprs, labels, info, nontriv = seq_case(k, fd, seq)
        key = '%s/%s' % (fd['which'], fd['measure'])
        res['distribution'][key] = res['distribution'].get(key, 0) + 1
        for o in info['observed']:
            kk = 'verdict/%s' % (o if isinstance(o, bool) else 'raised')
            res['distribution'][kk] = res['distribution'].get(kk, 0) + 1
        res['evaluations'] += len(exprs)
        res['nontrivial'] += 1 if nontriv else 0
        groups.append((defs, exprs))
        meta.append((k, labels, info))
        if len(res['samples']) < 2:
            res['samples'].append(info)
    bad = C.run_groups('pairgen_%d' % seed, IMPORTS, groups, shard=60)
    for gi, ei in sorted(bad):
        k, labels, info = meta[gi]
        res['differ'].append({'case': k, 'which': 'generated %s vs the real filter_pair' % labels[ei],
                              'pair': info['pairs_repr'][ei], 'observed': info['observed'][ei], 'call': info})
    return res


if __name__ == '__main__':
    import json
    import time
    t0 = time.time()
    r = run(int(sys.argv[1]) if len(sys.argv) > 1 else 1, int(sys.argv[2]) if len(sys.argv) > 2 else 300)
    print('EVAL', r['evaluations'], 'NONTRIVIAL', r['nontrivial'], 'DIFFER', len(r['differ']), 'SPEC_FAIL',
          len(r['spec_fail']), 'EXC', len(r['exceptions']), 'WALL %.1fs' % (time.time() - t0))
    print(json.dumps(r['distribution'], sort_keys=True))
    for d in (r['differ'] + r['spec_fail'] + r['exceptions'])[:4]:
        print(json.dumps(d, default=str)[:1500])
