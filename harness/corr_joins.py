"""API-level correspondence of the six joins: whole calls on generated DataFrames.  For each
call the model's predicted rows (Model/Api.v, evaluated inside Coq) are compared with the rows
the implementation returned, and the declarative specs (Spec/JoinSpec.v) are evaluated, also
inside Coq, on the implementation's rows."""
import os
import random
import sys
import traceback

sys.path.insert(0, os.path.dirname(os.path.abspath(__file__)))
import common as C  # noqa: E402
import gens  # noqa: E402
import tables as T  # noqa: E402

SET_MEASURES = ['JACCARD', 'COSINE', 'DICE', 'OVERLAP_COEFFICIENT', 'OVERLAP']
SPECS = ['model_agrees', 'complete_spec', 'sound_spec', 'missing_spec', 'empty_spec']


def gen_call(rng, measure=None, njobs_choices=(1, 1, 1, 2, 3, 5, -1, -20), boundary=False):
    m = measure or rng.choice(SET_MEASURES + ['EDIT_DISTANCE'])
    if m == 'EDIT_DISTANCE':
        kind = rng.choice(['qgram2', 'qgram3', 'qgram2np'])
    else:
        kind = None
    kind, tok = T.make_tokenizer(rng, kind)
    L, R, names = T.gen_tables(rng, kind)
    if m == 'OVERLAP':
        tcls, t = 'int', rng.choice([1, 1, 2, 3, 1.5, 2.5, 0.5])     # documented as a float: any value > 0
        op = rng.choice(['>=', '>=', '>', '='])
    elif m == 'EDIT_DISTANCE':
        tcls, t = 'int', rng.choice([0, 1, 1, 2, 2, 3, 2.5, 1.0])
        op = rng.choice(['<=', '<=', '<', '='])
    else:
        tcls, t = gens.any_threshold_value(rng)
        op = rng.choice(['>=', '>=', '>', '='])
    call = dict(measure=m, kind=kind, tok=tok, L=L, R=R, names=names, t=t, tcls=tcls, op=op,
                allow_empty=rng.random() < 0.6, allow_missing=rng.random() < 0.4,
                with_score=rng.random() < 0.8, njobs=rng.choice(njobs_choices),
                l_out=None, r_out=None)
    if rng.random() < 0.3:
        call['l_out'] = rng.sample(list(L.columns), rng.randint(0, len(L.columns)))
    if rng.random() < 0.3:
        call['r_out'] = rng.sample(list(R.columns), rng.randint(0, len(R.columns)))
    return call


def boundary_call(rng, measure, force_tie=None):
    """A pair of sets sitting exactly on a threshold, common tokens ranked LAST (most frequent),
    plus filler rows: the worst case for prefix/position pruning."""
    import py_stringmatching as sm
    a = rng.randint(1, 14)
    b = rng.randint(1, 14)
    o = rng.randint(1, min(a, b))
    adv_ = None
    if measure == 'OVERLAP_COEFFICIENT' and rng.random() < 0.6:
        # (o, n) whose quotient times n is not o again in binary64 (or o*(1/n) != o/n): algebraically
        # equivalent rearrangements of the comparison (o > t*n, o*(1/n) >= t, ...) differ exactly here
        adv_ = rng.choice(['>', '>=', '=', '>='])
        lo = [(o_, n_) for n_ in range(2, 51) for o_ in range(1, n_ + 1) if (o_ / n_) * n_ < o_]
        hi = [(o_, n_) for n_ in range(2, 51) for o_ in range(1, n_ + 1) if (o_ / n_) * n_ > o_]
        rec = [(o_, n_) for n_ in range(2, 51) for o_ in range(1, n_ + 1) if o_ * (1.0 / n_) != o_ / n_]
        o, a = rng.choice(lo if adv_ == '>' else rng.choice([hi, rec]))
        b = a + rng.randint(0, 4)
        if rng.random() < 0.5:
            a, b = b, a
    tie_ = False
    if measure in ('JACCARD', 'DICE', 'COSINE') and (force_tie or rng.random() < 0.15):
        # scores that are exact binary TIES at the fifth decimal (m/32, m odd): round-half-even and
        # round-half-up give different 4-decimal scores when m = 1 (mod 4), e.g. 25/32 = 0.78125
        tie_ = True
        m_ = rng.choice([1, 5, 9, 13, 17, 21, 25, 29, 3, 7, 11, 15])
        if measure == 'JACCARD':
            o = m_
            x_ = rng.randint(0, 32 - m_)
            a, b = m_ + x_, 32 - x_
        elif measure == 'DICE':
            o = m_
            a = rng.choice([32, 30, 29]) if m_ <= 29 else 32
            a = max(a, m_)
            b = 64 - a
        elif force_tie == 'irrational' or rng.random() < 0.5:
            # o / sqrt(a*b) an exact fifth-decimal tie although sqrt(a), sqrt(b) are irrational: the
            # product form and a chained division o / sqrt(a) / sqrt(b) differ in the last bit here
            a, b, o = rng.choice([(32, 288, 21), (72, 128, 21), (72, 128, 39), (128, 200, 31), (128, 200, 75),
                                  (128, 200, 115), (128, 288, 42), (128, 288, 78)])
            if rng.random() < 0.5:
                a, b = b, a
        else:
            if m_ > 16:
                a, b, o = 32, 32, m_
            else:
                a, b, o = rng.choice([(16, 64), (64, 16), (32, 32)]) + (m_,)
    if measure == 'JACCARD':
        t = o / (a + b - o)
    elif measure == 'DICE':
        t = 2.0 * o / (a + b)
    elif measure == 'COSINE':
        import math
        t = o / (math.sqrt(a) * math.sqrt(b))
    else:
        t = o / min(a, b)
    if tie_:
        t = rng.choice([round(t, 4), round(t, 4), t, round(t, 4) + 1e-4, round(t, 4) - 1e-4])
    elif adv_ is None:
        t = min(1.0, gens.ulp_shift(t, rng.choice([0, 0, 0, -1, 1, -2])))
    if adv_ is None and not tie_ and rng.random() < 0.3:
        t = round(t, rng.choice([2, 3, 4])) or t
    t = min(max(t, 1e-3), 1.0)
    common = ['z%02d' % i for i in range(o)]
    xs = ['x%02d' % i for i in range(a - o)]
    ys = ['y%02d' % i for i in range(b - o)]
    lrows = [' '.join(xs + common)]
    rrows = [' '.join(ys + common)]
    # fillers make the common tokens the most frequent ones (ranked last)
    for _ in range(rng.randint(0, 3)):
        lrows.append(' '.join(rng.sample(common, rng.randint(1, o)) + ['f%d' % rng.randint(0, 3)]))
    for _ in range(rng.randint(0, 2)):
        rrows.append(' '.join(rng.sample(common, rng.randint(1, o))))
    import pandas as pd
    L = pd.DataFrame({'id': range(1, len(lrows) + 1), 's': pd.Series(lrows, dtype=object)})
    R = pd.DataFrame({'id': range(1, len(rrows) + 1), 's': pd.Series(rrows, dtype=object)})
    return dict(measure=measure, kind='ws', tok=sm.WhitespaceTokenizer(return_set=True), L=L, R=R,
                names=('id', 's', 'id', 's'), t=t, tcls='tie' if tie_ else 'boundary',
                op=adv_ if adv_ else rng.choice(['>=', '>=', '>', '=']),
                allow_empty=True, allow_missing=False, with_score=True,
                njobs=rng.choice([1, 1, 2]), l_out=None, r_out=None)


def skew_call(rng, measure):
    """Rows of very different sizes related by inclusion (subsets / supersets / overlaps of a few base
    sets), several rows with equal size TOTALS, threshold taken from the similarity of a random
    pair: many qualifying pairs with skewed sizes, probed one after another in one chunk."""
    import math
    import pandas as pd
    import py_stringmatching as sm
    k = rng.randint(8, 14)
    universe = ['w%02d' % i for i in range(k)]
    bases = [rng.sample(universe, rng.randint(4, min(10, k))) for _ in range(2)]

    def row():
        b = rng.choice(bases)
        r = rng.random()
        if r < 0.45:
            toks = rng.sample(b, rng.randint(1, len(b)))
        elif r < 0.8:
            toks = list(b) + rng.sample([u for u in universe if u not in b], rng.randint(0, min(3, k - len(b))))
        else:
            toks = rng.sample(universe, rng.randint(1, k))
        rng.shuffle(toks)
        return ' '.join(toks)
    lrows = [row() for _ in range(rng.randint(2, 8))]
    rrows = [row() for _ in range(rng.randint(2, 8))]
    x = set(rng.choice(lrows).split())
    y = set(rng.choice(rrows).split())
    o = len(x & y)
    a, b = len(x), len(y)
    if measure == 'OVERLAP':
        t = max(1, o - rng.choice([0, 0, 1]))
    else:
        if o == 0:
            t = rng.choice([0.2, 0.35, 0.5])
        elif measure == 'JACCARD':
            t = o / (a + b - o)
        elif measure == 'DICE':
            t = 2.0 * o / (a + b)
        elif measure == 'COSINE':
            t = o / (math.sqrt(a) * math.sqrt(b))
        else:
            t = o / min(a, b)
        t = min(1.0, gens.ulp_shift(t, rng.choice([0, 0, -1, -3])))
        if rng.random() < 0.4:
            t = math.floor(t * rng.choice([10, 20, 100])) / rng.choice([10, 20, 100]) or t
        t = min(max(t, 0.05), 1.0)
    L = pd.DataFrame({'id': range(1, len(lrows) + 1), 's': pd.Series(lrows, dtype=object)})
    R = pd.DataFrame({'id': range(1, len(rrows) + 1), 's': pd.Series(rrows, dtype=object)})
    return dict(measure=measure, kind='ws', tok=sm.WhitespaceTokenizer(return_set=rng.random() < 0.7), L=L, R=R,
                names=('id', 's', 'id', 's'), t=t, tcls='skew', op=rng.choice(['>=', '>=', '>=', '>', '=']),
                allow_empty=True, allow_missing=False, with_score=True,
                njobs=rng.choice([1, 1, 1, 2]), l_out=None, r_out=None)


def ed_family_call(rng):
    """Edit-distance tables whose strings share rare stems and differ in a frequent repeated tail
    and by a few edits: many strings with the SAME rarest q-grams but different lengths."""
    import pandas as pd
    kind = rng.choice(['qgram2', 'qgram3', 'qgram2np'])
    kind, tok = T.make_tokenizer(rng, kind)
    stems = rng.sample(['zqk', 'xq-', 'wv', 'Jy', 'b#c', 'qq'], rng.randint(1, 3))
    tailch = rng.choice('a0e')

    def s_():
        base = rng.choice(stems) + tailch * rng.randint(0, 6)
        r = list(base)
        for _ in range(rng.choice([0, 0, 1, 1, 2])):
            op = rng.choice('ids')
            pos = rng.randint(0, len(r))
            if op == 'i':
                r.insert(pos, rng.choice(tailch + 'z'))
            elif op == 'd' and r:
                del r[min(pos, len(r) - 1)]
            elif op == 's' and r:
                r[min(pos, len(r) - 1)] = rng.choice(tailch + 'z')
        return ''.join(r)
    tiny = rng.random() < 0.3
    if tiny:
        # very short strings and a threshold at or above the longest of them (all three operators)
        s_ = lambda: ''.join(rng.choice('abz') for _ in range(rng.randint(0, 4)))
    lrows = [s_() for _ in range(rng.randint(2, 8))]
    rrows = [s_() for _ in range(rng.randint(2, 8))]
    if tiny:
        # a pair of block-swapped strings (u+v, v+u): far apart (distance = length) yet sharing q-grams
        u = ''.join(rng.choice('abz') for _ in range(2))
        v = ''.join(rng.choice('cdy') for _ in range(2))
        lrows[rng.randrange(len(lrows))] = u + v
        rrows[rng.randrange(len(rrows))] = v + u
    L = pd.DataFrame({'id': range(1, len(lrows) + 1), 's': pd.Series(lrows, dtype=object)})
    R = pd.DataFrame({'id': range(1, len(rrows) + 1), 's': pd.Series(rrows, dtype=object)})
    return dict(measure='EDIT_DISTANCE', kind=kind, tok=tok, L=L, R=R, names=('id', 's', 'id', 's'),
                t=rng.choice([4, 5, 5, 6]) if tiny else rng.choice([1, 1, 2, 2, 3, 1.5]), tcls='ed-family', op=rng.choice(['<=', '<=', '<', '=']),
                allow_empty=True, allow_missing=False, with_score=True, njobs=rng.choice([1, 1, 1, 2]),
                l_out=None, r_out=None)


def empty_call(rng, measure):
    """Tables salted with values that tokenize to nothing (empty, blanks, delimiter-only, shorter than
    an unpadded q) on BOTH sides, every operator, thresholds incl. 1.0: the allow_empty logic (C09)."""
    call = gen_call(rng, measure)
    if call['measure'] == 'EDIT_DISTANCE':
        return call
    kind = call['kind']
    blanks = {'ws': ['', ' ', '   '], 'delim': ['', ',', ',,'], 'alnum': ['', ' ,; ', '--'], 'qgram2np': ['', 'x', 'y'],
              'qgram3': [''], 'qgram2': ['']}.get(kind, [''])
    names = call['names']
    for df, col in ((call['L'], names[1]), (call['R'], names[3])):
        if len(df) == 0:
            continue
        vals = df[col].tolist()
        for k in rng.sample(range(len(vals)), rng.randint(1, max(1, len(vals) // 2))):
            vals[k] = rng.choice(blanks)
        import pandas as pd
        df[col] = pd.Series(vals, index=df.index, dtype=object)
    if call['measure'] != 'OVERLAP':
        call['t'] = rng.choice([1.0, 1, 0.5, 0.999, call['t']])
    call['op'] = rng.choice(['>=', '>', '='])
    call['allow_empty'] = rng.random() < 0.75
    call['tcls'] = 'empty-salted'
    return call


def run_call(call):
    """Returns (DataFrame | exception instance)."""
    try:
        return T.call_join(call['measure'], call['L'], call['R'], call['names'], call['tok'],
                           call['t'], call['op'], call['allow_empty'], call['allow_missing'],
                           call['l_out'], call['r_out'], call['with_score'], call['njobs'])
    except Exception as e:  # noqa
        e._tb = traceback.format_exc()
        return e


def abstract(call, df, idx):
    """(defs, exprs) for the Coq case group number idx."""
    m = call['measure']
    tok = call['tok']
    names = call['names']
    if m == 'EDIT_DISTANCE':
        rows_l, rows_r, it, toks = T.abstract_tables(call['L'], call['R'], names,
                                                     T.bag_mode_tokenize(tok), with_strings=True)
        q = tok.qval
    else:
        rows_l, rows_r, it, toks = T.abstract_tables(call['L'], call['R'], names,
                                                     T.set_mode_tokenize(tok))
        q = getattr(tok, 'qval', 0)
    allow_empty = call['allow_empty'] if m not in ('OVERLAP', 'EDIT_DISTANCE') else False
    lit = T.jcase_lit(('join', m), call['t'], q, call['op'], allow_empty, call['allow_missing'],
                      call['with_score'], call['njobs'], T.cpu_count(), rows_l, rows_r)
    lcol = 'l_' + names[0]
    rcol = 'r_' + names[2]
    obs = T.obs_lit(df, lcol, rcol, it, call['with_score'])
    defs = 'Definition c%d : jcase := %s.\nDefinition o%d : list out_row := %s.' % (idx, lit, idx, obs)
    exprs = ['%s c%d o%d' % (sp, idx, idx) for sp in SPECS]
    return defs, exprs


def describe(call, df=None):
    d = {k: call[k] for k in ('measure', 'kind', 'op', 'allow_empty', 'allow_missing', 'with_score',
                              'njobs', 'l_out', 'r_out', 'tcls')}
    t = call['t']
    d['threshold'] = t.hex() if isinstance(t, float) else t
    d['threshold_repr'] = repr(t)
    d['return_set_at_entry'] = call.get('rs0')
    d['names'] = list(call['names'])
    d['ltable'] = call['L'].to_dict(orient='split')
    d['rtable'] = call['R'].to_dict(orient='split')
    if df is not None and not isinstance(df, Exception):
        d['observed'] = df.to_dict(orient='split')
    elif df is not None:
        d['observed_exception'] = '%s: %s' % (type(df).__name__, df)
    return d


def is_nontrivial(call, df):
    """non-trivial: both tables have a present row and at least one pair was NOT returned
    (something was pruned or rejected) and at least one was."""
    if isinstance(df, Exception):
        return False
    nl = call['L'][call['names'][1]].notnull().sum()
    nr = call['R'][call['names'][3]].notnull().sum()
    return nl > 0 and nr > 0 and 0 < len(df) < len(call['L']) * len(call['R'])


def run(seed, n, measures=None, boundary_frac=0.3, empty_frac=0.08):
    rng = random.Random(seed)
    groups, calls, dfs = [], [], []
    dist = {'measure': {}, 'op': {}, 'njobs': {}, 'tcls': {}, 'rows': {}, 'exceptions': {}}
    for i in range(n):
        m = rng.choice(measures) if measures else None
        r_ = rng.random()
        if rng.random() < empty_frac:
            call = empty_call(rng, m)
        elif r_ < boundary_frac and (m or 'JACCARD') in ('JACCARD', 'COSINE', 'DICE', 'OVERLAP_COEFFICIENT'):
            call = boundary_call(rng, m or rng.choice(['JACCARD', 'COSINE', 'DICE']))
        elif r_ < boundary_frac + 0.3 and (m or 'JACCARD') != 'EDIT_DISTANCE':
            call = skew_call(rng, m or rng.choice(SET_MEASURES))
        elif r_ < 0.5 and m == 'EDIT_DISTANCE':
            call = ed_family_call(rng)
        else:
            call = gen_call(rng, m)
        if rng.random() < 0.03 and call['measure'] != 'EDIT_DISTANCE':
            # more right rows than CPUs, n_jobs above the CPU count (every chunk must be processed)
            ncpu = T.cpu_count()
            need = 3 * (ncpu + 4)
            Lw, Rw, namesw = T.gen_tables(rng, call['kind'], max_rows=need, missing_p=0.0, universe_size=8)
            while len(Rw) < need:
                Lw, Rw, namesw = T.gen_tables(rng, call['kind'], max_rows=need, missing_p=0.0, universe_size=8)
            call = dict(call, L=Lw.head(4), R=Rw, names=namesw, l_out=None, r_out=None,
                        njobs=rng.choice([ncpu + 4, ncpu + 1]), tcls='wide')
        call['rs0'] = call['tok'].get_return_set()
        df = run_call(call)
        for k, v in (('measure', call['measure']), ('op', call['op']), ('njobs', call['njobs']),
                     ('tcls', call['tcls']), ('rows', '%dx%d' % (len(call['L']), len(call['R'])))):
            dist[k][str(v)] = dist[k].get(str(v), 0) + 1
        calls.append(call)
        dfs.append(df)
        if isinstance(df, Exception):
            dist['exceptions'][type(df).__name__] = dist['exceptions'].get(type(df).__name__, 0) + 1
            groups.append(('', []))
            continue
        groups.append(abstract(call, df, i))
    bad = C.run_groups('joins_%d' % seed, ['TokenOrdering', 'Filters', 'Joins', 'Api', 'JoinSpec', 'MetaSpec'], groups)
    res = {'evaluations': n, 'distribution': dist, 'differ': [], 'spec_fail': [], 'exceptions': [],
           'nontrivial': sum(1 for c, d in zip(calls, dfs) if is_nontrivial(c, d))}
    res['failing_calls'] = [calls[gi] for gi in sorted(set(g for g, _ in bad))]
    for (gi, ei) in sorted(bad):
        (res['differ'] if ei == 0 else res['spec_fail']).append(
            {'case': gi, 'which': SPECS[ei],
             'call': describe(calls[gi], dfs[gi])})
    for i, d in enumerate(dfs):
        if isinstance(d, Exception):
            res['exceptions'].append({'case': i, 'call': describe(calls[i], d), 'traceback': getattr(d, '_tb', '')})
    res['samples'] = [describe(calls[i], dfs[i]) for i in range(min(2, n))]
    return res


if __name__ == '__main__':
    import json
    r = run(int(sys.argv[1]) if len(sys.argv) > 1 else 1, int(sys.argv[2]) if len(sys.argv) > 2 else 100,
            sys.argv[3].split(',') if len(sys.argv) > 3 else None)
    print(json.dumps({k: r[k] for k in ('evaluations', 'nontrivial', 'distribution')}, indent=1, default=str))
    print('DIFFER', len(r['differ']), 'SPEC_FAIL', len(r['spec_fail']), 'EXC', len(r['exceptions']))
    for d in (r['differ'] + r['spec_fail'])[:3]:
        print(json.dumps(d, indent=1, default=str)[:2500])
    for d in r['exceptions'][:3]:
        print(d['call'].get('observed_exception'), d['traceback'][-600:])
