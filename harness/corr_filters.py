"""Correspondence for the five filters: filter_pair (function level, every spec of
Spec/FilterSpec.v) and filter_tables (API level, through Model/Api.v + Spec/JoinSpec.v)."""
import os
import random
import sys
import traceback

sys.path.insert(0, os.path.dirname(os.path.abspath(__file__)))
import common as C  # noqa: E402
import gens  # noqa: E402
import tables as T  # noqa: E402

FILTERS = ['size', 'prefix', 'position', 'suffix', 'overlap']
WHICH = {'size': 'FSize', 'prefix': 'FPrefix', 'position': 'FPosition', 'suffix': 'FSuffix',
         'overlap': 'FOverlap'}
TABLE_SPECS = ['model_agrees', 'complete_spec', 'sound_spec', 'missing_spec', 'empty_spec']
FP_SPECS = ['fp_agrees', 'fp_safe_spec', 'fp_overlap_exact_spec', 'fp_missing_spec', 'fp_empty_spec',
            'fp_common_token_spec']


def make_filter(rng, which=None, measure=None):
    import py_stringsimjoin as ssj
    import py_stringmatching as sm
    which = which or rng.choice(FILTERS)
    allow_empty = rng.random() < 0.6
    allow_missing = rng.random() < 0.4
    if which == 'overlap':
        kind, tok = T.make_tokenizer(rng, None, return_set=True)
        size = rng.choice([1, 1, 2, 3])
        op = rng.choice(['>=', '>=', '>', '='])
        f = ssj.OverlapFilter(tok, size, op, allow_missing)
        return dict(which=which, measure='OVERLAP', t=size, tcls='int', op=op, tok=tok, kind=kind, filt=f,
                    allow_empty=False, allow_missing=allow_missing, q=getattr(tok, 'qval', 0))
    m = measure or rng.choice(gens.ALL_FILTER_MEASURES)
    if m == 'EDIT_DISTANCE':
        kind, tok = T.make_tokenizer(rng, rng.choice(['qgram2', 'qgram3', 'qgram2np']), return_set=False)
        tcls, t = 'int', rng.choice([0, 1, 1, 2, 2, 3])
        if rng.random() < 0.25:      # float thresholds are documented and validated: distance <= 1.5 means <= 1
            tcls, t = 'float', rng.choice([0.0, 1.0, 2.0, 1.5, 0.5, 2.999999, 3.0000001])
    elif m == 'OVERLAP':
        kind, tok = T.make_tokenizer(rng, None, return_set=True)
        tcls, t = 'int', rng.choice([1, 1, 2, 3])
        if rng.random() < 0.25:      # overlap >= 1.5 means >= 2
            tcls, t = 'float', rng.choice([1.0, 2.0, 1.5, 0.5, 2.000001, 1e-9, 3.0])
    else:
        kind, tok = T.make_tokenizer(rng, None, return_set=True)
        tcls, t = gens.any_threshold_value(rng)
    cls = {'size': ssj.SizeFilter, 'prefix': ssj.PrefixFilter, 'position': ssj.PositionFilter,
           'suffix': ssj.SuffixFilter}[which]
    # the library upper-cases the measure name: any spelling must behave like the canonical one
    m_spelled = m if rng.random() < 0.8 else rng.choice([m.lower(), m.capitalize(), m[0].lower() + m[1:]])
    f = cls(tok, m_spelled, t, allow_empty, allow_missing)
    return dict(which=which, measure=m, t=t, tcls=tcls, op='>=', tok=tok, kind=kind, filt=f,
                allow_empty=allow_empty, allow_missing=allow_missing, q=getattr(tok, 'qval', 0))


def fval_lit(v, tok):
    if T.is_missing(v):
        return 'None', []
    tl = tok.tokenize(v)
    return (v, tl), tl


def fp_case(fd, l, r, idx, dropped):
    tok = fd['tok']
    lv, lt = fval_lit(l, tok)
    rv, rt = fval_lit(r, tok)
    ids = {t: i + 1 for i, t in enumerate(sorted(set(lt) | set(rt)))}

    def lit(v):
        if v == 'None':
            return 'None'
        s, tl = v
        return 'Some (%s, %s)' % (C.zlist([ord(c) for c in s]), C.zlist([ids[t] for t in tl]))
    b = lambda x: 'true' if x else 'false'
    defs = ('Definition f%d : fpcase := {| fp_which := %s; fp_p := {| fm := %s; ft := %s; fq := %s |}; '
            'fp_op := %s; fp_allow_empty := %s; fp_allow_missing := %s;\n  fp_l := %s; fp_r := %s |}.'
            % (idx, WHICH[fd['which']], C.coq_str(fd['measure']), C.pyval_lit(fd['t']), C.z(fd['q']),
               C.coq_str(fd['op']), b(fd['allow_empty']), b(fd['allow_missing']), lit(lv), lit(rv)))
    exprs = ['%s f%d %s' % (s, idx, b(dropped)) for s in FP_SPECS]
    return defs, exprs


def gen_pair(rng, fd):
    """A pair of values for filter_pair, often related (shared tokens / few edits)."""
    kind = fd['kind']
    k = rng.randint(2, 12)
    universe = rng.sample(T.WORDS, k)
    weights = [rng.choice([1, 1, 2, 4]) for _ in universe]
    l = T.gen_string(rng, kind, universe, weights, maxlen=8)
    if kind.startswith('qgram') and rng.random() < 0.25:
        # strings over a two-letter alphabet: the same q-gram occurs several times in a prefix (bags!)
        l = ''.join(rng.choice('ab') for _ in range(rng.randint(2, 7))) if rng.random() < 0.7 else rng.choice(['aaa', 'www', '000', 'abab', 'aaaa'])
    if rng.random() < 0.6:
        # derive r from l
        if kind.startswith('qgram'):
            r = list(l)
            for _ in range(rng.randint(0, 3)):
                op = rng.choice('ids')
                pos = rng.randint(0, len(r))
                if op == 'i':
                    r.insert(pos, rng.choice('abz#'))
                elif op == 'd' and r:
                    del r[min(pos, len(r) - 1)]
                elif op == 's' and r:
                    r[min(pos, len(r) - 1)] = rng.choice('abz')
            r = ''.join(r)
        else:
            sep = ',' if kind == 'delim' else ' '
            toks = [t for t in l.split(sep) if t]
            keep = [t for t in toks if rng.random() < 0.7]
            extra = rng.sample(universe, rng.randint(0, min(3, len(universe))))
            r = sep.join(keep + extra)
    else:
        r = T.gen_string(rng, kind, universe, weights, maxlen=8)
    if kind.startswith('qgram') and rng.random() < 0.12:
        # a run of one q-gram wrapped in one edit on each side (and the alternating variant): the repeated
        # q-gram fills the shorter string's prefix and occurs again further right in the longer one
        c_, d_ = rng.sample('abwz01', 2)
        if rng.random() < 0.6:
            l = c_ * rng.randint(3, 4)
            r = d_ + l + d_
        else:
            l = (c_ + d_) * 2
            r = d_ + l + c_
        if rng.random() < 0.3:
            l, r = r, l
    if rng.random() < 0.08:
        l = None
    if rng.random() < 0.08:
        r = float('nan')
    return l, r


def run_pairs(seed, n):
    rng = random.Random(seed)
    groups, info = [], []
    dist = {'filter': {}, 'measure': {}, 'dropped': {}}
    exceptions = []
    fd = None
    for i in range(n):
        if fd is None or i % 5 == 0:
            fd = make_filter(rng)
        l, r = gen_pair(rng, fd)
        try:
            dropped = fd['filt'].filter_pair(l, r)
        except Exception as e:  # noqa
            exceptions.append({'filter': fd['which'], 'measure': fd['measure'], 't': repr(fd['t']),
                               'l': repr(l), 'r': repr(r), 'exc': '%s: %s' % (type(e).__name__, e),
                               'tb': traceback.format_exc()[-800:]})
            groups.append(('', []))
            info.append(None)
            continue
        for k, v in (('filter', fd['which']), ('measure', fd['measure']), ('dropped', bool(dropped))):
            dist[k][str(v)] = dist[k].get(str(v), 0) + 1
        groups.append(fp_case(fd, l, r, i, bool(dropped)))
        info.append({'filter': fd['which'], 'measure': fd['measure'],
                     't': fd['t'].hex() if isinstance(fd['t'], float) else fd['t'], 't_repr': repr(fd['t']),
                     'op': fd['op'], 'tokenizer': fd['kind'], 'return_set': fd['tok'].get_return_set(),
                     'allow_empty': fd['allow_empty'], 'allow_missing': fd['allow_missing'],
                     'l': None if T.is_missing(l) else l, 'r': None if T.is_missing(r) else r,
                     'dropped': bool(dropped)})
    bad = C.run_groups('fpairs_%d' % seed,
                       ['TokenOrdering', 'Filters', 'Suffix', 'Joins', 'Api', 'JoinSpec', 'FilterSpec'],
                       groups, shard=250)
    res = {'evaluations': n, 'distribution': dist, 'differ': [], 'spec_fail': [], 'exceptions': exceptions,
           'nontrivial': len(set((d['filter'], d['measure'], d['t_repr'], d['l'], d['r'])
                                 for d in info if d and d['l'] is not None and d['r'] is not None)),
           'samples': [d for d in info if d][:3]}
    for gi, ei in sorted(bad):
        (res['differ'] if ei == 0 else res['spec_fail']).append({'case': gi, 'which': FP_SPECS[ei], 'call': info[gi]})
    return res


def run_pair_sequences(seed, n):
    """ONE filter object judging a SEQUENCE of pairs whose token totals coincide (balanced pair
    first, then a qualifying unbalanced pair with the same total): state kept on the filter object
    between filter_pair calls must not influence a verdict (C04 on histories of filter_pair)."""
    import math
    import py_stringsimjoin as ssj
    import py_stringmatching as sm
    rng = random.Random(seed + 29)
    groups, info, exceptions = [], [], []
    dist = {'filter': {}, 'measure': {}, 'dropped': {}}
    idx = 0
    for i in range(n):
        which = rng.choice(['position', 'position', 'prefix', 'size'])
        m = rng.choice(['COSINE', 'COSINE', 'EDIT_DISTANCE', 'JACCARD', 'DICE'])
        k = rng.randint(2, 7)
        sz = rng.randint(1, k - 1)
        seq = []
        if m == 'EDIT_DISTANCE':
            tok = sm.QgramTokenizer(qval=2, return_set=False)
            kind = 'qgram2'
            t = rng.choice([1, 2, 2, 3])
            base = ''.join(rng.choice('abcdxy') for _ in range(rng.randint(3, 6)))
            far = ''.join(rng.choice('mnopq') for _ in range(len(base) + rng.choice([-1, 0, 1, 2])))
            near = list(base)
            for _ in range(t):
                pos = rng.randrange(len(near))
                near[pos] = rng.choice('zw')
            seq = [(base[:len(base) - 1] if len(base) > 3 else base, base + 'qq'), (base, far), (base, ''.join(near))]
            rng.shuffle(seq)
            seq.append((base, ''.join(near)))
        else:
            tok = sm.WhitespaceTokenizer(return_set=True)
            kind = 'ws'
            common = ['c%d' % j for j in range(sz)]
            x = common
            y = common + ['y%d' % j for j in range(2 * k - 2 * sz)]
            o, a, b = sz, len(x), len(y)
            simv = {'COSINE': o / math.sqrt(a * b), 'JACCARD': o / (a + b - o), 'DICE': 2.0 * o / (a + b)}[m]
            t = max(0.05, math.floor(simv * 1000) / 1000)
            bal1 = ['p%d' % j for j in range(k)]
            bal2 = ['p0'] + ['r%d' % j for j in range(k - 1)]
            seq = [(' '.join(bal1), ' '.join(bal2)), (' '.join(x), ' '.join(y)), (' '.join(y), ' '.join(x))]
        cls = {'size': ssj.SizeFilter, 'prefix': ssj.PrefixFilter, 'position': ssj.PositionFilter}[which]
        try:
            flt = cls(tok, m, t, True, False)
        except Exception as e:  # noqa
            exceptions.append({'filter': which, 'measure': m, 't': repr(t), 'exc': '%s: %s' % (type(e).__name__, e)})
            continue
        fd = dict(which=which, measure=m, t=t, op='>=', tok=tok, kind=kind, allow_empty=True, allow_missing=False,
                  q=getattr(tok, 'qval', 0), filt=flt)
        for stp, (l, r) in enumerate(seq):
            try:
                dropped = bool(flt.filter_pair(l, r))
            except Exception as e:  # noqa
                exceptions.append({'filter': which, 'measure': m, 't': repr(t), 'l': l, 'r': r,
                                   'exc': '%s: %s' % (type(e).__name__, e), 'tb': traceback.format_exc()[-600:]})
                continue
            for kk, vv in (('filter', which), ('measure', m), ('dropped', dropped)):
                dist[kk][str(vv)] = dist[kk].get(str(vv), 0) + 1
            groups.append(fp_case(fd, l, r, idx, dropped))
            info.append({'filter': which, 'measure': m, 't': t.hex() if isinstance(t, float) else t, 't_repr': repr(t),
                         'step_in_sequence': stp, 'sequence': seq, 'l': l, 'r': r, 'dropped': dropped})
            idx += 1
    bad = C.run_groups('fpseq_%d' % seed,
                       ['TokenOrdering', 'Filters', 'Suffix', 'Joins', 'Api', 'JoinSpec', 'FilterSpec'],
                       groups, shard=250)
    res = {'evaluations': len(groups), 'distribution': dist, 'differ': [], 'spec_fail': [], 'exceptions': exceptions,
           'nontrivial': len(groups), 'samples': info[:2]}
    for gi, ei in sorted(bad):
        (res['differ'] if ei == 0 else res['spec_fail']).append({'case': gi, 'which': FP_SPECS[ei], 'call': info[gi]})
    return res


# ---------------------------------------------------------------- filter_tables
def gen_tables_call(rng, which=None, measure=None):
    fd = make_filter(rng, which, measure)
    L, Rt, names = T.gen_tables(rng, fd['kind'])
    call = dict(fd, L=L, R=Rt, names=names, njobs=rng.choice([1, 1, 1, 2, 3, -1]),
                with_score=(fd['which'] == 'overlap' and rng.random() < 0.7), l_out=None, r_out=None)
    return call


def empty_tables_call(rng, which=None):
    """filter_tables on tables salted with values that tokenize to nothing on both sides; sometimes
    EVERY left value is such a value (so that nothing at all is indexed)."""
    import pandas as pd
    import py_stringsimjoin as ssj
    call = gen_tables_call(rng, which or rng.choice(['size', 'prefix', 'position', 'suffix', 'overlap']),
                           rng.choice(['JACCARD', 'COSINE', 'DICE', 'JACCARD', 'OVERLAP']))
    if call['measure'] == 'EDIT_DISTANCE':
        return call
    if call['which'] != 'overlap':
        # allow_empty is a constructor argument: rebuild the filter with it mostly on
        call['allow_empty'] = rng.random() < 0.8
        cls = {'size': ssj.SizeFilter, 'prefix': ssj.PrefixFilter, 'position': ssj.PositionFilter,
               'suffix': ssj.SuffixFilter}[call['which']]
        m_ = call['measure']
        m_spelled = m_ if rng.random() < 0.6 else rng.choice([m_.lower(), m_.capitalize(), m_[0].lower() + m_[1:]])
        call['filt'] = cls(call['tok'], m_spelled, call['t'], call['allow_empty'], call['allow_missing'])
    kind = call['kind']
    blanks = {'ws': ['', ' ', '   '], 'delim': ['', ',', ',,'], 'alnum': ['', ' ,; ', '--'], 'qgram2np': ['', 'x', 'y'],
              'qgram3': [''], 'qgram2': ['']}.get(kind, [''])
    names = call['names']
    all_left = rng.random() < 0.4
    for df, col, side in ((call['L'], names[1], 'l'), (call['R'], names[3], 'r')):
        if len(df) == 0:
            continue
        vals = df[col].tolist()
        ks = range(len(vals)) if (all_left and side == 'l') else rng.sample(range(len(vals)), rng.randint(1, max(1, len(vals) // 2)))
        for k in ks:
            if not T.is_missing(vals[k]):
                vals[k] = rng.choice(blanks)
        df[col] = pd.Series(vals, index=df.index, dtype=object)
    return call


def run_tables_call(call):
    import joblib
    lkey, ljoin, rkey, rjoin = call['names']
    try:
        with joblib.parallel_config(backend=T.C_BACKEND[0]):
            if call['which'] == 'overlap':
                return call['filt'].filter_tables(call['L'], call['R'], lkey, rkey, ljoin, rjoin,
                                                  call['l_out'], call['r_out'], 'l_', 'r_',
                                                  call['with_score'], call['njobs'], False)
            return call['filt'].filter_tables(call['L'], call['R'], lkey, rkey, ljoin, rjoin,
                                              call['l_out'], call['r_out'], 'l_', 'r_',
                                              call['njobs'], False)
    except Exception as e:  # noqa
        e._tb = traceback.format_exc()
        return e


def abstract_tables_call(call, df, idx):
    tok = call['tok']
    ed = call['measure'] == 'EDIT_DISTANCE'
    rows_l, rows_r, it, toks = T.abstract_tables(call['L'], call['R'], call['names'], tok.tokenize,
                                                 with_strings=ed)
    if call['which'] == 'overlap':
        entry = ('overlap_filter',)
    else:
        entry = ('filter', call['which'], call['measure'])
    lit = T.jcase_lit(entry, call['t'], call['q'], call['op'], call['allow_empty'], call['allow_missing'],
                      call['with_score'], call['njobs'], T.cpu_count(), rows_l, rows_r)
    obs = T.obs_lit(df, 'l_' + call['names'][0], 'r_' + call['names'][2], it, call['with_score'])
    defs = 'Definition c%d : jcase := %s.\nDefinition o%d : list out_row := %s.' % (idx, lit, idx, obs)
    return defs, ['%s c%d o%d' % (sp, idx, idx) for sp in TABLE_SPECS]


def describe_tables(call, df=None):
    d = {k: call[k] for k in ('which', 'measure', 'op', 'allow_empty', 'allow_missing', 'with_score', 'njobs', 'kind', 'tcls')}
    t = call['t']
    d['threshold'] = t.hex() if isinstance(t, float) else t
    d['threshold_repr'] = repr(t)
    d['return_set'] = call['tok'].get_return_set()
    d['names'] = list(call['names'])
    d['ltable'] = call['L'].to_dict(orient='split')
    d['rtable'] = call['R'].to_dict(orient='split')
    if df is not None and not isinstance(df, Exception):
        d['observed'] = df.to_dict(orient='split')
    elif df is not None:
        d['observed_exception'] = '%s: %s' % (type(df).__name__, df)
    if 'earlier_call_on_same_filter_object' in call:
        d['earlier_call_on_same_filter_object'] = call['earlier_call_on_same_filter_object']
    return d


def run_tables(seed, n, which=None, empty_frac=0.1):
    rng = random.Random(seed + 7)
    groups, calls, dfs = [], [], []
    dist = {'filter': {}, 'measure': {}, 'njobs': {}, 'exceptions': {}}
    for i in range(n):
        if rng.random() < empty_frac:
            call = empty_tables_call(rng, rng.choice(which) if which else None)
        else:
            call = gen_tables_call(rng, rng.choice(which) if which else None)
        # a third of the calls use a filter object that has ALREADY served a filter_tables call on other
        # tables (own PRNG: the recorded stream of cases is unchanged): a filter object must carry nothing
        # from one call into the next
        rng_w = random.Random(seed * 7919 + i)
        if rng_w.random() < 0.34:
            Lw, Rw, names_w = T.gen_tables(rng_w, call['kind'])
            run_tables_call(dict(call, L=Lw, R=Rw, names=names_w, njobs=1))
            call['earlier_call_on_same_filter_object'] = {'names': list(names_w), 'njobs': 1,
                                                          'ltable': Lw.to_dict(orient='split'),
                                                          'rtable': Rw.to_dict(orient='split')}
            dist.setdefault('reused_filter_object', {'yes': 0})['yes'] += 1
        df = run_tables_call(call)
        calls.append(call)
        dfs.append(df)
        for k, v in (('filter', call['which']), ('measure', call['measure']), ('njobs', call['njobs'])):
            dist[k][str(v)] = dist[k].get(str(v), 0) + 1
        if isinstance(df, Exception):
            dist['exceptions'][type(df).__name__] = dist['exceptions'].get(type(df).__name__, 0) + 1
            groups.append(('', []))
        else:
            groups.append(abstract_tables_call(call, df, i))
    bad = C.run_groups('ftables_%d' % seed,
                       ['TokenOrdering', 'Filters', 'Suffix', 'Joins', 'Api', 'JoinSpec', 'MetaSpec'], groups)
    res = {'evaluations': n, 'distribution': dist, 'differ': [], 'spec_fail': [], 'exceptions': [],
           'nontrivial': sum(1 for c, d in zip(calls, dfs) if not isinstance(d, Exception) and
                             0 < len(d) < len(c['L']) * len(c['R'])),
           'samples': [describe_tables(calls[i], dfs[i]) for i in range(min(2, n))]}
    for gi, ei in sorted(bad):
        (res['differ'] if ei == 0 else res['spec_fail']).append(
            {'case': gi, 'which': TABLE_SPECS[ei],
             'call': describe_tables(calls[gi], dfs[gi])})
    for i, d in enumerate(dfs):
        if isinstance(d, Exception):
            res['exceptions'].append({'case': i, 'call': describe_tables(calls[i], d), 'traceback': getattr(d, '_tb', '')})
    return res


if __name__ == '__main__':
    import json
    seed = int(sys.argv[1]) if len(sys.argv) > 1 else 1
    n = int(sys.argv[2]) if len(sys.argv) > 2 else 200
    mode = sys.argv[3] if len(sys.argv) > 3 else 'pairs'
    r = run_pairs(seed, n) if mode == 'pairs' else (run_pair_sequences(seed, n) if mode == 'seq' else run_tables(seed, n))
    print(json.dumps(r['distribution'], default=str))
    print('NONTRIVIAL', r['nontrivial'], 'DIFFER', len(r['differ']), 'SPEC_FAIL', len(r['spec_fail']), 'EXC', len(r['exceptions']))
    for d in (r['differ'][:4] + r['spec_fail'][:6]):
        print(json.dumps(d, default=str)[:1500])
    for d in r['exceptions'][:3]:
        print(json.dumps(d, default=str)[:1500])
