#!/bin/sh
# drill.sh <patch.diff> Cxx [Cyy ...] : apply a seeded change to /repo, run the quick checks, undo.
# (-R as first argument applies the patch in reverse: used to re-introduce a repaired defect)
REV=""
if [ "$1" = "-R" ]; then REV="-R"; shift; fi
P="$1"; shift
cd /repo || exit 2
if [ -n "$(git status --porcelain)" ]; then echo "drill: /repo is not clean"; exit 2; fi
cp -r /verif/evidence /verif/.work/evidence_before_drill 2>/dev/null
git apply $REV "$P" || { echo "drill: patch does not apply"; exit 2; }
for pid in "$@"; do
  (cd /verif && ./check "$pid" --tier quick 2>&1 | grep -E "VIOLATION|KNOWN-FINDING|violations=" | cut -c1-400)
done
git -C /repo checkout -- . ; cp /verif/.work/evidence_before_drill/*.json /verif/evidence/ 2>/dev/null; rm -rf /verif/.work/evidence_before_drill; git -C /repo status --porcelain | head -3
