"""C10 (thorough tier): the same generated calls are executed in fresh Python processes under two
different PYTHONHASHSEEDs and with real loky worker processes (n_jobs > 1), and in this process
with the threading backend; the canonical multisets of result rows must coincide.  This is the
part of C10 no Gallina model can express (a function is deterministic by construction)."""
import json
import os
import random
import subprocess
import sys

sys.path.insert(0, os.path.dirname(os.path.abspath(__file__)))
import common as C  # noqa: E402
import tables as T  # noqa: E402
import corr_joins as J  # noqa: E402
import corr_filters as F  # noqa: E402
import corr_meta as M  # noqa: E402


def gen_and_run(seed, n, backend):
    T.C_BACKEND[0] = backend
    rng = random.Random(seed + 401)
    out = []
    for i in range(n):
        if rng.random() < 0.7:
            call = J.gen_call(rng, None, njobs_choices=(2, 3, 4))
            if call['measure'] in M.JCD:       # gray pairs are a known finding: keep n_jobs fixed, vary only the process
                pass
            df = J.run_call(call)
            entry = call['measure']
        else:
            call = F.gen_tables_call(rng)
            call['njobs'] = rng.choice([2, 3])
            df = F.run_tables_call(call)
            entry = 'filter:' + call['which']
        if isinstance(df, Exception):
            out.append({'entry': entry, 'exc': type(df).__name__})
        else:
            cols, rows = M.canon_rows(df)
            out.append({'entry': entry, 'cols': cols, 'rows': rows, 'ids_ok': M.ids_ok(df)})
    return out


def run(seed, n):
    res = {'evaluations': 0, 'distribution': {'entry': {}}, 'differ': [], 'spec_fail': [], 'exceptions': [],
           'nontrivial': 0, 'samples': []}
    here = os.path.abspath(__file__)
    outs = {}
    for tag, hs, backend in (('hashseed1_loky', '1', 'loky'), ('hashseed2_loky', '2', 'loky')):
        env = C.impl_env()
        env['PYTHONHASHSEED'] = hs
        rc, out, _ = C.run([C.PY, here, 'worker', str(seed), str(n), backend], timeout=3000, env=env)
        line = [l for l in out.splitlines() if l.startswith('RESULT ')]
        if rc != 0 or not line:
            res['exceptions'].append({'case': 0, 'call': {'entry': tag, 'observed_exception': out[-800:]}})
            return res
        outs[tag] = json.loads(line[-1][7:])
    outs['in_process_threading'] = json.loads(json.dumps(gen_and_run(seed, n, 'threading')))
    tags = list(outs)
    for i in range(n):
        res['evaluations'] += len(tags)
        ref = outs[tags[0]][i]
        e = ref['entry']
        res['distribution']['entry'][e] = res['distribution']['entry'].get(e, 0) + 1
        if 'rows' in ref and ref['rows']:
            res['nontrivial'] += 1
        for t in tags[1:]:
            if outs[t][i] != ref:
                res['spec_fail'].append({'case': i, 'which': 'result differs between %s and %s' % (tags[0], t),
                                         'call': {'entry': e, 'first': ref, 'second': outs[t][i]}})
    return res


if __name__ == '__main__':
    if len(sys.argv) > 1 and sys.argv[1] == 'worker':
        sys.path.insert(0, C.REPO)
        r = gen_and_run(int(sys.argv[2]), int(sys.argv[3]), sys.argv[4])
        print('RESULT ' + json.dumps(r))
    else:
        r = run(int(sys.argv[1]) if len(sys.argv) > 1 else 1, int(sys.argv[2]) if len(sys.argv) > 2 else 10)
        print('EVAL', r['evaluations'], 'NONTRIVIAL', r['nontrivial'], 'SPEC_FAIL', len(r['spec_fail']), 'EXC', len(r['exceptions']))
        for d in (r['spec_fail'] + r['exceptions'])[:3]:
            print(json.dumps(d, default=str)[:1500])
