"""Search for a concrete failing input when an arithmetic proof obligation about the generated
filter_utils formulas no longer checks.

1. formula sweep: over measures, an adversarial threshold grid and all (a, b, o) up to a bound,
   call the REAL filter_utils functions and look for a QUALIFYING triple (raw and 4-decimal score
   >= t) that violates one of the conditions the proofs establish (size window both ways, required
   overlap <= o, both prefixes long enough) -- or, for tightness (C14), a non-qualifying count pair
   inside the window although the best attainable similarity is > 1e-4 below t;
2. table synthesis: two rows realising (a, b, o) with the common tokens ranked LAST in the global
   order (most frequent through filler rows) -- the worst case for prefix/position pruning;
3. confirmation against the real join / filter, with complete_spec evaluated inside Coq.
"""
import math
import os
import random
import struct
import sys

import pandas as pd

sys.path.insert(0, os.path.dirname(os.path.abspath(__file__)))
import common as C  # noqa: E402
import corr_joins as J  # noqa: E402
import tables as T  # noqa: E402

JCD = ('JACCARD', 'COSINE', 'DICE')


def ulp(x, k):
    b = struct.unpack('<q', struct.pack('<d', x))[0]
    return struct.unpack('<d', struct.pack('<q', b + k))[0]


def sim(m, a, b, o):
    if o == a == b:
        return 1.0
    if m == 'JACCARD':
        return float(o) / float(a + b - o)
    if m == 'DICE':
        return 2.0 * float(o) / float(a + b)
    return float(o) / (math.sqrt(float(a)) * math.sqrt(float(b)))


def thresholds(m, a, b, o):
    s = sim(m, a, b, o)
    r = round(s, 4)
    out = {s, ulp(s, -1), ulp(s, -2), min(s, r), round(s, 2), round(s, 3), math.floor(s * 100) / 100}
    return [t for t in out if 0 < t <= 1.0 and s >= t and r >= t]


def sweep(max_size=40, limit=20, measures=JCD):
    """Qualifying (m, t, a, b, o) violating a filter condition, from the real functions."""
    from py_stringsimjoin.filter.filter_utils import (get_size_lower_bound as lb, get_size_upper_bound as ub,
                                                      get_prefix_length as pl, get_overlap_threshold as ot)
    found = []
    for m in measures:
        for a in range(1, max_size + 1):
            for b in range(1, max_size + 1):
                for o in range(1, min(a, b) + 1):
                    for t in thresholds(m, a, b, o):
                        bad = []
                        try:
                            if not (lb(b, m, t) <= a <= ub(b, m, t)):
                                bad.append('size window (probe b)')
                            if not (lb(a, m, t) <= b <= ub(a, m, t)):
                                bad.append('size window (probe a)')
                            if ot(a, b, m, t, None) > o:
                                bad.append('overlap threshold')
                            if a - pl(a, m, t, None) + 1 > o:
                                bad.append('prefix length (a)')
                            if b - pl(b, m, t, None) + 1 > o:
                                bad.append('prefix length (b)')
                        except Exception as e:  # noqa
                            bad.append('formula raised %s' % type(e).__name__)
                        if bad:
                            found.append({'measure': m, 't': t, 'a': a, 'b': b, 'o': o, 'failed': bad})
                            if len(found) >= limit:
                                return found
    return found


def sweep_int(limit=10):
    """OVERLAP (integer threshold T) and EDIT_DISTANCE (q, tau) formula conditions."""
    from py_stringsimjoin.filter.filter_utils import (get_size_lower_bound as lb, get_size_upper_bound as ub,
                                                      get_prefix_length as pl, get_overlap_threshold as ot)

    class Tok:
        def __init__(self, q):
            self.qval = q
    found = []
    for T_ in range(1, 6):
        for a in range(1, 12):
            for b in range(1, 12):
                for o in range(T_, min(a, b) + 1):
                    bad = []
                    if not (lb(b, 'OVERLAP', T_) <= a <= ub(b, 'OVERLAP', T_)):
                        bad.append('size window')
                    if ot(a, b, 'OVERLAP', T_, None) > o:
                        bad.append('overlap threshold')
                    if a - pl(a, 'OVERLAP', T_, None) + 1 > o or b - pl(b, 'OVERLAP', T_, None) + 1 > o:
                        bad.append('prefix length')
                    if bad:
                        found.append({'measure': 'OVERLAP', 't': T_, 'a': a, 'b': b, 'o': o, 'failed': bad})
                        if len(found) >= limit:
                            return found
    for q in (1, 2, 3):
        for tau in range(0, 4):
            for n in range(0, 14):
                p = pl(n, 'EDIT_DISTANCE', tau, Tok(q))
                if p != min(q * tau + 1, n):
                    found.append({'measure': 'EDIT_DISTANCE', 't': tau, 'q': q, 'a': n, 'b': n, 'o': 0,
                                  'failed': ['prefix length %r != min(q*tau+1, n)' % (p,)]})
                if lb(n, 'EDIT_DISTANCE', tau) > n - tau or ub(n, 'EDIT_DISTANCE', tau) < n + tau:
                    found.append({'measure': 'EDIT_DISTANCE', 't': tau, 'q': q, 'a': n, 'b': n, 'o': 0,
                                  'failed': ['size window narrower than [n - tau, n + tau]']})
                if len(found) >= limit:
                    return found
    return found


def synthesize(c, fillers=3):
    """Tables in which x (a tokens) and y (b tokens) share o tokens that are ranked LAST."""
    a, b, o = c['a'], c['b'], c['o']
    common = ['z%02d' % i for i in range(o)]
    xs = ['x%02d' % i for i in range(a - o)]
    ys = ['y%02d' % i for i in range(b - o)]
    lrows = [' '.join(xs + common)]
    rrows = [' '.join(ys + common)]
    for _ in range(fillers):
        lrows.append(' '.join(common + ['f0']))
    L = pd.DataFrame({'id': range(1, len(lrows) + 1), 's': pd.Series(lrows, dtype=object)})
    R = pd.DataFrame({'id': range(1, len(rrows) + 1), 's': pd.Series(rrows, dtype=object)})
    return L, R


def confirm_join(c):
    """Runs the real join on the synthesized tables; returns a violation payload if complete_spec
    (evaluated inside Coq) fails, else None."""
    import py_stringmatching as sm
    m = c['measure']
    if m not in JCD + ('OVERLAP',):
        return None
    for fillers, swap in ((3, False), (0, False), (3, True), (0, True)):
        L, R = synthesize(c, fillers)
        if swap:                      # the size window is taken from the PROBE (right) side
            L, R = R, L
        call = dict(measure=m, kind='ws', tok=sm.WhitespaceTokenizer(return_set=True), L=L, R=R,
                    names=('id', 's', 'id', 's'), t=c['t'], tcls='search', op='>=', allow_empty=True,
                    allow_missing=False, with_score=True, njobs=1, l_out=None, r_out=None)
        df = J.run_call(call)
        if isinstance(df, Exception):
            return {'what': 'valid join call raised %s' % type(df).__name__, 'class': {'kind': 'exception', 'entry': m},
                    'call': J.describe(call, df), 'formula_case': c}
        defs, exprs = J.abstract(call, df, 0)
        bad = C.run_groups('search_join', ['TokenOrdering', 'Filters', 'Joins', 'Api', 'JoinSpec', 'MetaSpec'],
                           [(defs, exprs)])
        names = [J.SPECS[ei] for (_, ei) in bad]
        if 'complete_spec' in names:
            return {'what': 'complete_spec fails: a qualifying pair is missing from the join output',
                    'class': {'kind': 'complete_spec', 'entry': m}, 'call': J.describe(call, df), 'formula_case': c}
    return None


def confirm_filter(c, which=('prefix', 'position', 'size')):
    """Runs the real filter_pair of the given filters on the two synthesized strings."""
    import py_stringmatching as sm
    import py_stringsimjoin as ssj
    import corr_filters as F
    m = c['measure']
    if m not in JCD + ('OVERLAP',):
        return None
    L, R = synthesize(c, 0)
    l, r = L['s'][0], R['s'][0]
    tok = sm.WhitespaceTokenizer(return_set=True)
    for w in which:
        cls = {'size': ssj.SizeFilter, 'prefix': ssj.PrefixFilter, 'position': ssj.PositionFilter}[w]
        flt = cls(tok, m, c['t'], True, False)
        dropped = bool(flt.filter_pair(l, r))
        fd = dict(which=w, measure=m, t=c['t'], op='>=', tok=tok, kind='ws', allow_empty=True, allow_missing=False, q=0)
        defs, exprs = F.fp_case(fd, l, r, 0, dropped)
        bad = C.run_groups('search_fp', ['TokenOrdering', 'Filters', 'Suffix', 'Joins', 'Api', 'JoinSpec', 'FilterSpec'],
                           [(defs, exprs)])
        names = [F.FP_SPECS[ei] for (_, ei) in bad]
        if 'fp_safe_spec' in names:
            return {'what': '%s.filter_pair drops a pair meeting the threshold' % cls.__name__,
                    'class': {'kind': 'fp_safe_spec', 'entry': w},
                    'call': {'filter': w, 'measure': m, 't': repr(c['t']), 't_hex': c['t'].hex() if isinstance(c['t'], float) else c['t'],
                             'l': l, 'r': r, 'dropped': dropped}, 'formula_case': c}
    return None


def sweep_tight(max_size=30, limit=5):
    """C14: a count pair INSIDE the size window whose best attainable similarity is more than
    1e-4 (+1e-9) below the threshold."""
    from py_stringsimjoin.filter.filter_utils import get_size_lower_bound as lb, get_size_upper_bound as ub
    found = []
    grid = sorted(set([k / 100 for k in range(1, 101)] + [k / 7 for k in range(1, 8)] + [1 / 3, 2 / 3]))
    for m in JCD:
        for t in grid:
            for a in range(1, max_size + 1):
                for b in range(1, max_size + 1):
                    lo, hi = min(a, b), max(a, b)
                    best = lo / hi if m == 'JACCARD' else (math.sqrt(lo / hi) if m == 'COSINE' else 2 * lo / (a + b))
                    if lb(a, m, t) <= b <= ub(a, m, t) and best < t - 1e-4 - 1e-9:
                        found.append({'measure': m, 't': t, 'a': a, 'b': b, 'best': best})
                        if len(found) >= limit:
                            return found
    return found


def search(kind='join', max_size=30):
    """Returns a list of confirmed violation payloads (possibly empty)."""
    out = []
    cands = sweep(max_size, limit=12) + sweep_int(limit=6)
    for c in cands:
        v = confirm_join(c) if kind == 'join' else confirm_filter(c)
        if v is not None:
            out.append(v)
            if len(out) >= 2:
                break
    return out


if __name__ == '__main__':
    import json
    print(json.dumps(sweep(int(sys.argv[1]) if len(sys.argv) > 1 else 30, 5), indent=1))
    print(json.dumps(sweep_int(5), indent=1))
    print(json.dumps(sweep_tight(20, 3), indent=1))
