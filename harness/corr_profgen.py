"""Function-level correspondence for the PROFILER

    profiler/profiler.py : profile_table_for_join  ->  Gen/ProfilerGen.v : profile_table_for_join_rows

The REAL function is run on generated DataFrames and the returned frame -- index name, index entries,
column labels, every row in order -- or the class of the raised exception is compared inside Coq
(Model/ProfFrame.v: iframe_same, structural) with the GENERATED definition evaluated on the frame literal
of the input (cells = what Series.tolist() hands out, as in corr_wrappergen).

small stream: 0..40 rows, 1..4 columns of int64 / float64 / bool / object / `str` dtype; missing cells None
  or NaN, also BOTH in one object column (about every fifth column with >= 2 rows: Series.unique() would
  keep the two spellings apart, the source counts len(S.dropna().unique()) and adds one for the missing
  value), duplicates, values that are equal across types (1, 1.0, True), 0.0 / -0.0; profile_attrs None /
  subset / repeats / empty / with an unknown (string) attribute; tables without rows.
large stream: 19990..40010 rows, one int-valued column, exactly one duplicate / one missing value (None or
  NaN) / both / neither / a constant column with one missing value -- where the two-decimal percentages
  saturate.  The column is NOT passed as a literal: cell k is (A*k + B) mod P (a bijection on 0..n-1 for
  the prime P > n), built inside Coq by `map` over `seq 0 n`; ProfFrame.nunique counts PInt cells through
  an AVL set, so the whole generated function is evaluated on the whole table.

str_float (the parameter standing for CPython's str(float)) is a finite table: every double d that occurs
in the observed output (parsed back, with repr(d) == the observed text checked) and round(c/n*100, 2) for
small c; "?" elsewhere.  If the generated function hands another double to str_float the comparison fails.

differ    : generated function vs the real one.
spec_fail : (small stream, every table -- columns holding both None and NaN included, they are in the
            domain of the refinement theorem) the theorem's right-hand side ProfilerRefine.explicit_result,
            with value ids assigned by the harness by Python equality (every missing cell: None), vs the
            real function.
NOT generated (the generated function makes no claim): non-DataFrame inputs (validate_input_table is
dropped), non-string unknown attributes (ValidationGen's validate_attr does not evaluate the message of the
AssertionError, CPython raises TypeError while building it), repeated column labels.
"""
import math
import os
import random
import sys
import traceback

import numpy as np
import pandas as pd

sys.path.insert(0, os.path.dirname(os.path.abspath(__file__)))
import common as C  # noqa: E402

if os.environ.get('VERIF_COQ'):       # evaluate against another compiled tree (development only)
    C.QFLAGS[:] = sum((['-Q', os.path.join(os.environ['VERIF_COQ'], d), 'SSJ'] for d in
                       ['Num', 'Base', 'Gen', 'Ext', 'Model', 'Spec', 'Proofs', 'Properties']), [])
if os.environ.get('VERIF_WORK'):
    C.WORK = os.environ['VERIF_WORK']

IMPORTS = ['Frame', 'ProfFrame', 'ValidationGen', 'ProfilerGen', 'Profiler', 'ProfilerRefine']
COLNAMES = ['id', 'name', 'zip', 'flag', 'price', 'x1', 'A.attr']
PRIME = 400009


def is_null(v):
    return v is None or v is pd.NA or (isinstance(v, (float, np.floating)) and math.isnan(v))


# ----------------------------------------------------------------------------- small tables
def gen_column(rng, nrows):
    kind = rng.choice(['int', 'float', 'str', 'bool', 'mixed'])
    mode = rng.choice(['unique', 'dups', 'dups', 'few'])
    if kind == 'int':
        pool = rng.sample(range(-50, 1000), max(nrows, 3))
    elif kind == 'float':
        pool = [rng.choice([0.5, 0.25, 1.0]) * k for k in rng.sample(range(-20, 400), max(nrows, 3))]
        if rng.random() < 0.3:
            pool[:2] = [0.0, -0.0]
    elif kind == 'str':
        pool = ['s%d' % k for k in rng.sample(range(500), max(nrows, 3))]
    elif kind == 'mixed':
        pool = [1, 1.0, True, 0, False, 0.0, 2, 2.5, 'a', '1', 3, 7.0][:]
        rng.shuffle(pool)
        pool = pool + list(range(10, 10 + max(nrows, 3)))
    else:
        pool = [True, False]
        mode = 'few'
    if mode == 'unique':
        vals = pool[:nrows]
    elif mode == 'dups':
        vals = pool[:nrows]
        for _ in range(rng.randint(1, max(1, nrows // 3))):
            if nrows >= 2:
                a, b = rng.sample(range(nrows), 2)
                vals[a] = vals[b]
    else:
        small = pool[:rng.randint(1, min(3, len(pool)))]
        vals = [rng.choice(small) for _ in range(nrows)]
    vals = list(vals) + [pool[0]] * (nrows - len(vals))
    miss = rng.choice(['none', 'none', 'some', 'one', 'all', 'both', 'both'])
    nullv = rng.choice([None, float('nan')])
    if miss == 'some':
        for k in range(nrows):
            if rng.random() < 0.3:
                vals[k] = nullv
    elif miss == 'one':
        vals[rng.randrange(nrows)] = nullv
    elif miss == 'all':
        if rng.random() < 0.3:
            vals = [nullv] * nrows
    elif miss == 'both' and nrows >= 2:
        a, b = rng.sample(range(nrows), 2)
        vals[a], vals[b] = None, float('nan')
        for k in range(nrows):
            if rng.random() < 0.15:
                vals[k] = rng.choice([None, float('nan')])
    has_null = any(is_null(v) for v in vals)
    if kind == 'str':
        dt = rng.choice(['object', 'str'])
        ser = pd.Series(vals, dtype=object) if dt == 'object' else pd.Series(vals, dtype='str')
    elif kind == 'float':
        ser = pd.Series([float('nan') if is_null(v) else v for v in vals], dtype=float)
    elif kind == 'mixed':
        ser = pd.Series(vals, dtype=object)
    elif has_null:
        if kind == 'int' and rng.random() < 0.4:
            ser = pd.Series([float('nan') if is_null(v) else float(v) for v in vals], dtype=float)
        else:
            ser = pd.Series(vals, dtype=object)
    else:
        ser = pd.Series(vals, dtype=object) if rng.random() < 0.2 else pd.Series(vals)
    cells = ser.tolist()
    n_none = sum(1 for v in cells if v is None)
    n_nan = sum(1 for v in cells if isinstance(v, float) and math.isnan(v))
    return ser, {'kind': kind, 'mode': mode, 'dtype': str(ser.dtype),
                 'missing': 'None+NaN' if (n_none and n_nan) else ('None' if n_none else ('NaN' if n_nan else 'none'))}


def frame_lit(df):
    cols = list(df.columns)
    data = [df.iloc[:, j].tolist() for j in range(len(cols))]
    rows = [[data[j][i] for j in range(len(cols))] for i in range(len(df))]
    return '(PTuple [%s; %s])' % (C.pyval_lit(rows), C.pyval_lit(cols))


def col_ids(cells):
    """value ids by Python equality (None = missing)"""
    ids, out = {}, []
    for v in cells:
        if is_null(v):
            out.append(None)
        else:
            if v not in ids:
                ids[v] = len(ids) + 1
            out.append(ids[v])
    return out


def ids_fun(df):
    out = '(fun _ : string => ([] : column))'
    body = ''
    for nm in df.columns:
        ids = col_ids(df[nm].tolist())
        body += 'if String.eqb a_ %s then [%s] else ' % (
            C.coq_str(nm), '; '.join('None' if v is None else 'Some %s' % C.z(v) for v in ids))
    return '(fun a_ : string => %s([] : column))' % body


def observed_lit(out):
    """Coq literal of the returned frame, the doubles that occur in it (text -> float), or None if the output
    is not an (indexed) frame of cells with literals"""
    if not isinstance(out, pd.DataFrame):
        return None, {}
    try:
        idx = out.index.tolist()
        cols = list(out.columns)
        rows = [list(r) for r in out.itertuples(index=False)]
        lit = '(PTuple [%s; %s; PTuple [%s; %s]])' % (C.pyval_lit(out.index.name), C.pyval_lit(idx),
                                                     C.pyval_lit(rows), C.pyval_lit(cols))
    except ValueError:
        return None, {}
    import re
    floats = {}
    for r in rows:
        for cell in r:
            if isinstance(cell, str):
                for m in re.finditer(r'\((-?[0-9.eE+\-infa]+)%\)', cell):
                    try:
                        d = float(m.group(1))
                    except ValueError:
                        continue
                    if repr(d) == m.group(1):
                        floats[m.group(1)] = d
    return lit, floats


def sf_def(name, floats, nrows):
    """the finite restriction of str(float) used for this case"""
    tab = dict(floats)
    if nrows > 0:
        for c in range(0, min(nrows, 60) + 1):
            d = round((float(c) / float(nrows)) * 100, 2)
            tab[repr(d)] = d
    items = '; '.join('(%s, %s)' % (C.float_lit(d), C.coq_str(t)) for t, d in sorted(tab.items()))
    return ('Definition %s (f : f64) : string := match find (fun p_ : f64 * string => f_bits_same (fst p_) f) [%s] '
            'with Some p_ => snd p_ | None => "?" end.' % (name, items))


def attrs_lit(attrs):
    return 'PNone' if attrs is None else C.pyval_lit(list(attrs))


def run_small(seed, n):
    from py_stringsimjoin.profiler.profiler import profile_table_for_join
    rng = random.Random(seed + 1717)
    res = {'evaluations': 0, 'nontrivial': 0, 'distribution': {}, 'differ': [], 'spec_fail': [],
           'exceptions': [], 'samples': []}
    groups, meta = [], []

    def bump(k):
        res['distribution'][k] = res['distribution'].get(k, 0) + 1
    for i in range(n):
        nrows = rng.choice([1, 1, 2, 2, 3, 4, 5, 7, 10, 20, 40, rng.randint(1, 40)])
        if rng.random() < 0.05:
            nrows = 0
        ncols = rng.randint(1, 4)
        names = rng.sample(COLNAMES, ncols)
        cols, descs = {}, {}
        for nm in names:
            if nrows == 0:
                cols[nm] = pd.Series([], dtype=rng.choice([object, float, int, 'str']))
                descs[nm] = {'kind': 'empty', 'mode': 'empty', 'missing': 'none', 'dtype': str(cols[nm].dtype)}
            else:
                cols[nm], descs[nm] = gen_column(rng, nrows)
        df = pd.DataFrame(cols, columns=names)
        if rng.random() < 0.2 and nrows:
            df.index = rng.sample(range(100), nrows)       # the row index plays no role
        r = rng.random()
        if r < 0.35:
            attrs, amode = None, 'None'
        elif r < 0.65:
            attrs, amode = rng.sample(names, rng.randint(1, ncols)), 'subset'
        elif r < 0.80:
            attrs, amode = [rng.choice(names) for _ in range(rng.randint(1, ncols + 2))], 'repeats'
        elif r < 0.88:
            attrs, amode = [], 'empty'
        else:
            attrs = rng.sample(names, rng.randint(0, ncols)) + ['nosuch']
            rng.shuffle(attrs)
            amode = 'unknown_attr'
        before = df.copy()
        try:
            out = profile_table_for_join(df, None if attrs is None else list(attrs))
            exc = None
        except Exception as e:  # noqa
            out, exc = None, e
        info = {'function': 'profile_table_for_join_rows', 'stream': 'small', 'nrows': nrows, 'attrs': attrs,
                'table': df.astype(object).where(df.notnull(), None).to_dict(orient='list'),
                'cells': {nm: [repr(v) for v in df[nm].tolist()] for nm in names}, 'columns': descs}
        floats = {}
        if exc is not None:
            expected = '(PExc %s)' % C.coq_str(type(exc).__name__)
            info['observed'] = 'raised %s: %s' % (type(exc).__name__, exc)
            outcome = type(exc).__name__
            anticipated = (amode == 'unknown_attr' and outcome == 'AssertionError') or \
                (nrows == 0 and attrs != [] and amode != 'unknown_attr' and outcome == 'ZeroDivisionError')
            if not anticipated:
                res['exceptions'].append({'case': i, 'call': info, 'tb': traceback.format_exc()[-800:]})
        else:
            expected, floats = observed_lit(out)
            info['observed'] = out.to_dict(orient='split') if isinstance(out, pd.DataFrame) else repr(out)
            outcome = 'frame'
            if expected is None:
                res['differ'].append({'case': i, 'which': 'output is not a frame of plain cells', 'call': info})
                continue
            if not df.equals(before):
                res['differ'].append({'case': i, 'which': 'the input table was modified', 'call': info})
        nm_ = 'p%d_' % i
        defs = [sf_def(nm_ + 'sf', floats, nrows),
                'Definition %sT := %s.' % (nm_, frame_lit(df)),
                'Definition %sexp := %s.' % (nm_, expected)]
        exprs = ['iframe_same (profile_table_for_join_rows %ssf %sT %s) %sexp' % (nm_, nm_, attrs_lit(attrs), nm_)]
        labels = ['profile_table_for_join_rows']
        # every generated table (None and NaN in one column included) is in the domain of the refinement theorem
        opt = 'None' if attrs is None else '(Some [%s])' % '; '.join(C.coq_str(a) for a in attrs)
        defs.append('Definition %sids := %s.' % (nm_, ids_fun(df)))
        exprs.append('iframe_same (explicit_result %ssf [%s] %s %sids %s) %sexp' % (
            nm_, '; '.join(C.coq_str(c) for c in names), C.z(nrows), nm_, opt, nm_))
        labels.append('ProfilerRefine.explicit_result (the theorem\'s right-hand side, harness-assigned value ids)')
        for k in ('attrs=' + amode, 'outcome=' + outcome, 'rows=' + ('0' if nrows == 0 else ('1' if nrows == 1 else
                                                                        ('2-10' if nrows <= 10 else '11-40')))):
            bump(k)
        for nm in names:
            bump('column=%s/%s/missing:%s' % (descs[nm]['kind'], descs[nm]['dtype'], descs[nm]['missing']))
        nontriv = outcome == 'frame' and len(out) > 0
        res['evaluations'] += len(exprs)
        res['nontrivial'] += 1 if nontriv else 0
        groups.append(('\n'.join(defs), exprs))
        meta.append((i, labels, info))
        if nontriv and len(res['samples']) < 1:
            res['samples'].append(info)
    bad = C.run_groups('profgen_s_%d' % seed, IMPORTS, groups, shard=40)
    for gi, ei in sorted(bad):
        k, labels, info = meta[gi]
        rec = {'case': k, 'which': 'generated %s vs the real function' % labels[ei], 'call': info}
        (res['differ'] if ei == 0 else res['spec_fail']).append(rec)
    return res


# ----------------------------------------------------------------------------- large tables
LARGE_DEFS = '''Definition lcell_ (A B P dup_to dup_from miss : Z) (missv : pyval) (k' : Z) : pyval :=
  if k' =? miss then missv else PInt ((A * (if k' =? dup_to then dup_from else k') + B) mod P).
Fixpoint zseq_ (n : nat) (k : Z) : list Z := match n with O => [] | S n' => k :: zseq_ n' (k + 1) end.
Definition ltable_ (n : nat) (A B P dup_to dup_from miss : Z) (missv : pyval) : pyval :=
  PTuple [PList (map (fun k => PList [lcell_ A B P dup_to dup_from miss missv k]) (zseq_ n 0)); PList [PStr "k"]].'''


def run_large(seed, n):
    from py_stringsimjoin.profiler.profiler import profile_table_for_join
    rng = random.Random(seed + 1919)
    res = {'evaluations': 0, 'nontrivial': 0, 'distribution': {}, 'differ': [], 'spec_fail': [],
           'exceptions': [], 'samples': []}
    groups, meta = [], []
    for i in range(n):
        nrows = rng.choice([20000, 20001, 20001, 20002, 19990, 40010, rng.randint(19990, 40010)])
        variant = rng.choice(['dup', 'missing', 'none', 'dup+missing', 'const+missing'])
        A = 0 if variant == 'const+missing' else rng.randrange(1, PRIME)
        B = rng.randrange(0, PRIME)
        pos = rng.sample(range(nrows), 3)
        dup_to, dup_from, miss = -1, -1, -1
        if 'dup' in variant:
            dup_to, dup_from = pos[0], pos[1]
        nullv = rng.choice([None, float('nan')])
        if 'missing' in variant:
            miss = pos[2]
        vals = []
        for k in range(nrows):
            if k == miss:
                vals.append(nullv)
            else:
                vals.append((A * (dup_from if k == dup_to else k) + B) % PRIME)
        ser = pd.Series(vals, dtype=object) if (miss >= 0 or rng.random() < 0.3) else pd.Series(vals)
        df = pd.DataFrame({'k': ser})
        info = {'function': 'profile_table_for_join_rows', 'stream': 'large', 'nrows': nrows, 'variant': variant,
                'dtype': str(ser.dtype), 'missing_value': repr(nullv) if miss >= 0 else None,
                'cells': '(A*k + B) mod P with A=%d B=%d P=%d; cell %d := cell %d; cell %d missing'
                         % (A, B, PRIME, dup_to, dup_from, miss)}
        key = 'large/%s/%s' % (variant, '<=20000' if nrows <= 20000 else ('20001-30000' if nrows <= 30000 else '>30000'))
        res['distribution'][key] = res['distribution'].get(key, 0) + 1
        try:
            out = profile_table_for_join(df)
        except Exception as e:  # noqa
            info['observed'] = 'raised %s: %s' % (type(e).__name__, e)
            res['exceptions'].append({'case': i, 'call': info, 'tb': traceback.format_exc()[-800:]})
            res['differ'].append({'case': i, 'which': 'the real function raised', 'call': info})
            continue
        expected, floats = observed_lit(out)
        info['observed'] = out.to_dict(orient='split')
        if expected is None:
            res['differ'].append({'case': i, 'which': 'output is not a frame of plain cells', 'call': info})
            continue
        nm_ = 'q%d_' % i
        defs = [sf_def(nm_ + 'sf', floats, 0),
                'Definition %sT := ltable_ (Z.to_nat %d) %s %s %s %s %s %s %s.' % (
                    nm_, nrows, C.z(A), C.z(B), C.z(PRIME), C.z(dup_to), C.z(dup_from), C.z(miss),
                    C.pyval_lit(nullv)),
                'Definition %sexp := %s.' % (nm_, expected)]
        exprs = ['iframe_same (profile_table_for_join_rows %ssf %sT PNone) %sexp' % (nm_, nm_, nm_)]
        res['evaluations'] += 1
        res['nontrivial'] += 1 if variant != 'none' else 0
        groups.append(('\n'.join(defs), exprs))
        meta.append((i, info))
        if variant != 'none' and len(res['samples']) < 1:
            res['samples'].append(info)
    groups = [(LARGE_DEFS + '\n' + groups[0][0], groups[0][1])] + groups[1:] if groups else groups
    # LARGE_DEFS must be in every shard: one shard only
    bad = C.run_groups('profgen_l_%d' % seed, IMPORTS, groups, shard=max(1, len(groups)))
    for gi, ei in sorted(bad):
        k, info = meta[gi]
        res['differ'].append({'case': k, 'which': 'generated profile_table_for_join_rows vs the real function '
                                                  '(large table)', 'call': info})
    return res


def run(seed, n):
    """n small random tables + max(12, n // 5) large tables."""
    a = run_small(seed, n)
    b = run_large(seed, max(12, n // 5))
    off = n
    for d in b['differ'] + b['spec_fail'] + b['exceptions']:
        d['case'] += off
    dist = dict(a['distribution'])
    dist.update(b['distribution'])
    return {'evaluations': a['evaluations'] + b['evaluations'], 'nontrivial': a['nontrivial'] + b['nontrivial'],
            'distribution': dist, 'differ': a['differ'] + b['differ'], 'spec_fail': a['spec_fail'] + b['spec_fail'],
            'exceptions': a['exceptions'] + b['exceptions'], 'samples': a['samples'][:1] + b['samples'][:1]}


if __name__ == '__main__':
    import json
    import time
    t0 = time.time()
    r = run(int(sys.argv[1]) if len(sys.argv) > 1 else 1, int(sys.argv[2]) if len(sys.argv) > 2 else 100)
    print('EVAL', r['evaluations'], 'NONTRIVIAL', r['nontrivial'], 'DIFFER', len(r['differ']), 'SPEC_FAIL',
          len(r['spec_fail']), 'EXC', len(r['exceptions']), 'WALL %.1fs' % (time.time() - t0))
    print(json.dumps(r['distribution'], sort_keys=True))
    for d in (r['differ'] + r['spec_fail'] + r['exceptions'])[:4]:
        print(json.dumps(d, default=str)[:3000])
