"""Function-level correspondence for the candidate-set functions

    matcher/apply_matcher.py : apply_matcher          -> Gen/MatcherGen.v : apply_matcher_rows
    filter/filter.py : Filter.filter_candset          -> Gen/MatcherGen.v : filter_candset_rows
        (SizeFilter / PrefixFilter / PositionFilter / OverlapFilter / SuffixFilter objects)

The REAL function is run (joblib threading backend, show_progress=False) on random inputs:
  tables   shuffled and extra columns, missing match / filter values (None and NaN) on both sides,
           unique / shuffled / repeated index labels, int and str keys;
  candset  with `_id` first, with `_id` elsewhere, without `_id` (the first column is then what the
           output calls `_id`), extra columns, repeated pairs, unique / shuffled / REPEATED index labels,
           empty, small and large (the token-cache path of apply_matcher), rarely a key that is in
           neither table (KeyError);
  call     tokenizer None / a tokenizer, several sim functions (int, float and order-sensitive ones),
           six comparison operators, allow_missing on / off, output attribute lists None / [] / lists with
           repeats and the key, prefixes, out_sim_score, n_jobs in {1, 2, 3, 4, 0, -1, 7}; plus arguments
           that the KEPT validators reject (unknown attributes, unknown operator).
Inputs that the DROPPED validators reject (non-DataFrame, numeric filter column, non-unique / missing
keys, an object that is not a Tokenizer) are never generated: the generated functions make no claim there.

The returned DataFrame -- column labels, every row IN ORDER with every cell -- is compared inside Coq
(Model/Frame.v: frame_same, see corr_wrappergen.py for the canonicalisation of float columns) with the
generated definition evaluated on the frame literals of the three inputs.  The row index is not modelled.

Function parameters of the generated definitions:
  tokenizer_tokenize   association list cell -> list of token strings (the real tokenizer's answers);
  tokenizer            PNone or the marker PStr "tokenizer" (only `is not None` is asked of it);
  sim_function         lookup table of the REAL sim function's values on every (tokenised) value pair of
                       the two tables;
  filter_pair          lookup table of the REAL filter object's filter_pair on every value pair of the two
                       tables (missing cells, None or NaN, are looked up as None);
  cpu_count_           multiprocessing.cpu_count().
"""
import math
import os
import random
import sys

sys.path.insert(0, os.path.dirname(os.path.abspath(__file__)))
import common as C  # noqa: E402
import tables as T  # noqa: E402
import corr_filters  # noqa: E402

if os.environ.get('VERIF_COQ'):       # evaluate against another compiled tree (development only)
    C.QFLAGS[:] = sum((['-Q', os.path.join(os.environ['VERIF_COQ'], d), 'SSJ'] for d in
                       ['Num', 'Base', 'Gen', 'Ext', 'Model', 'Spec', 'Proofs', 'Properties']), [])

IMPORTS = ['HelperGen', 'ValidationGen', 'JoinGen', 'Frame', 'WrapperGen', 'FilterPairGen', 'MatcherGen']

TOKFUN = '(fun s_ : pyval => match dict_lookup %s s_ with Some v_ => v_ | None => PExc "KeyError" end)'
SIMTAB = ('(fun a_ b_ : pyval => match dict_lookup %s (PTuple [a_; b_]) with Some v_ => v_ '
          '| None => PExc "KeyError" end)')
FPTAB = ('(fun a_ b_ : pyval => match dict_lookup %s (PTuple [if cell_missing a_ then PNone else a_; '
         'if cell_missing b_ then PNone else b_]) with Some v_ => v_ | None => PExc "KeyError" end)')

ASCII_WORDS = [w for w in T.WORDS if all(32 <= ord(ch) < 127 for ch in w)]
FILTERS = ['size', 'prefix', 'position', 'overlap', 'suffix']


# ----------------------------------------------------------------------------- sim functions
class Scorer:
    """a similarity `object` whose bound method is handed to apply_matcher"""

    def __init__(self, bias):
        self.bias = bias

    def score(self, a, b):
        return len(set(a) & set(b)) + self.bias


def order_sensitive(a, b):
    return len(a) - 2 * len(b)


def common_count(a, b):
    return len(set(a) & set(b))


def make_sim(rng, tokenised):
    import py_stringmatching as sm
    if tokenised:
        k = rng.choice(['jaccard', 'cosine', 'overlapcoef', 'count', 'bound', 'ordersens'])
        if k == 'jaccard':
            return k, sm.Jaccard().get_raw_score
        if k == 'cosine':
            return k, sm.Cosine().get_raw_score
        if k == 'overlapcoef':
            return k, sm.OverlapCoefficient().get_raw_score
        if k == 'count':
            return k, common_count
        if k == 'bound':
            return k, Scorer(rng.choice([0, 1, 0.5])).score
        return k, order_sensitive
    k = rng.choice(['lev', 'jaro', 'ordersens', 'count'])
    if k == 'lev':
        return k, sm.Levenshtein().get_raw_score
    if k == 'jaro':
        return k, sm.Jaro().get_raw_score
    if k == 'count':
        return k, common_count
    return k, order_sensitive


# ----------------------------------------------------------------------------- inputs
def gen_out(rng, cols, key):
    others = [c for c in cols if c != key]
    r = rng.random()
    if r < 0.35 or not others:
        return None
    if r < 0.45:
        return []
    out = rng.sample(others, rng.randint(1, len(others)))
    if rng.random() < 0.12:
        out = out + [out[0]]
    if rng.random() < 0.1:
        out = out + [key]
    if rng.random() < 0.05:
        out = [key]
    return out


def gen_tables(rng, kind):
    usize = rng.choice([3, 5, 8]) if not kind.startswith('qgram') else rng.choice([2, 3])
    universe = ASCII_WORDS[:usize]
    weights = [rng.choice([1, 1, 2, 4]) for _ in universe]
    nl = rng.choice([1, 2, 3, 4, 5, 6])
    nr = rng.choice([1, 2, 3, 4, 5])
    lkey, lattr = rng.choice([('id', 's'), ('lid', 'lstr'), ('A.id', 'A.attr')])
    rkey, rattr = rng.choice([('id', 's'), ('rid', 'rstr'), ('B.id', 'B.attr')])
    mp = rng.choice([0.0, 0.0, 0.2, 0.35])
    L = T.gen_table(rng, kind, universe, weights, nl, lkey, lattr, mp)
    R = T.gen_table(rng, kind, universe, weights, nr, rkey, rattr, mp)
    return L, R, (lkey, lattr, rkey, rattr)


def gen_candset(rng, L, R, names, size):
    import pandas as pd
    lkey, _, rkey, _ = names
    pairs = [(a, b) for a in L[lkey].tolist() for b in R[rkey].tolist()]
    rng.shuffle(pairs)
    if size == 'empty':
        n = 0
    elif size == 'big':
        n = len(pairs)
    else:
        n = rng.randint(1, max(1, min(len(pairs), (len(L) + len(R)) // 2 + 1)))
    pairs = pairs[:n]
    if n and rng.random() < 0.25:
        pairs.append(pairs[rng.randrange(n)])            # the same pair twice
        n += 1
    keyerr = False
    if n and rng.random() < 0.04:
        a, b = pairs[rng.randrange(n)]
        pairs[rng.randrange(n)] = (a, 987654 if not isinstance(b, str) else 'nokey')
        keyerr = True
    ids = rng.sample(range(1000), n) if rng.random() < 0.5 else list(range(n))
    cl, cr = rng.choice([('l_' + lkey, 'r_' + rkey), ('ltable_k', 'rtable_k')])
    cols = {'_id': ids, cl: [p[0] for p in pairs], cr: [p[1] for p in pairs]}
    r = rng.random()
    if r < 0.6:
        order, shape = ['_id', cl, cr], '_id first'
    elif r < 0.8:
        order, shape = [cl, cr], 'no _id'
    else:
        order, shape = [cl, '_id', cr], '_id second'
    if rng.random() < 0.4:
        cols['extra'] = [rng.choice([0.5, 1.25, -3.0, float('nan')]) for _ in range(n)]
        order.insert(rng.randrange(1, len(order) + 1), 'extra')
    if rng.random() < 0.25:
        cols['note'] = pd.Series([rng.choice(['u', 'v', None]) for _ in range(n)], dtype=object)
        order.append('note')
    cand = pd.DataFrame({c: cols[c] for c in order}, columns=order)
    for c, j in ((cl, 0), (cr, 1)):
        if n and any(isinstance(p[j], str) for p in pairs):
            cand[c] = cand[c].astype(object)
    r = rng.random()
    if n and r < 0.4:
        cand.index = rng.sample(range(5000), n)
        idx = 'shuffled index'
    elif n and r < 0.7:
        # repeated labels, as in a candidate set produced by filter_tables with n_jobs > 1
        cand.index = [rng.randint(0, max(1, n // 2)) for _ in range(n)]
        idx = 'repeated index labels'
    else:
        idx = 'range index'
    return cand, cl, cr, shape, idx, keyerr


def frame_lit(df):
    cols = list(df.columns)
    data = [df.iloc[:, j].tolist() for j in range(len(cols))]     # positional: labels may repeat
    rows = [[data[j][i] for j in range(len(cols))] for i in range(len(df))]
    return '(PTuple [%s; %s])' % (C.pyval_lit(rows), C.pyval_lit(cols))


def present(df, col):
    if col not in df.columns:
        return []
    out = []
    for v in df[col].tolist():
        if not T.is_missing(v) and v not in out:
            out.append(v)
    return out


def observe(thunk):
    try:
        df = thunk()
        cols = list(df.columns)
        flags = [df.iloc[:, j].dtype.kind == 'f' for j in range(len(cols))]
        obs = {'columns': cols, 'rows': [list(r) for r in df.itertuples(index=False)],
               'dtypes': [str(d) for d in df.dtypes], 'index': df.index.tolist()}
        return frame_lit(df), flags, obs, len(df)
    except Exception as e:  # noqa
        return '(PExc %s)' % C.coq_str(type(e).__name__), [], 'raised %s: %s' % (type(e).__name__, e), -1


# ----------------------------------------------------------------------------- apply_matcher
def matcher_case(gi, rng):
    import joblib
    from py_stringsimjoin.matcher.apply_matcher import apply_matcher
    kind, tok = T.make_tokenizer(rng, rng.choice(['ws', 'ws', 'delim', 'qgram2', 'alnum']))
    use_tok = rng.random() < 0.7
    simname, simf = make_sim(rng, use_tok)
    L, R, names = gen_tables(rng, kind)
    lkey, lattr, rkey, rattr = names
    size = rng.choice(['empty', 'small', 'small', 'big', 'big'])
    if rng.random() < 0.93:
        size = 'small' if size == 'empty' else size
    cand, cl, cr, shape, idx, keyerr = gen_candset(rng, L, R, names, size)
    op = rng.choice(['>=', '>=', '>', '<=', '<', '=', '!='])
    t = rng.choice([0, 1, 2, 0.5, 0.25, 1.0, 0.3333, round(rng.random(), 3)])
    am = rng.random() < 0.5
    ws = rng.random() < 0.7
    nj = rng.choice([1, 1, 2, 2, 3, 4, 4, 0, -1, 7])
    lout, rout = gen_out(rng, list(L.columns), lkey), gen_out(rng, list(R.columns), rkey)
    lpre, rpre = rng.choice(['l_', 'l_', 'l_', 'left.', '']), rng.choice(['r_', 'r_', 'r_', 'right.', ''])
    argn = [cl, cr, lkey, rkey, lattr, rattr]
    bad = None
    r = rng.random()
    if r < 0.03:
        op, bad = rng.choice(['==', '=>', 'ge']), 'comp_op'
    elif r < 0.06:
        argn[rng.randrange(6)], bad = 'nokey', 'unknown attribute'
    elif r < 0.08:
        rout, bad = (rout or []) + ['zz'], 'r_out_attrs'
    elif r < 0.10:
        lout, bad = ['zz'] + (lout or []), 'l_out_attrs'
    tk = tok if use_tok else None
    cached = tk is not None and (len(L) + len(R) < 2 * len(cand))

    def real():
        with joblib.parallel_config(backend=T.C_BACKEND[0]):
            return apply_matcher(cand, argn[0], argn[1], L, R, argn[2], argn[3], argn[4], argn[5], tk, simf, t, op,
                                 am, None if lout is None else list(lout), None if rout is None else list(rout),
                                 lpre, rpre, ws, nj, False)
    expected, flags, obs, nrows = observe(real)
    b = C.pyval_lit
    lvals, rvals = present(L, lattr), present(R, rattr)
    titems = []
    if tk is not None:
        for s in dict.fromkeys(lvals + rvals):
            titems.append('PTuple [%s; %s]' % (b(s), b(list(tk.tokenize(s)))))
    entries = []
    for x in lvals:
        for y in rvals:
            a, c = (list(tk.tokenize(x)), list(tk.tokenize(y))) if tk is not None else (x, y)
            entries.append('PTuple [PTuple [%s; %s]; %s]' % (b(a), b(c), b(simf(a, c))))
    n = 'm%d_' % gi
    defs = ['Definition %sC := %s.' % (n, frame_lit(cand)),
            'Definition %sL := %s.' % (n, frame_lit(L)),
            'Definition %sR := %s.' % (n, frame_lit(R)),
            'Definition %stok := %s.' % (n, TOKFUN % ('[%s]' % '; '.join(titems))),
            'Definition %ssim := %s.' % (n, SIMTAB % ('[%s]' % '; '.join(entries))),
            'Definition %sexp := %s.' % (n, expected),
            'Definition %sfl : list bool := [%s].' % (n, '; '.join('true' if f else 'false' for f in flags))]
    args = ' '.join(b(x) for x in argn) if False else None
    callx = 'apply_matcher_rows %sC %s %s %sL %sR %s %s %s %s %s %s %s %s %s %s %s %s %s %s %s %s %stok %ssim' % (
        n, b(argn[0]), b(argn[1]), n, n, b(argn[2]), b(argn[3]), b(argn[4]), b(argn[5]),
        'PNone' if tk is None else '(PStr "tokenizer")', b(t), b(op), b(am), b(lout), b(rout), b(lpre), b(rpre),
        b(ws), b(nj), b(False), b(T.cpu_count()), n, n)
    info = {'function': 'apply_matcher_rows', 'sim': simname, 'tokenizer': kind if tk is not None else None,
            'threshold': t, 'comp_op': op, 'allow_missing': am, 'out_sim_score': ws, 'n_jobs': nj,
            'cpu_count': T.cpu_count(), 'names': argn, 'l_out_attrs': lout, 'r_out_attrs': rout,
            'l_out_prefix': lpre, 'r_out_prefix': rpre, 'token_cache': cached, 'candset_shape': shape,
            'candset_index': idx, 'key_missing_from_table': keyerr, 'invalid': bad,
            'ltable': L.to_dict(orient='split'), 'rtable': R.to_dict(orient='split'),
            'candset': cand.to_dict(orient='split'), 'observed': obs}
    kindk = 'raises' if nrows < 0 else ('empty candset' if len(cand) == 0 else ('rows' if nrows else 'no rows'))
    key = 'apply_matcher/%s/%s/%s/%s/%s' % (
        kindk, 'par' if nj not in (0, 1) else 'seq', 'missing' if am else 'nomissing',
        'tok+cache' if cached else ('tok' if tk is not None else 'notok'), shape)
    nontrivial = 0 < nrows < len(cand) or (nrows > 0 and (lout is not None or rout is not None))
    return '\n'.join(defs), ['frame_same %sfl (%s) %sexp' % (n, callx, n)], info, key, nontrivial


# ----------------------------------------------------------------------------- filter_candset
def candset_case(gi, rng):
    import joblib
    import pandas as pd
    which = rng.choice(FILTERS)
    fd = corr_filters.make_filter(rng, which)
    kind = fd['kind'] if fd['kind'] in ('ws', 'delim', 'qgram2', 'qgram3', 'alnum', 'qgram2np') else 'ws'
    L, R, names = gen_tables(rng, kind)
    lkey, lattr, rkey, rattr = names
    if rng.random() < 0.1 and len(L) > 0:
        # self-join: the SAME DataFrame object on both sides, filtering two different columns of it
        L = L.copy()
        vals = list(L[lattr].tolist())
        rng.shuffle(vals)
        L['alt_' + lattr] = pd.Series(vals, index=L.index, dtype=object)
        R = L
        names = (lkey, lattr, lkey, 'alt_' + lattr)
        lkey, lattr, rkey, rattr = names
    size = rng.choice(['small', 'small', 'big', 'big', 'big'])
    if rng.random() < 0.06:
        size = 'empty'
    cand, cl, cr, shape, idx, keyerr = gen_candset(rng, L, R, names, size)
    nj = rng.choice([1, 1, 2, 2, 3, 4, 4, 0, -1, 7])
    argn = [cl, cr, lkey, rkey, lattr, rattr]
    bad = None
    if rng.random() < 0.05:
        argn[rng.randrange(6)], bad = 'nokey', 'unknown attribute'
    filt = fd['filt']

    def real():
        with joblib.parallel_config(backend=T.C_BACKEND[0]):
            return filt.filter_candset(cand, argn[0], argn[1], L, R, argn[2], argn[3], argn[4], argn[5], nj, False)
    expected, flags, obs, nrows = observe(real)
    b = C.pyval_lit
    lvals = present(L, lattr) + ([None] if any(T.is_missing(v) for v in L[lattr].tolist()) else [])
    rvals = present(R, rattr) + ([None] if any(T.is_missing(v) for v in R[rattr].tolist()) else [])
    lreal = {None: [v for v in L[lattr].tolist() if T.is_missing(v)]}
    rreal = {None: [v for v in R[rattr].tolist() if T.is_missing(v)]}
    entries = []
    for x in lvals:
        for y in rvals:
            xs = lreal[None] if x is None else [x]
            ys = rreal[None] if y is None else [y]
            ds = set(bool(filt.filter_pair(x1, y1)) for x1 in xs for y1 in ys)
            if len(ds) != 1:
                raise RuntimeError('filter_pair distinguishes None from NaN')
            entries.append('PTuple [PTuple [%s; %s]; %s]' % (b(x), b(y), b(ds.pop())))
    n = 'c%d_' % gi
    defs = ['Definition %sC := %s.' % (n, frame_lit(cand)),
            'Definition %sL := %s.' % (n, frame_lit(L)),
            'Definition %sR := %s.' % (n, frame_lit(R)),
            'Definition %sfp := %s.' % (n, FPTAB % ('[%s]' % '; '.join(entries))),
            'Definition %sexp := %s.' % (n, expected),
            'Definition %sfl : list bool := [%s].' % (n, '; '.join('true' if f else 'false' for f in flags))]
    callx = 'filter_candset_rows %sC %s %s %sL %sR %s %s %s %s %s %s %s %sfp' % (
        n, b(argn[0]), b(argn[1]), n, n, b(argn[2]), b(argn[3]), b(argn[4]), b(argn[5]), b(nj), b(False),
        b(T.cpu_count()), n)
    info = {'function': 'filter_candset_rows', 'filter': which, 'measure': fd['measure'], 'threshold': repr(fd['t']),
            'comp_op': fd['op'], 'allow_empty': fd['allow_empty'], 'allow_missing': fd['allow_missing'],
            'tokenizer': fd['kind'], 'n_jobs': nj, 'cpu_count': T.cpu_count(), 'names': argn,
            'candset_shape': shape, 'candset_index': idx, 'key_missing_from_table': keyerr, 'invalid': bad,
            'self_join': R is L, 'ltable': L.to_dict(orient='split'), 'rtable': R.to_dict(orient='split'),
            'candset': cand.to_dict(orient='split'), 'observed': obs}
    kindk = 'raises' if nrows < 0 else ('empty candset' if len(cand) == 0 else ('rows' if nrows else 'no rows'))
    key = 'filter_candset/%s/%s/%s/%s' % (which, kindk, 'par' if nj not in (0, 1) else 'seq', idx)
    return '\n'.join(defs), ['frame_same %sfl (%s) %sexp' % (n, callx, n)], info, key, 0 < nrows < len(cand)


def run(seed, n):
    rng = random.Random(seed + 4242)
    res = {'evaluations': 0, 'nontrivial': 0, 'distribution': {}, 'differ': [], 'spec_fail': [],
           'exceptions': [], 'samples': []}
    groups, meta = [], []
    for k in range(n):
        fn = matcher_case if (k % 5) < 3 else candset_case
        sub = random.Random(rng.getrandbits(48))
        try:
            defs, exprs, info, key, nontriv = fn(k, sub)
        except Exception as e:  # noqa   (the harness itself failed on this case)
            res['exceptions'].append({'case': k, 'call': {'function': fn.__name__,
                                                          'harness_exception': '%s: %s' % (type(e).__name__, e)}})
            continue
        res['distribution'][key] = res['distribution'].get(key, 0) + 1
        res['evaluations'] += len(exprs)
        res['nontrivial'] += 1 if nontriv else 0
        groups.append((defs, exprs))
        meta.append((k, info))
        if len(res['samples']) < 2 and nontriv:
            res['samples'].append(info)
    bad = C.run_groups('matchergen_%d' % seed, IMPORTS, groups, shard=25)
    for gi, ei in sorted(bad):
        k, info = meta[gi]
        res['differ'].append({'case': k, 'which': 'generated %s vs the real function' % info['function'],
                              'call': info})
    return res


if __name__ == '__main__':
    import json
    import time
    t0 = time.time()
    r = run(int(sys.argv[1]) if len(sys.argv) > 1 else 1, int(sys.argv[2]) if len(sys.argv) > 2 else 300)
    print('EVAL', r['evaluations'], 'NONTRIVIAL', r['nontrivial'], 'DIFFER', len(r['differ']), 'SPEC_FAIL',
          len(r['spec_fail']), 'EXC', len(r['exceptions']), 'WALL %.1fs' % (time.time() - t0))
    print(json.dumps(r['distribution'], sort_keys=True))
    for d in (r['differ'] + r['spec_fail'] + r['exceptions'])[:int(os.environ.get('SHOW', '3'))]:
        print(json.dumps(d, default=str)[:4000])
