"""./check driver.

  ./check --setup                      regenerate Gen/, full build of the Coq development
  ./check Cxx [--tier quick|thorough]  decide property Cxx on /repo's current working tree
  ./check Cxx --replay <file>          re-run one recorded failing case

Order of events for a property: regenerate coq/Gen from /repo (translator, fail-closed) ->
`make` the cone of Properties/Cxx.vo (full .vo) -> scan for forbidden constructs -> Print
Assumptions -> correspondence / spec evaluation (model and specs evaluated inside Coq on the
implementation's observed behaviour) -> if a proof obligation or the correspondence broke,
search for a concrete failing input -> evidence, KNOWN-FINDING / VIOLATION lines, exit status.
"""
import argparse
import importlib
import json
import os
import sys
import time
import traceback

HERE = os.path.dirname(os.path.abspath(__file__))
sys.path.insert(0, HERE)
import common as C  # noqa: E402

os.environ.setdefault('PYTHONHASHSEED', '0')
sys.path.insert(0, C.REPO)          # the implementation is imported from /repo's working tree

TRUSTED_BASE = [
    'Coq 8.16.1 kernel and vm_compute (no native_compute, no extraction)',
    'translator harness/translate/*.py (Python ast -> Gallina over pyval; the wrapper / matcher / profiler '
    'translators also rewrite pandas and joblib operations into the primitives of Model/Frame.v and drop '
    'shape-checked validators and the tokenizer flag switch), fail-closed, compared with the real functions on every run',
    'Python-semantics library coq/Num/PyNum.v, F64.v (validated by function-level correspondence)',
    'hand-written models coq/Model/*.v, coq/Ext/*.v: Filters, Joins, Api, Matcher, Projection, Profiler, TokenOrdering are '
    'proved to be refined by the regenerated code (Proofs/*Refine*.v, CodeLevel*.v); Suffix and Converter are tied by '
    'differential runs only; Frame.v / ProfFrame.v (rows + header, no index, no dtypes) model pandas',
    'external components modelled, not verified: CPython numerics, pandas, joblib, py_stringmatching',
    'correspondence harness (sampled): harness/*.py',
]


def known_match(kf, payload):
    """Does known-finding entry kf cover this violation payload?  match is a dict of
    key -> value / list of admissible values / {"regex": ...} on the payload's `class` dict."""
    import re
    cls = payload.get('class', {})
    for k, want in kf.get('match', {}).items():
        have = cls.get(k)
        if isinstance(want, dict) and 'regex' in want:
            if have is None or not re.search(want['regex'], str(have)):
                return False
        elif isinstance(want, list):
            if have not in want:
                return False
        else:
            if have != want:
                return False
    return True


def main():
    ap = argparse.ArgumentParser()
    ap.add_argument('prop', nargs='?')
    ap.add_argument('--setup', action='store_true')
    ap.add_argument('--tier', default=os.environ.get('VERIF_TIER', 'quick'), choices=['quick', 'thorough'])
    ap.add_argument('--replay')
    ap.add_argument('--seed', type=int, default=int(os.environ.get('VERIF_SEED', '20260926')))
    args = ap.parse_args()
    os.makedirs(C.WORK, exist_ok=True)

    with C.Lock():
        t0 = time.time()
        gen_ok, gen_status, gen_out = C.regenerate()
        if args.setup:
            ok, log, failed = C.make(['all'], timeout=3000)
            print(log[-3000:])
            print('setup: gen_ok=%s build_ok=%s failed=%s wall=%.1fs' % (gen_ok, ok, failed, time.time() - t0))
            # a broken build at setup time is reported by the checks themselves (with a search
            # for a failing input); setup only fails when the tooling is unusable
            sys.exit(0 if (ok or failed) else 2)
        if not args.prop:
            ap.error('property id required')
        pid = args.prop
        mod = importlib.import_module('props.' + pid)
        if args.replay:
            from props import base as _base
            sys.exit(getattr(mod, 'replay', _base.replay)(args.replay))

        prop_v = 'Properties/%s.v' % pid
        # bring EVERY compiled file up to date with the regenerated Gen/ first (the case files of the
        # correspondence import model/spec modules that need not lie in this property's cone; a stale
        # .vo must never be evaluated), then judge the property by its own cone only
        C.make(['all'], timeout=2400)
        ok, log, failed = C.make([prop_v + 'o'], timeout=2400)
        cone = C.cone(prop_v)
        obligations = C.obligations(cone)
        broken = []           # textual reasons why a proof obligation / the tie does not check
        if not gen_ok:
            in_cone = set(os.path.basename(c) for c in cone)
            for f, st in gen_status.items():
                # a source construct outside the translator's subset breaks the obligations of the
                # properties whose theorems rest on that generated file -- not the others
                if 'error' in st and (f in in_cone or not in_cone):
                    broken.append('translator: %s: %s' % (f, st['error']))
            if not gen_status:
                broken.append('translator failed: ' + gen_out[-500:])
        if not ok:
            broken.append('coq build of %s failed in: %s' % (prop_v, ', '.join(failed) or 'unknown'))
            import re
            m = re.search(r'File "\./[^\n]*\n(?:.*\n){0,12}', log)
            if m:
                broken.append(m.group(0)[:1500])
        forb = C.forbidden_scan()
        if forb:
            broken.append('forbidden constructs: ' + '; '.join(forb[:10]))
        axioms, closed = [], 0
        if ok:
            pa_ok, axioms, closed, pa_out = C.print_assumptions(prop_v)
            if not pa_ok:
                broken.append('Print Assumptions run of %s failed: %s' % (prop_v, pa_out[-400:]))
            allowed = {'ClassicalDedekindReals.sig_forall_dec', 'ClassicalDedekindReals.sig_not_dec',
                       'FunctionalExtensionality.functional_extensionality_dep', 'Classical_Prop.classic'}
            extra = [a for a in axioms if a not in allowed]
            if extra:
                broken.append('unexpected axioms under %s: %s' % (prop_v, ', '.join(extra)))
        chk = None
        if ok and args.tier == 'thorough':
            c_ok, c_axioms, c_tail, c_wall, c_bad = C.coqchk(prop_v)
            chk = {'ok': c_ok, 'axioms': c_axioms, 'wall_s': c_wall, 'kernel_check_switches': c_bad}
            if not c_ok:
                broken.append('coqchk rejected %s: %s' % (prop_v, c_tail[-400:]))
        failed_files = set(failed)
        discharged = [o for o in obligations if o.split(':')[0] not in failed_files] if ok else \
            [o for o in obligations if o.split(':')[0] not in failed_files and
             os.path.exists(os.path.join(C.COQ, o.split(':')[0] + 'o'))]

        ctx = {'tier': args.tier, 'seed': args.seed, 'pid': pid, 'broken': broken,
               'proof_ok': not broken}
        try:
            res = mod.run(ctx)
        except RuntimeError as e:
            # a case file that does not evaluate = the correspondence no longer checks
            res = {'evaluations': 0, 'distinct_nontrivial': 0, 'rule': 'correspondence did not evaluate',
                   'samples': [], 'violations': [], 'differ': [{'error': str(e)[-2000:]}]}
            broken.append('correspondence: ' + str(e)[-800:])
        violations = list(res.get('violations', []))
        differ = res.get('differ', [])
        if differ:
            broken.append('correspondence: model and implementation differ on %d case(s)' % len(differ))
        if broken:
            # search the model and the implementation for a concrete failing input
            found = []
            if not violations:
                try:
                    from props import base as _base
                    sfn = getattr(mod, 'search', None)
                    found = (sfn(dict(ctx, broken=broken, differ=differ)) if sfn
                             else _base.default_search(mod, dict(ctx, broken=broken, differ=differ))) or []
                except Exception:
                    traceback.print_exc()
            if found:
                violations += found
            elif not violations:
                violations.append({'what': 'proof obligation or correspondence broken',
                                   'class': {'kind': 'broken-obligation'},
                                   'broken': broken, 'differ': differ[:5],
                                   'no_failing_input_found': True})

        known = [k for k in C.load_known_findings() if k.get('property') == pid and k.get('status') == 'known']
        out_lines = []
        real = []
        reported_known = set()
        # replay the stored witness of every listed finding: still failing => KNOWN-FINDING line
        import witnesses
        witness_log = {}
        for kf in known:
            try:
                wv = witnesses.check(kf)
            except Exception as e:  # noqa
                traceback.print_exc()
                wv = None
                witness_log[kf['id']] = 'witness could not be replayed: %s' % e
            if wv is not None:
                reported_known.add(kf['id'])
                out_lines.append('KNOWN-FINDING: property=%s %s' % (pid, kf['what']))
                witness_log[kf['id']] = 'still fails'
            else:
                witness_log.setdefault(kf['id'], 'witness no longer fails')
        for v in violations:
            kf = next((k for k in known if known_match(k, v)), None)
            if kf is not None:
                if kf['id'] not in reported_known:
                    reported_known.add(kf['id'])
                    out_lines.append('KNOWN-FINDING: property=%s %s' % (pid, kf['what']))
                continue
            real.append(v)
        for v in real[:5]:
            p = C.write_replay(pid, v)
            tail = ' no-failing-input-found' if v.get('no_failing_input_found') else ''
            out_lines.append('VIOLATION property=%s replay=%s%s' % (pid, p, tail))

        cov = {
            'obligations': len(obligations), 'discharged': len(discharged),
            'checker_cmd': 'make -C coq %so (full .vo, cone of %d files) && coqc %s (Print Assumptions)'
                           % (prop_v, len(cone), prop_v),
            'trusted_base': TRUSTED_BASE + ['axioms reported by Print Assumptions: ' +
                                            (', '.join(axioms) if axioms else 'none (closed under the global context)')],
            'axioms': axioms, 'theorems_closed_under_global_context': closed,
            'cone': cone, 'gen': {k: {kk: vv for kk, vv in v.items() if kk in ('sha256', 'source', 'error', 'functions')}
                                  for k, v in gen_status.items()},
            'envelope': C.ENVELOPE,
            'broken_obligations': broken,
            'evaluations': int(res.get('evaluations', 0)),
            'distinct_nontrivial': int(res.get('distinct_nontrivial', 0)),
            'rule': res.get('rule', ''), 'samples': res.get('samples', [])[:3],
            'input_distribution': res.get('distribution', {}),
            'coqchk': chk if chk is not None else 'thorough tier only',
            'known_findings_reported': sorted(reported_known),
            'known_findings_witnesses': witness_log,
            'exhaustive': bool(res.get('exhaustive', False)),
        }
        for k, v in res.get('extra', {}).items():
            cov[k] = v
        assumptions = ['Cython (.pyx) code paths are not built in this image and not modelled',
                       'behaviour of pandas 3.0.6 / numpy 1.26 / joblib 1.6 / py_stringmatching 0.4.7 as modelled',
                       'harness runs joblib with the threading backend in the quick tier'] + res.get('assumptions', [])
        C.write_evidence(pid, args.tier, args.seed, cov, assumptions, time.time() - t0, len(real))
        for l in out_lines:
            print(l)
        print('%s tier=%s seed=%d obligations=%d discharged=%d evaluations=%d nontrivial=%d violations=%d wall=%.1fs'
              % (pid, args.tier, args.seed, len(obligations), len(discharged), cov['evaluations'],
                 cov['distinct_nontrivial'], len(real), time.time() - t0))
        sys.exit(1 if real else 0)


if __name__ == '__main__':
    main()
