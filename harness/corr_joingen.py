"""Function-level correspondence for the per-chunk join loops

    join/set_sim_join.py : set_sim_join     (jaccard_join_py / cosine_join_py / dice_join_py)
    join/overlap_coefficient_join_py.py : _overlap_coefficient_join_split
    join/edit_distance_join_py.py : _edit_distance_join_split   (rows compared as a multiset: the
        candidates are a Python set, whose iteration order is not the insertion order of the model)
    filter/{position,prefix,size,overlap}_filter.py : _filter_tables_split   (the filter object is built by
        the harness; its attributes are the generated function's parameters; prefix / size: multiset)

The REAL function is run on random small tables (lists of lists or numpy object arrays, as the
wrappers hand them over through `.values`), with show_progress=False.  The arguments with which
it finally calls pd.DataFrame(output_rows, columns=output_header) are recorded (the module's `pd`
is replaced by a recording shim that forwards to pandas), because a DataFrame re-types its
columns (an int column with a None becomes float): the comparison is on the exact row lists.
The GENERATED `set_sim_join_rows` of coq/Gen/JoinGen.v is evaluated inside Coq on the same inputs
and must return the structurally identical value: rows in ORDER (candidate-dict insertion order),
every cell, and the header -- or the same exception class.

Inputs on the Coq side: tokens are interned as small ints that preserve the order of the Python
strings; `tokenizer.tokenize` is an association-list lookup from the cell to its token list;
`tokenizer.qval` is the tokenizer's qval (None for non-qgram tokenizers).
`sim_fn` (the parameter standing for get_sim_function(sim_measure_type)) is a LOOKUP TABLE of the
values the real similarity function returns on the ordered token lists that occur (all left x right
pairs), so this check is about the translated loop only.  In addition (spec_fail) the same
call is evaluated with sim_fn := fun x y => PFloat (sim_tok measure x y) of Model/Joins.v, the
form the refinement theorem (Proofs/JoinRefine.v) assumes.
"""
import os
import random
import sys

sys.path.insert(0, os.path.dirname(os.path.abspath(__file__)))
import common as C  # noqa: E402
import gens  # noqa: E402
import tables as T  # noqa: E402

if os.environ.get('VERIF_COQ'):       # evaluate against another compiled tree (development only)
    C.QFLAGS[:] = sum((['-Q', os.path.join(os.environ['VERIF_COQ'], d), 'SSJ'] for d in
                       ['Num', 'Base', 'Gen', 'Ext', 'Model', 'Spec', 'Proofs', 'Properties']), [])

IMPORTS = ['FilterUtilsGen', 'HelperGen', 'TokenOrderingGen', 'ValidationGen', 'IndexGen', 'JoinGen',
           'TokenOrdering', 'Filters', 'Joins']

TOKFUN = '(fun s_ : pyval => match dict_lookup %s s_ with Some v_ => v_ | None => PExc "KeyError" end)'
SIMTAB = ('(fun a_ b_ : pyval => match dict_lookup %s (PTuple [a_; b_]) with Some v_ => v_ '
          '| None => PExc "KeyError" end)')
SIMTOK = ('(fun a_ b_ : pyval => match a_, b_ with PList x_, PList y_ => '
          'PFloat (sim_tok %s (map (fun v_ => match v_ with PInt z_ => z_ | _ => 0 end) x_) '
          '(map (fun v_ => match v_ with PInt z_ => z_ | _ => 0 end) y_)) | _, _ => PExc "TypeError" end)')

COLS = ['id', 'i', 'd', 'str', 'A', 'attr', 'x1', 'x2', 's', 'A.id']


class NotACase(Exception):
    """the harness could not even construct the filter object (invalid constructor arguments)"""


class Recorder:
    """stands for the module-level `pd` of join/set_sim_join.py during one call"""
    def __init__(self, real):
        self._real = real
        self.calls = []

    def DataFrame(self, *a, **kw):
        self.calls.append((a, kw))
        return self._real.DataFrame(*a, **kw)

    def __getattr__(self, k):
        return getattr(self._real, k)


def gen_cell(rng):
    r = rng.random()
    if r < 0.35:
        return rng.randint(-5, 5)
    if r < 0.6:
        return rng.choice(['u', 'v', ''])
    if r < 0.75:
        return None
    if r < 0.9:
        return rng.choice([0.5, 1.25, -3.0])
    return float('nan')


def gen_side(rng, kind, universe, weights, nrows):
    ncols = rng.choice([2, 2, 3, 4, 5])
    cols = rng.sample(COLS, ncols)
    key, join = cols[0], cols[1]
    order = list(cols)
    rng.shuffle(order)
    key_kind = rng.choice(['int', 'int', 'str'])
    rows = []
    for i in range(nrows):
        row = []
        for c in order:
            if c == key:
                row.append(i + 1 if key_kind == 'int' else 'k%d' % i)
            elif c == join:
                row.append(T.gen_string(rng, kind, universe, weights))
            else:
                row.append(gen_cell(rng))
        rows.append(row)
    if nrows >= 2 and rng.random() < 0.4:
        ji = order.index(join)
        a, b = rng.randrange(nrows), rng.randrange(nrows)
        rows[a][ji] = rows[b][ji]
    if nrows >= 1 and rng.random() < 0.3:
        # a string without tokens (the allow_empty branch)
        rows[rng.randrange(nrows)][order.index(join)] = rng.choice(['', '', ' ' if kind == 'ws' else ''])
    r = rng.random()
    others = [c for c in order if c != key]
    if r < 0.3:
        out = None
    elif r < 0.4:
        out = []
    else:
        out = rng.sample(others, rng.randint(1, len(others)))
        if rng.random() < 0.1:
            out = out + [out[0]]                      # a repeated attribute (the wrappers remove these)
        if rng.random() < 0.07:
            out = out + [key]
    return order, key, join, rows, out


def gen_case(rng):
    import py_stringmatching as sm  # noqa
    which = rng.choice(['setsim', 'setsim', 'setsim', 'setsim', 'ovc', 'ed', 'f_position', 'f_prefix', 'f_size',
                        'f_overlap'])
    if which.startswith('f_'):
        m = 'OVERLAP' if which == 'f_overlap' else rng.choice(gens.ALL_FILTER_MEASURES)
        if m == 'EDIT_DISTANCE':
            kind, tok = T.make_tokenizer(rng, rng.choice(['qgram2', 'qgram3', 'qgram2np']), return_set=False)
            tcls, t = 'int', rng.choice([0, 1, 1, 2, 2, 3])
        elif m == 'OVERLAP':
            kind, tok = T.make_tokenizer(rng, rng.choice(['ws', 'delim', 'qgram2']), return_set=True)
            tcls, t = 'int', rng.choice([1, 1, 2, 3])
        else:
            kind, tok = T.make_tokenizer(rng, rng.choice(['ws', 'ws', 'delim', 'qgram2']), return_set=True)
            tcls, t = gens.any_threshold_value(rng)
            if rng.random() > 0.5:
                tcls, t = 'low', rng.choice([0.1, 0.2, 0.25, 0.3, 1.0 / 3, 0.4, 0.5, 0.5, 0.6])
    elif which == 'ed':
        m = 'EDIT_DISTANCE'
        kind, tok = T.make_tokenizer(rng, rng.choice(['qgram2', 'qgram3', 'qgram2np']), return_set=False)
        tcls, t = 'int', rng.choice([0, 1, 1, 2, 2, 3])
        if rng.random() < 0.05:
            tcls, t = 'odd', rng.choice([1.0, 2.5, -1])
    else:
        m = rng.choice(gens.MEASURES_SET) if which == 'setsim' else 'OVERLAP_COEFFICIENT'
        kind, tok = T.make_tokenizer(rng, rng.choice(['ws', 'ws', 'delim', 'qgram2']), return_set=True)
        tcls, t = gens.any_threshold_value(rng)
        r = rng.random()
        if r > 0.55:
            tcls, t = 'low', rng.choice([0.1, 0.2, 0.25, 0.3, 1.0 / 3, 0.4, 0.5, 0.5, 0.6])
        if r < 0.03:
            tcls, t = 'invalid', rng.choice([0, 0.0, 1.5, -0.25, 2])
    usize = rng.choice([3, 5, 8]) if not kind.startswith('qgram') else rng.choice([2, 3])
    universe = T.WORDS[:usize]
    weights = [1.0 / (i + 1) for i in range(usize)]
    nl = rng.choice([0, 1, 2, 3, 4, 6, 8])
    nr = rng.choice([0, 1, 2, 3, 4, 5])
    lc, lk, lj, L, lo = gen_side(rng, kind, universe, weights, nl)
    rc, rk, rj, R, ro = gen_side(rng, kind, universe, weights, nr)
    op = rng.choice(['>=', '>=', '>=', '>=', '>=', '>', '>', '=', '<=', '<', '!='])
    if which == 'ed':
        op = rng.choice(['<=', '<=', '<=', '<', '=', '>=', '!='])
    if which == 'f_overlap':
        op = rng.choice(['>=', '>=', '>', '='])
    bad = None
    r = rng.random()
    if r < 0.02:
        op, bad = '==', 'comp_op'
    elif r < 0.04:
        lk, bad = 'nokey', 'l_key_attr'
    elif r < 0.06:
        ro, bad = (ro or []) + ['zz'], 'r_out_attrs'
    return dict(which=which, measure=m, kind=kind, tok=tok, tcls=tcls, t=t, op=op, bad=bad,
                lcols=lc, lkey=lk, ljoin=lj, L=L, lout=lo, rcols=rc, rkey=rk, rjoin=rj, R=R, rout=ro,
                allow_empty=rng.random() < 0.6, score=rng.random() < 0.6,
                lpre=rng.choice(['l_', 'l_', 'left.', '']), rpre=rng.choice(['r_', 'r_', 'right.', '']),
                as_array=rng.random() < 0.6, q=getattr(tok, 'qval', None))


def run_real(cs):
    import importlib
    import numpy as np
    import pandas as pd
    modname, fname = {'setsim': ('py_stringsimjoin.join.set_sim_join', 'set_sim_join'),
                      'ovc': ('py_stringsimjoin.join.overlap_coefficient_join_py', '_overlap_coefficient_join_split'),
                      'ed': ('py_stringsimjoin.join.edit_distance_join_py', '_edit_distance_join_split'),
                      'f_position': ('py_stringsimjoin.filter.position_filter', '_filter_tables_split'),
                      'f_prefix': ('py_stringsimjoin.filter.prefix_filter', '_filter_tables_split'),
                      'f_size': ('py_stringsimjoin.filter.size_filter', '_filter_tables_split'),
                      'f_overlap': ('py_stringsimjoin.filter.overlap_filter', '_filter_tables_split')}[cs['which']]
    mod = importlib.import_module(modname)
    L, R = cs['L'], cs['R']
    if cs['as_array']:
        # what DataFrame[proj_attrs].values gives for mixed columns: a 2-d object array
        def arr(rows, n):
            a = np.empty((len(rows), n), dtype=object)
            for i, r in enumerate(rows):
                for j, v in enumerate(r):
                    a[i, j] = v
            return a
        L, R = arr(L, len(cs['lcols'])), arr(R, len(cs['rcols']))
    lout = None if cs['lout'] is None else list(cs['lout'])
    rout = None if cs['rout'] is None else list(cs['rout'])
    head = [L, R, list(cs['lcols']), list(cs['rcols']), cs['lkey'], cs['rkey'], cs['ljoin'], cs['rjoin'], cs['tok']]
    tail = [lout, rout, cs['lpre'], cs['rpre'], cs['score'], False]
    if cs['which'] == 'setsim':
        args = head + [cs['measure'], cs['t'], cs['op'], cs['allow_empty']] + tail
    elif cs['which'] == 'ovc':
        args = head + [cs['t'], cs['op'], cs['allow_empty']] + tail
    elif cs['which'] == 'ed':
        args = head + [cs['t'], cs['op']] + tail
    else:
        cls = {'f_position': 'PositionFilter', 'f_prefix': 'PrefixFilter', 'f_size': 'SizeFilter',
               'f_overlap': 'OverlapFilter'}[cs['which']]
        try:
            if cs['which'] == 'f_overlap':
                flt = getattr(mod, cls)(cs['tok'], cs['t'], cs['op'])
            else:
                flt = getattr(mod, cls)(cs['tok'], cs['measure'], cs['t'], cs['allow_empty'])
        except Exception as e:  # noqa
            raise NotACase('%s: %s' % (type(e).__name__, e))
        if cs['which'] == 'f_overlap':
            args = head[:-1] + [flt, lout, rout, cs['lpre'], cs['rpre'], cs['score'], False]
        else:
            args = head[:-1] + [flt, lout, rout, cs['lpre'], cs['rpre'], False]
    rec = Recorder(pd)
    saved = mod.pd
    mod.pd = rec
    try:
        df = getattr(mod, fname)(*args)
    finally:
        mod.pd = saved
    if len(rec.calls) != 1:
        raise RuntimeError('pd.DataFrame was called %d times' % len(rec.calls))
    (a, kw) = rec.calls[0]
    rows, header = a[0], kw['columns']
    assert list(df.columns) == list(header) and len(df) == len(rows)
    return [list(r) for r in rows], list(header)


def multiset_defs(n):
    """rows as a multiset (the candidates are a Python set), header exactly"""
    return ['Fixpoint %srem (x : pyval) (l : list pyval) : option (list pyval) := match l with '
            '[] => None | y :: t => if pv_same x y then Some t else option_map (cons y) (%srem x t) end.' % (n, n),
            'Fixpoint %sperm (a b : list pyval) : bool := match a with [] => match b with [] => true '
            '| _ => false end | x :: t => match %srem x b with Some b2 => %sperm t b2 | None => false end end.'
            % (n, n, n),
            'Definition %ssame (a b : pyval) : bool := match a, b with PTuple [PList r1; h1], '
            'PTuple [PList r2; h2] => %sperm r1 r2 && pv_same h1 h2 | _, _ => pv_same a b end.' % (n, n)]


def build_case(gi, cs):
    """-> (defs, exprs, labels, info, nontrivial)"""
    from py_stringsimjoin.utils.simfunctions import get_sim_function
    from py_stringsimjoin.utils.token_ordering import gen_token_ordering_for_tables, \
        order_using_token_ordering
    tok, m = cs['tok'], cs['measure']
    lj = cs['lcols'].index(cs['ljoin'])
    rj = cs['rcols'].index(cs['rjoin'])
    lstr = [r[lj] for r in cs['L']]
    rstr = [r[rj] for r in cs['R']]
    ids = {w: i for i, w in enumerate(sorted(set(w for s in lstr + rstr for w in tok.tokenize(s))))}
    info = {'function': cs['which'], 'measure': m, 'threshold': cs['t'], 'threshold_class': cs['tcls'], 'comp_op': cs['op'],
            'tokenizer': cs['kind'], 'allow_empty': cs['allow_empty'], 'out_sim_score': cs['score'],
            'l_columns': cs['lcols'], 'r_columns': cs['rcols'], 'l_key_attr': cs['lkey'],
            'r_key_attr': cs['rkey'], 'l_join_attr': cs['ljoin'], 'r_join_attr': cs['rjoin'],
            'l_out_attrs': cs['lout'], 'r_out_attrs': cs['rout'], 'l_out_prefix': cs['lpre'],
            'r_out_prefix': cs['rpre'], 'ltable': cs['L'], 'rtable': cs['R'],
            'tables_as': 'numpy object array' if cs['as_array'] else 'list of lists', 'invalid': cs['bad']}
    try:
        rows, header = run_real(cs)
        expected = C.pyval_lit((rows, header))
        info['observed'] = {'rows': rows, 'header': header}
        nontrivial = len(rows) > 0
    except NotACase:
        raise
    except Exception as e:  # noqa
        expected = '(PExc %s)' % C.coq_str(type(e).__name__)
        info['observed'] = 'raised %s: %s' % (type(e).__name__, e)
        nontrivial = False
    sseen, titems = set(), []
    for s in lstr + rstr:
        if s in sseen:
            continue
        sseen.add(s)
        titems.append('PTuple [%s; PList [%s]]' % (C.pyval_lit(s), '; '.join(
            'PInt %d' % ids[w] for w in tok.tokenize(s))))
    n = 'j%d_' % gi
    defs = ['Definition %sL := %s.' % (n, C.pyval_lit(cs['L'])),
            'Definition %sR := %s.' % (n, C.pyval_lit(cs['R'])),
            'Definition %stok := %s.' % (n, TOKFUN % ('[%s]' % '; '.join(titems))),
            'Definition %sexp := %s.' % (n, expected)]
    common = ' '.join(C.pyval_lit(cs[k]) for k in ('lcols', 'rcols', 'lkey', 'rkey', 'ljoin', 'rjoin'))
    outs = ' '.join(C.pyval_lit(cs[k]) for k in ('lout', 'rout', 'lpre', 'rpre', 'score'))
    if cs['which'] == 'setsim':
        # the real similarity function on every (ordered left, ordered right) pair
        ordering = gen_token_ordering_for_tables([cs['L'], cs['R']], [lj, rj], tok, m)
        sim = get_sim_function(m)
        lo = [order_using_token_ordering(tok.tokenize(s), ordering) for s in lstr]
        ro = [order_using_token_ordering(tok.tokenize(s), ordering) for s in rstr]
        seen, entries = set(), []
        for x in lo:
            for y in ro:
                k = (tuple(x), tuple(y))
                if k in seen:
                    continue
                seen.add(k)
                entries.append('PTuple [PTuple [%s; %s]; %s]' % (C.pyval_lit(list(x)), C.pyval_lit(list(y)),
                                                                 C.pyval_lit(sim(x, y))))
        call = ('set_sim_join_rows %sL %sR %s (PStr %s) %s %s %s %s (PBool false) %s %stok %%s'
                % (n, n, common, C.coq_str(m), C.pyval_lit(cs['t']), C.pyval_lit(cs['op']),
                   C.pyval_lit(cs['allow_empty']), outs, C.pyval_lit(cs['q']), n))
        defs.append('Definition %ssim := %s.' % (n, SIMTAB % ('[%s]' % '; '.join(entries))))
        exprs = ['pv_same (%s) %sexp' % (call % ('%ssim' % n), n),
                 'pv_same (%s) %sexp' % (call % (SIMTOK % C.coq_str(m)), n)]
        labels = ['set_sim_join_rows (sim_fn = table of the real similarity values)',
                  'set_sim_join_rows (sim_fn = sim_tok of Model/Joins.v)']
    elif cs['which'] == 'ovc':
        call = ('overlap_coefficient_join_split_rows %sL %sR %s %s %s %s %s (PBool false) %stok'
                % (n, n, common, C.pyval_lit(cs['t']), C.pyval_lit(cs['op']), C.pyval_lit(cs['allow_empty']),
                   outs, n))
        exprs = ['pv_same (%s) %sexp' % (call, n)]
        labels = ['overlap_coefficient_join_split_rows']
    elif cs['which'].startswith('f_'):
        outs4 = ' '.join(C.pyval_lit(cs[k]) for k in ('lout', 'rout', 'lpre', 'rpre'))
        multiset = cs['which'] in ('f_prefix', 'f_size')
        if cs['which'] == 'f_overlap':
            call = ('overlap_filter_tables_split_rows %sL %sR %s %s %s %s (PBool false) %stok'
                    % (n, n, common, C.pyval_lit(cs['t']), C.pyval_lit(cs['op']), outs, n))
        elif cs['which'] == 'f_size':
            call = ('size_filter_tables_split_rows %sL %sR %s (PStr %s) %s %s %s (PBool false) %stok'
                    % (n, n, common, C.coq_str(m), C.pyval_lit(cs['t']), C.pyval_lit(cs['allow_empty']), outs4, n))
        else:
            call = ('%s_filter_tables_split_rows %sL %sR %s (PStr %s) %s %s %s (PBool false) %s %stok'
                    % (cs['which'][2:], n, n, common, C.coq_str(m), C.pyval_lit(cs['t']),
                       C.pyval_lit(cs['allow_empty']), outs4, C.pyval_lit(cs['q']), n))
        if multiset:
            defs += multiset_defs(n)
            exprs = ['%ssame (%s) %sexp' % (n, call, n)]
        else:
            exprs = ['pv_same (%s) %sexp' % (call, n)]
        labels = ['%s_filter_tables_split_rows%s' % (cs['which'][2:], ' (rows as a multiset)' if multiset else '')]
    else:
        # Levenshtein on every (left string, right string) pair
        sim = get_sim_function(m)
        seen, entries = set(), []
        for x in lstr:
            for y in rstr:
                if (x, y) in seen:
                    continue
                seen.add((x, y))
                entries.append('PTuple [PTuple [%s; %s]; %s]' % (C.pyval_lit(x), C.pyval_lit(y),
                                                                 C.pyval_lit(sim(x, y))))
        defs.append('Definition %ssim := %s.' % (n, SIMTAB % ('[%s]' % '; '.join(entries))))
        defs += multiset_defs(n)
        call = ('edit_distance_join_split_rows %sL %sR %s %s %s %s (PBool false) %s %stok %ssim'
                % (n, n, common, C.pyval_lit(cs['t']), C.pyval_lit(cs['op']), outs, C.pyval_lit(cs['q']), n, n))
        exprs = ['%ssame (%s) %sexp' % (n, call, n)]
        labels = ['edit_distance_join_split_rows (rows as a multiset)']
    return '\n'.join(defs), exprs, labels, info, nontrivial


def run(seed, n):
    rng = random.Random(seed + 4242)
    res = {'evaluations': 0, 'nontrivial': 0, 'distribution': {}, 'differ': [], 'spec_fail': [],
           'exceptions': [], 'samples': []}
    groups, meta = [], []
    for k in range(n):
        cs = gen_case(rng)
        try:
            defs, exprs, labels, info, nontriv = build_case(k, cs)
        except Exception as e:  # noqa   (not a case: the filter constructor rejected the arguments)
            res['exceptions'].append({'case': k, 'call': {'function': cs['which'], 'measure': cs['measure'], 'threshold': cs['t'], 'comp_op': cs['op'],
                                                          'observed_exception': '%s: %s' % (type(e).__name__, e)}})
            continue
        kind = 'raises' if isinstance(info['observed'], str) else \
            ('rows' if info['observed']['rows'] else 'no rows')
        key = '%s/%s/%s' % (cs['which'], cs['measure'], kind)
        res['distribution'][key] = res['distribution'].get(key, 0) + 1
        res['evaluations'] += len(exprs)
        res['nontrivial'] += 1 if nontriv else 0
        groups.append((defs, exprs))
        meta.append((k, labels, info))
        if len(res['samples']) < 2 and nontriv:
            res['samples'].append(info)
    bad = C.run_groups('joingen_%d' % seed, IMPORTS, groups, shard=25)
    for gi, ei in sorted(bad):
        k, labels, info = meta[gi]
        rec = {'case': k, 'which': 'generated %s vs the real function' % labels[ei], 'call': info}
        (res['differ'] if ei == 0 else res['spec_fail']).append(rec)
    return res


if __name__ == '__main__':
    import json
    import time
    t0 = time.time()
    r = run(int(sys.argv[1]) if len(sys.argv) > 1 else 1, int(sys.argv[2]) if len(sys.argv) > 2 else 200)
    print('EVAL', r['evaluations'], 'NONTRIVIAL', r['nontrivial'], 'DIFFER', len(r['differ']), 'SPEC_FAIL',
          len(r['spec_fail']), 'EXC', len(r['exceptions']), 'WALL %.1fs' % (time.time() - t0))
    print(json.dumps(r['distribution'], sort_keys=True))
    for d in (r['differ'] + r['spec_fail'] + r['exceptions'])[:4]:
        print(json.dumps(d, default=str)[:2500])
