"""Stored witnesses of the known findings (known_findings.json).  Each function re-runs the
recorded input against the real code, evaluates the property's spec inside Coq on what was
observed, and returns a violation payload if the finding is still there, else None."""
import os
import sys

import pandas as pd

sys.path.insert(0, os.path.dirname(os.path.abspath(__file__)))
import common as C  # noqa: E402
import tables as T  # noqa: E402


def suffix_filter_unsafe(w):
    import py_stringsimjoin as ssj
    import py_stringmatching as sm
    import corr_filters as F
    tok = sm.WhitespaceTokenizer(return_set=True)
    t = float.fromhex(w['t'])
    flt = ssj.SuffixFilter(tok, w['measure'], t)
    dropped = bool(flt.filter_pair(w['l'], w['r']))
    fd = dict(which='suffix', measure=w['measure'], t=t, op='>=', tok=tok, kind='ws', allow_empty=True,
              allow_missing=False, q=0)
    defs, exprs = F.fp_case(fd, w['l'], w['r'], 0, dropped)
    bad = C.run_groups('w_suffix', ['TokenOrdering', 'Filters', 'Suffix', 'Joins', 'Api', 'JoinSpec', 'FilterSpec'],
                       [(defs, exprs)])
    names = [F.FP_SPECS[ei] for (_, ei) in bad]
    if 'fp_safe_spec' in names:
        return {'what': 'SuffixFilter.filter_pair drops a pair meeting the threshold',
                'class': {'kind': 'fp_safe_spec', 'entry': 'suffix'}, 'call': dict(w, dropped=dropped)}
    return None


def gray_pair_njobs(w):
    import joblib
    import py_stringmatching as sm
    import corr_meta as M
    import corr_joins as J
    tok = sm.WhitespaceTokenizer(return_set=True)
    L = pd.DataFrame({'id': range(1, len(w['ltable']) + 1), 's': pd.Series(w['ltable'], dtype=object)})
    R = pd.DataFrame({'id': range(1, len(w['rtable']) + 1), 's': pd.Series(w['rtable'], dtype=object)})
    call = dict(measure=w['measure'], kind='ws', tok=tok, L=L, R=R, names=('id', 's', 'id', 's'),
                t=float.fromhex(w['t']), tcls='witness', op='>=', allow_empty=True, allow_missing=False,
                with_score=True, njobs=w['n_jobs'][0], l_out=None, r_out=None)
    o1 = J.run_call(call)
    o2 = J.run_call(dict(call, njobs=w['n_jobs'][1]))
    if isinstance(o1, Exception) or isinstance(o2, Exception):
        return {'what': 'witness call raised', 'class': {'kind': 'exception'}, 'call': w}
    cs = M.Case(call, 0, 'join')
    c = cs.case_lit('c')
    a = cs.obs('oa', o1)
    b = cs.obs('ob', o2)
    bad = C.run_groups('w_gray', M.IMPORTS, [(cs.text(), ['negb (differ_only_gray %s %s %s)' % (c, a, b)])])
    if bad:
        return {'what': 'a gray pair (raw score < threshold <= 4-decimal score) is returned or not depending on n_jobs',
                'class': {'kind': 'gray pair differs between runs', 'gray': True, 'entry': w['measure']},
                'call': dict(w, rows_first=o1.values.tolist(), rows_second=o2.values.tolist())}
    return None


def series_inplace_numeric(w):
    from py_stringsimjoin.utils.converter import series_to_str
    s = pd.Series(w['values'])
    try:
        r = series_to_str(s, True)
    except Exception as e:  # noqa
        return {'what': 'series_to_str(numeric series, inplace=True) raises %s instead of converting' % type(e).__name__,
                'class': {'entry': 'series_to_str', 'inplace': True, 'dtype': w['dtype'], 'kind': 'inplace_converts'},
                'call': w}
    if r is True and s.dtype == object and all(isinstance(v, str) for v in s.dropna().tolist()):
        return None
    return {'what': 'series_to_str(numeric series, inplace=True) did not convert the given object',
            'class': {'entry': 'series_to_str', 'inplace': True, 'dtype': w['dtype'], 'kind': 'inplace_converts'},
            'call': dict(w, result=repr(r), after=s.tolist(), dtype_after=str(s.dtype))}


def profiler_none_and_nan(w):
    from py_stringsimjoin.profiler.profiler import profile_table_for_join
    import numpy as np
    vals = [np.nan if v == 'nan' else v for v in w['values']]
    df = pd.DataFrame({'a': pd.Series(vals, dtype=object)})
    out = profile_table_for_join(df)
    cell = out.loc['a', 'Unique values']
    got = int(str(cell).split(' ')[0])
    if got != w['expected_unique']:
        return {'what': "profile_table_for_join counts the missing value twice in 'Unique values' for a column holding both None and NaN",
                'class': {'entry': 'profile_table_for_join', 'stream': 'mixed', 'mixed_missing': True,
                          'kind': 'spec: distinct values with a missing value counted once'},
                'call': dict(w, reported=cell)}
    return None


WITNESS = {'suffix-filter-unsafe': suffix_filter_unsafe, 'gray-pair-njobs': gray_pair_njobs,
           'series-to-str-inplace-numeric': series_inplace_numeric}


def check(entry):
    f = WITNESS.get(entry['id'])
    if f is None:
        return None
    return f(entry.get('witness', {}))
