"""Function-level correspondence for the index-based candidate generation:

  PositionIndex.build  /  PositionFilter.find_candidates   (index/position_index.py, filter/position_filter.py)
  PrefixIndex.build    /  PrefixFilter.find_candidates     (index/prefix_index.py, filter/prefix_filter.py)
  SizeIndex.build      /  SizeFilter.find_candidates       (index/size_index.py, filter/size_filter.py)
  InvertedIndex.build  /  OverlapFilter.find_candidates    (index/inverted_index.py, filter/overlap_filter.py)

The REAL methods are run on random small tables; the GENERATED definitions of coq/Gen/IndexGen.v
(position_index_build, position_filter_find_candidates, prefix_*, size_*, inverted_index_build,
overlap_filter_find_candidates; candidate SETS are compared as sorted element lists) are evaluated inside Coq on the same inputs and must return
structurally identical values (dict insertion order included).  Tokens are interned as small
ints that preserve the order of the Python strings; the tokenizer is handed over as an
association-list lookup from the row's string to its token list.

Per case three kinds of expressions are checked:
  build      generated build            == (index, size_cache, min_length, max_length, returned dict)
  probe      generated find_candidates on the REAL index components == real candidate dict
  composed   generated find_candidates on the components the generated build returned
"""
import os
import random
import sys

sys.path.insert(0, os.path.dirname(os.path.abspath(__file__)))
import common as C  # noqa: E402
import gens  # noqa: E402
import tables as T  # noqa: E402

if os.environ.get('VERIF_COQ'):       # evaluate against another compiled tree (development only)
    C.QFLAGS[:] = sum((['-Q', os.path.join(os.environ['VERIF_COQ'], d), 'SSJ'] for d in
                       ['Num', 'Base', 'Gen', 'Ext', 'Model', 'Spec', 'Proofs', 'Properties']), [])

IMPORTS = ['FilterUtilsGen', 'TokenOrderingGen', 'IndexGen']

TOKFUN = '(fun s_ : pyval => match dict_lookup %s s_ with Some v_ => v_ | None => PExc "KeyError" end)'


def exc_lit(e):
    return '(PExc %s)' % C.coq_str(type(e).__name__)


def gen_case(rng):
    import py_stringmatching as sm  # noqa
    m = rng.choice(gens.ALL_FILTER_MEASURES)
    if m == 'EDIT_DISTANCE':
        kind, tok = T.make_tokenizer(rng, rng.choice(['qgram2', 'qgram3', 'qgram2np']), return_set=False)
        tcls, t = 'int', rng.choice([0, 1, 1, 2, 2, 3])
        if rng.random() < 0.05:
            tcls, t = 'float', float(t)          # xrange(float) -> TypeError in the real code
    elif m == 'OVERLAP':
        kind, tok = T.make_tokenizer(rng, rng.choice(['ws', 'delim', 'qgram2']), return_set=True)
        tcls, t = 'int', rng.choice([1, 1, 2, 3])
    else:
        kind, tok = T.make_tokenizer(rng, rng.choice(['ws', 'ws', 'delim', 'qgram2']), return_set=True)
        tcls, t = gens.any_threshold_value(rng)
    usize = rng.choice([3, 5, 8]) if not kind.startswith('qgram') else rng.choice([2, 3])
    universe = T.WORDS[:usize]
    weights = [1.0 / (i + 1) for i in range(usize)]
    nl = rng.choice([0, 1, 1, 2, 3, 4, 6])
    nr = rng.choice([1, 2, 3])
    L = [(i, T.gen_string(rng, kind, universe, weights)) for i in range(nl)]
    R = [(i, T.gen_string(rng, kind, universe, weights)) for i in range(nr)]
    return dict(measure=m, kind=kind, tok=tok, tcls=tcls, t=t, L=L, R=R,
                cache_empty=rng.random() < 0.6, cache_tokens=rng.random() < 0.5,
                q=getattr(tok, 'qval', None))


def intern_tokens(strings, tok):
    toks = sorted(set(w for s in strings for w in tok.tokenize(s)))
    return {w: i for i, w in enumerate(toks)}


def table_lit(rows):
    return '(PList [%s])' % '; '.join('PTuple [PInt %d; PStr %s]' % (i, C.coq_str(s)) for i, s in rows)


def tokmap_lit(strings, tok, ids):
    seen, items = set(), []
    for s in strings:
        if s in seen:
            continue
        seen.add(s)
        items.append('PTuple [PStr %s; PList [%s]]' % (C.coq_str(s), '; '.join(
            'PInt %d' % ids[w] for w in tok.tokenize(s))))
    return '[%s]' % '; '.join(items)


def position_case(gi, cs):
    """-> (defs, exprs, labels, info, nontrivial)"""
    from py_stringsimjoin.filter.position_filter import PositionFilter
    from py_stringsimjoin.index.position_index import PositionIndex
    from py_stringsimjoin.utils.token_ordering import gen_token_ordering_for_tables, \
        order_using_token_ordering
    tok, m, t, L, R = cs['tok'], cs['measure'], cs['t'], cs['L'], cs['R']
    strings = [s for _, s in L] + [s for _, s in R]
    ids = intern_tokens(strings, tok)
    ordering = gen_token_ordering_for_tables([L, R], [1, 1], tok, m)
    pidx = PositionIndex(L, 1, tok, m, t, ordering)
    n = 'c%d_' % gi
    defs = ['Definition %stbl := %s.' % (n, table_lit(L)),
            'Definition %stok := %s.' % (n, TOKFUN % tokmap_lit(strings, tok, ids)),
            'Definition %sord := PDict [%s].' % (n, '; '.join(
                'PTuple [PInt %d; PInt %d]' % (ids[w], r) for w, r in ordering.items())),
            'Definition %sq := %s.' % (n, C.pyval_lit(cs['q'])),
            'Definition %st := %s.' % (n, C.pyval_lit(t)),
            'Definition %sbuilt := position_index_build %stbl (PInt 1) (PStr %s) %st %sord %s %s %sq %stok.'
            % (n, n, C.coq_str(m), n, n, C.pyval_lit(cs['cache_empty']), C.pyval_lit(cs['cache_tokens']), n, n)]
    exprs, labels = [], []
    info = {'measure': m, 'threshold': t, 'tokenizer': cs['kind'], 'ltable': [s for _, s in L],
            'rtable': [s for _, s in R], 'cache_empty_records': cs['cache_empty'],
            'cache_tokens': cs['cache_tokens'], 'observed': {}}
    built_ok = True
    try:
        ret = pidx.build(cs['cache_empty'], cs['cache_tokens'])
        expected = (pidx.index, pidx.size_cache, pidx.min_length, pidx.max_length, ret)
        exprs.append('pv_same %sbuilt %s' % (n, C.pyval_lit(expected)))
        info['observed']['build'] = {'index': repr(pidx.index), 'size_cache': pidx.size_cache,
                                     'min_length': pidx.min_length, 'max_length': pidx.max_length,
                                     'returned': repr(ret)}
    except Exception as e:  # noqa
        built_ok = False
        exprs.append('pv_same %sbuilt %s' % (n, exc_lit(e)))
        info['observed']['build'] = 'raised %s: %s' % (type(e).__name__, e)
    labels.append('position_index_build')
    nontrivial = built_ok and bool(pidx.index)
    if built_ok:
        pf = PositionFilter(tok, m, t)
        comps = ' '.join(C.pyval_lit(x) for x in (pidx.index, pidx.size_cache, pidx.min_length, pidx.max_length))
        info['observed']['find_candidates'] = []
        for j, (_, s) in enumerate(R):
            probe = order_using_token_ordering(tok.tokenize(s), ordering)
            try:
                cand = pf.find_candidates(probe, pidx)
                exp = C.pyval_lit(cand)
                info['observed']['find_candidates'].append(repr(cand))
                if any(v > 0 for v in cand.values()) or any(v == -1 for v in cand.values()):
                    nontrivial = True
            except Exception as e:  # noqa
                exp = exc_lit(e)
                info['observed']['find_candidates'].append('raised %s: %s' % (type(e).__name__, e))
            pl = C.pyval_lit(list(probe))
            exprs.append('pv_same (position_filter_find_candidates (PStr %s) %st %s %s %sq) %s'
                         % (C.coq_str(m), n, pl, comps, n, exp))
            labels.append('position_filter_find_candidates[r%d] on the real index' % j)
            exprs.append('match %sbuilt with PTuple [i_; s_; mn_; mx_; _] => pv_same '
                         '(position_filter_find_candidates (PStr %s) %st %s i_ s_ mn_ mx_ %sq) %s | _ => false end'
                         % (n, C.coq_str(m), n, pl, n, exp))
            labels.append('position_filter_find_candidates[r%d] on the generated build' % j)
    return '\n'.join(defs), exprs, labels, info, nontrivial


def set_expr(e):
    """a set-valued (dict-keyed) result as its sorted element list; exceptions pass through"""
    return '(py_sort (py_list %s))' % e


def set_lit(v):
    return C.pyval_lit(sorted(v))


def prefix_case(gi, cs):
    from py_stringsimjoin.filter.prefix_filter import PrefixFilter
    from py_stringsimjoin.index.prefix_index import PrefixIndex
    from py_stringsimjoin.utils.token_ordering import gen_token_ordering_for_tables, \
        order_using_token_ordering
    tok, m, t, L, R = cs['tok'], cs['measure'], cs['t'], cs['L'], cs['R']
    strings = [s for _, s in L] + [s for _, s in R]
    ids = intern_tokens(strings, tok)
    ordering = gen_token_ordering_for_tables([L, R], [1, 1], tok, m)
    pidx = PrefixIndex(L, 1, tok, m, t, ordering)
    n = 'p%d_' % gi
    defs = ['Definition %stbl := %s.' % (n, table_lit(L)),
            'Definition %stok := %s.' % (n, TOKFUN % tokmap_lit(strings, tok, ids)),
            'Definition %sord := PDict [%s].' % (n, '; '.join(
                'PTuple [PInt %d; PInt %d]' % (ids[w], r) for w, r in ordering.items())),
            'Definition %sq := %s.' % (n, C.pyval_lit(cs['q'])),
            'Definition %st := %s.' % (n, C.pyval_lit(t)),
            'Definition %sbuilt := prefix_index_build %stbl (PInt 1) (PStr %s) %st %sord %s %sq %stok.'
            % (n, n, C.coq_str(m), n, n, C.pyval_lit(cs['cache_empty']), n, n)]
    info = {'measure': m, 'threshold': t, 'tokenizer': cs['kind'], 'ltable': [s for _, s in L],
            'rtable': [s for _, s in R], 'cache_empty_records': cs['cache_empty'], 'observed': {}}
    exprs, labels = [], []
    try:
        ret = pidx.build(cs['cache_empty'])
        exprs.append('pv_same %sbuilt %s' % (n, C.pyval_lit((pidx.index, ret))))
        info['observed']['build'] = {'index': repr(pidx.index), 'returned': repr(ret)}
        ok = True
    except Exception as e:  # noqa
        exprs.append('pv_same %sbuilt %s' % (n, exc_lit(e)))
        info['observed']['build'] = 'raised %s: %s' % (type(e).__name__, e)
        ok = False
    labels.append('prefix_index_build')
    nontrivial = ok and bool(pidx.index)
    if ok:
        pf = PrefixFilter(tok, m, t)
        info['observed']['find_candidates'] = []
        for j, (_, s) in enumerate(R):
            probe = order_using_token_ordering(tok.tokenize(s), ordering)
            try:
                cand = pf.find_candidates(probe, pidx)
                exp = set_lit(cand)
                info['observed']['find_candidates'].append(repr(sorted(cand)))
            except Exception as e:  # noqa
                exp = exc_lit(e)
                info['observed']['find_candidates'].append('raised %s: %s' % (type(e).__name__, e))
            pl = C.pyval_lit(list(probe))
            exprs.append('pv_same %s %s' % (set_expr(
                '(prefix_filter_find_candidates (PStr %s) %st %s %s %sq)' % (C.coq_str(m), n, pl, C.pyval_lit(pidx.index), n)), exp))
            labels.append('prefix_filter_find_candidates[r%d] on the real index' % j)
            exprs.append('match %sbuilt with PTuple [i_; _] => pv_same %s %s | _ => false end' % (n, set_expr(
                '(prefix_filter_find_candidates (PStr %s) %st %s i_ %sq)' % (C.coq_str(m), n, pl, n)), exp))
            labels.append('prefix_filter_find_candidates[r%d] on the generated build' % j)
    return '\n'.join(defs), exprs, labels, info, nontrivial


def size_case(gi, cs):
    from py_stringsimjoin.filter.size_filter import SizeFilter
    from py_stringsimjoin.index.size_index import SizeIndex
    tok, m, t, L, R = cs['tok'], cs['measure'], cs['t'], cs['L'], cs['R']
    strings = [s for _, s in L] + [s for _, s in R]
    ids = intern_tokens(strings, tok)
    sidx = SizeIndex(L, 1, tok)
    n = 's%d_' % gi
    defs = ['Definition %stbl := %s.' % (n, table_lit(L)),
            'Definition %stok := %s.' % (n, TOKFUN % tokmap_lit(strings, tok, ids)),
            'Definition %st := %s.' % (n, C.pyval_lit(t)),
            'Definition %sbuilt := size_index_build %stbl (PInt 1) %s %stok.'
            % (n, n, C.pyval_lit(cs['cache_empty']), n)]
    info = {'measure': m, 'threshold': t, 'tokenizer': cs['kind'], 'ltable': [s for _, s in L],
            'rtable': [s for _, s in R], 'cache_empty_records': cs['cache_empty'], 'observed': {}}
    ret = sidx.build(cs['cache_empty'])
    exprs = ['pv_same %sbuilt %s' % (n, C.pyval_lit((sidx.index, sidx.min_length, sidx.max_length, ret)))]
    labels = ['size_index_build']
    info['observed']['build'] = {'index': repr(sidx.index), 'min_length': sidx.min_length,
                                 'max_length': sidx.max_length, 'returned': repr(ret)}
    sf = SizeFilter(tok, m, t)
    comps = ' '.join(C.pyval_lit(x) for x in (sidx.index, sidx.min_length, sidx.max_length))
    info['observed']['find_candidates'] = []
    for j, (_, s) in enumerate(R):
        size = len(tok.tokenize(s))
        try:
            cand = sf.find_candidates(size, sidx)
            exp = set_lit(cand)
            info['observed']['find_candidates'].append(repr(sorted(cand)))
        except Exception as e:  # noqa
            exp = exc_lit(e)
            info['observed']['find_candidates'].append('raised %s: %s' % (type(e).__name__, e))
        exprs.append('pv_same %s %s' % (set_expr(
            '(size_filter_find_candidates (PStr %s) %st (PInt %d) %s)' % (C.coq_str(m), n, size, comps)), exp))
        labels.append('size_filter_find_candidates[r%d] on the real index' % j)
        exprs.append('match %sbuilt with PTuple [i_; mn_; mx_; _] => pv_same %s %s | _ => false end' % (n, set_expr(
            '(size_filter_find_candidates (PStr %s) %st (PInt %d) i_ mn_ mx_)' % (C.coq_str(m), n, size)), exp))
        labels.append('size_filter_find_candidates[r%d] on the generated build' % j)
    return '\n'.join(defs), exprs, labels, info, bool(sidx.index)


def inverted_case(gi, cs):
    from py_stringsimjoin.filter.overlap_filter import OverlapFilter
    from py_stringsimjoin.index.inverted_index import InvertedIndex
    tok, L, R = cs['tok'], cs['L'], cs['R']
    strings = [s for _, s in L] + [s for _, s in R]
    ids = intern_tokens(strings, tok)
    flag = cs['cache_tokens']
    iidx = InvertedIndex(L, 1, tok, cache_size_flag=flag)
    n = 'v%d_' % gi
    defs = ['Definition %stbl := %s.' % (n, table_lit(L)),
            'Definition %stok := %s.' % (n, TOKFUN % tokmap_lit(strings, tok, ids)),
            'Definition %sbuilt := inverted_index_build %stbl (PInt 1) %s %s %stok.'
            % (n, n, C.pyval_lit(flag), C.pyval_lit(cs['cache_empty']), n)]
    info = {'tokenizer': cs['kind'], 'ltable': [s for _, s in L], 'rtable': [s for _, s in R],
            'cache_size_flag': flag, 'cache_empty_records': cs['cache_empty'], 'observed': {}}
    ret = iidx.build(cs['cache_empty'])
    index_i = {ids[w]: v for w, v in iidx.index.items()}
    exprs = ['pv_same %sbuilt %s' % (n, C.pyval_lit((index_i, iidx.size_cache, ret)))]
    labels = ['inverted_index_build']
    info['observed']['build'] = {'index': repr(iidx.index), 'size_cache': iidx.size_cache, 'returned': repr(ret)}
    of = OverlapFilter(tok, 1)
    info['observed']['find_candidates'] = []
    for j, (_, s) in enumerate(R):
        probe = tok.tokenize(s)
        cand = of.find_candidates(probe, iidx)
        info['observed']['find_candidates'].append(repr(cand))
        pl = C.pyval_lit([ids[w] for w in probe])
        exprs.append('pv_same (overlap_filter_find_candidates %s %s) %s' % (pl, C.pyval_lit(index_i), C.pyval_lit(cand)))
        labels.append('overlap_filter_find_candidates[r%d] on the real index' % j)
        exprs.append('match %sbuilt with PTuple [i_; _; _] => pv_same (overlap_filter_find_candidates %s i_) %s '
                     '| _ => false end' % (n, pl, C.pyval_lit(cand)))
        labels.append('overlap_filter_find_candidates[r%d] on the generated build' % j)
    return '\n'.join(defs), exprs, labels, info, bool(iidx.index)


def run(seed, n):
    rng = random.Random(seed + 911)
    res = {'evaluations': 0, 'nontrivial': 0, 'distribution': {}, 'differ': [], 'spec_fail': [],
           'exceptions': [], 'samples': []}
    groups, meta = [], []
    for k in range(n):
        cs = gen_case(rng)
        try:
            which = rng.choice(['position', 'position', 'prefix', 'size'])
            if cs['measure'] == 'OVERLAP' and rng.random() < 0.5:
                which = 'inverted'
            defs, exprs, labels, info, nontriv = {'inverted': inverted_case, 'position': position_case,
                                                  'prefix': prefix_case, 'size': size_case}[which](k, cs)
        except Exception as e:  # noqa   (constructor rejected the arguments: not a case)
            res['exceptions'].append({'case': k, 'call': {'measure': cs['measure'], 'threshold': cs['t'],
                                                          'observed_exception': '%s: %s' % (type(e).__name__, e)}})
            continue
        key = '%s/%s' % (which, cs['measure'] if which != 'inverted' else 'tokens')
        res['distribution'][key] = res['distribution'].get(key, 0) + 1
        res['evaluations'] += len(exprs)
        res['nontrivial'] += 1 if nontriv else 0
        groups.append((defs, exprs))
        meta.append((k, labels, info))
        if len(res['samples']) < 2:
            res['samples'].append(info)
    bad = C.run_groups('index_%d' % seed, IMPORTS, groups, shard=40)
    for gi, ei in sorted(bad):
        k, labels, info = meta[gi]
        res['differ'].append({'case': k, 'which': 'generated %s vs the real method' % labels[ei], 'call': info})
    return res


if __name__ == '__main__':
    import json
    import time
    t0 = time.time()
    r = run(int(sys.argv[1]) if len(sys.argv) > 1 else 1, int(sys.argv[2]) if len(sys.argv) > 2 else 200)
    print('EVAL', r['evaluations'], 'NONTRIVIAL', r['nontrivial'], 'DIFFER', len(r['differ']), 'SPEC_FAIL',
          len(r['spec_fail']), 'EXC', len(r['exceptions']), 'WALL %.1fs' % (time.time() - t0))
    print(json.dumps(r['distribution'], sort_keys=True))
    for d in (r['differ'] + r['spec_fail'] + r['exceptions'])[:4]:
        print(json.dumps(d, default=str)[:1200])
