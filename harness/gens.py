"""Generators shared by the correspondence runs.  Every random choice derives from one
random.Random(seed) passed in by the caller, so that a disagreement replays exactly."""
import math
import struct

MEASURES_SET = ['JACCARD', 'COSINE', 'DICE']
ALL_FILTER_MEASURES = ['JACCARD', 'COSINE', 'DICE', 'OVERLAP', 'EDIT_DISTANCE']


def ulp_shift(x, k):
    """x moved by k units in the last place (k may be negative)."""
    b = struct.unpack('<q', struct.pack('<d', x))[0]
    return struct.unpack('<d', struct.pack('<q', b + k))[0]


def threshold(rng, cls=None):
    """A threshold in (0,1] from one of several classes; returns (class name, float)."""
    classes = ['k/100', 'k/1000', 'n/d', 'n/d+-ulp', 'sqrt(n/d)', 'uniform', 'one', 'dice-like',
               'jac-like', 'n/d+-1e-5', 'cos-like+-1e-5']
    c = cls or rng.choice(classes)
    if c == 'k/100':
        t = rng.randint(1, 100) / 100
    elif c == 'k/1000':
        t = rng.randint(1, 1000) / 1000
    elif c == 'n/d':
        d = rng.randint(1, 40)
        t = rng.randint(1, d) / d
    elif c == 'n/d+-ulp':
        d = rng.randint(1, 40)
        t = ulp_shift(rng.randint(1, d) / d, rng.choice([-2, -1, 1, 2]))
    elif c == 'sqrt(n/d)':
        d = rng.randint(1, 30)
        t = math.sqrt(rng.randint(1, d) / d)
    elif c == 'uniform':
        t = rng.uniform(0.01, 1.0)
    elif c == 'dice-like':
        a, b = rng.randint(1, 20), rng.randint(1, 20)
        o = rng.randint(1, min(a, b))
        t = 2.0 * o / (a + b)
    elif c == 'jac-like':
        a, b = rng.randint(1, 20), rng.randint(1, 20)
        o = rng.randint(1, min(a, b))
        t = o / (a + b - o)
    elif c == 'n/d+-1e-5':
        # 5 significant decimals next to a ratio: the size bounds round at 4 decimals, so the window
        # and the required overlap can disagree here
        d = rng.randint(1, 30)
        t = round(rng.randint(1, d) / d, 5) + rng.choice([-2e-5, -1e-5, 1e-5, 2e-5])
    elif c == 'cos-like+-1e-5':
        a, b = rng.randint(1, 25), rng.randint(1, 45)
        o = rng.randint(1, min(a, b))
        t = round(o / math.sqrt(a * b), rng.choice([3, 4, 5])) + rng.choice([-1e-5, 0.0, 1e-5])
    else:
        t = 1.0
    if not (0.0 < t <= 1.0):
        t = min(max(t, 2.0 ** -20), 1.0)
    return c, t


def any_threshold_value(rng):
    """Threshold objects as users pass them: floats, sometimes the int 1."""
    if rng.random() < 0.05:
        return 'int1', 1
    return threshold(rng)
