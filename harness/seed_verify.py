"""seed_verify.py Cxx [check ids...]: confirm a seeded change delivered in /tmp/mutout_Cxx (+ its
worktree /tmp/mut_Cxx): patch applies to a fresh scratch worktree, baseline tests still pass, the
demonstration passes on the unchanged tree and fails on the changed one; then run our checks
against it (patch applied to /repo, undone afterwards) and record everything in
/verif/seeded/<id>/meta.json."""
import json, os, shutil, subprocess, sys, xml.etree.ElementTree as ET
import atexit, glob

# a drill runs the checks against a MUTATED /repo: the evidence files they write must not survive it
evidence_backup = {f: open(f).read() for f in glob.glob('/verif/evidence/*.json')}


def _restore_evidence():
    for f, txt in evidence_backup.items():
        open(f, 'w').write(txt)


atexit.register(_restore_evidence)

def sh(cmd, **kw):
    return subprocess.run(cmd, shell=True, capture_output=True, text=True, **kw)

pid = sys.argv[1]
checks = sys.argv[2:] or [pid]
name = os.environ.get('SEED_NAME', pid + '_agent')
out = os.environ.get('SEED_SRC', '/tmp/mutout_%s' % pid)
dst = '/verif/seeded/%s' % name
os.makedirs(dst, exist_ok=True)
for f in ('patch.diff', 'demo.py', 'meta.json'):
    shutil.copy(os.path.join(out, f), os.path.join(dst, f))
meta = json.load(open(os.path.join(dst, 'meta.json')))
scratch = '/tmp/seedchk_%s' % pid
sh('git -C /repo worktree remove --force %s' % scratch)
r = sh('git -C /repo worktree add --detach %s HEAD' % scratch)
assert r.returncode == 0, r.stderr
r = sh('git -C %s apply %s/patch.diff' % (scratch, dst))
meta['patch_applies'] = r.returncode == 0
env = 'PYTHONWARNINGS=ignore PYTHONHASHSEED=0'
os.makedirs("/tmp/emptycwd", exist_ok=True)
d0 = sh('cd /tmp/emptycwd && PYTHONPATH=/repo %s timeout 900 /venv/bin/python %s/demo.py' % (env, dst))
d1 = sh('cd /tmp/emptycwd && PYTHONPATH=%s %s timeout 900 /venv/bin/python %s/demo.py' % (scratch, env, dst))
meta['demo_unchanged_exit'] = d0.returncode
meta['demo_changed_exit'] = d1.returncode
meta['demo_changed_tail'] = (d1.stdout + d1.stderr)[-600:]
sh('cd %s && /venv/bin/python -m pytest -q -p no:cacheprovider --timeout=900 --continue-on-collection-errors --junitxml=/tmp/seed_%s.xml' % (scratch, pid))
base = set(json.load(open('/root/.vp/BASELINE.json'))['stable_pass'])
passed = set()
for tc in ET.parse('/tmp/seed_%s.xml' % pid).iter('testcase'):
    if not any(c.tag in ('failure', 'error', 'skipped') for c in tc):
        passed.add(tc.get('classname') + '::' + tc.get('name'))
os.remove('/tmp/seed_%s.xml' % pid)
meta['baseline_tests_still_passing'] = len(base - passed) == 0
meta['baseline_tests_broken'] = sorted(base - passed)[:5]
sh('git -C /repo worktree remove --force %s' % scratch)
confirmed = meta['patch_applies'] and d0.returncode == 0 and d1.returncode == 1 and meta['baseline_tests_still_passing']
meta['confirmed'] = confirmed
meta['ran'] = ['demo.py on /repo (unchanged) and on a scratch worktree with the patch', 'pinned test suite on the scratch worktree',
               './check <id> --tier quick with the patch applied to /repo (undone afterwards)']
res = {}
if confirmed:
    assert sh('git -C /repo status --porcelain').stdout.strip() == '', '/repo not clean'
    sh('git -C /repo apply %s/patch.diff' % dst)
    try:
        for c in checks:
            r = sh('cd /verif && ./check %s --tier quick' % c)
            lines = [l for l in r.stdout.splitlines() if l.startswith(('VIOLATION', 'KNOWN-FINDING')) or 'violations=' in l]
            res[c] = {'exit': r.returncode, 'lines': [l[:300] for l in lines]}
            for l in lines:
                if l.startswith('VIOLATION'):
                    rp = l.split('replay=')[1].split()[0]
                    if os.path.exists(rp):
                        shutil.copy(rp, os.path.join(dst, 'replay_%s_%s' % (c, os.path.basename(rp))))
                        break
    finally:
        sh('git -C /repo checkout -- .')
meta['checks'] = res
meta['detected_by'] = [c for c, v in res.items() if v['exit'] == 1]
json.dump(meta, open(os.path.join(dst, 'meta.json'), 'w'), indent=1)
print(json.dumps({k: meta[k] for k in ('confirmed', 'demo_unchanged_exit', 'demo_changed_exit', 'baseline_tests_still_passing', 'detected_by')}))
for c, v in res.items():
    print(c, v['exit'], v['lines'][-1][:200] if v['lines'] else '')
