"""Shared machinery of the checks: paths, Coq literals, building, case evaluation, evidence."""
import fcntl
import hashlib
import json
import math
import os
import re
import shutil
import subprocess
import sys
import time

VERIF = os.path.dirname(os.path.dirname(os.path.abspath(__file__)))
REPO = os.environ.get('VERIF_REPO', '/repo')
COQ = os.path.join(VERIF, 'coq')
WORK = os.path.join(VERIF, '.work')
EVID = os.path.join(VERIF, 'evidence')
REPLAYS = os.path.join(VERIF, 'replays')
PY = '/venv/bin/python'
NPROC = int(os.environ.get('VERIF_NPROC', '16'))

QFLAGS = []
for d in ['Num', 'Base', 'Gen', 'Ext', 'Model', 'Spec', 'Proofs', 'Properties']:
    QFLAGS += ['-Q', os.path.join(COQ, d), 'SSJ']

ENVELOPE = 'set measures: 2^-30 <= t <= 1 (finite double); token counts < 2^20; rows < 2^31; q < 2^10'


def impl_env():
    env = dict(os.environ)
    env['PYTHONPATH'] = REPO
    env['PYTHONHASHSEED'] = env.get('VERIF_HASHSEED', '0')
    env['PYTHONWARNINGS'] = 'ignore'
    env['PY_STRINGSIMJOIN_VERIF'] = '1'
    return env


# ----------------------------------------------------------------------------- literals
def coq_str(s):
    out = []
    for ch in s:
        if ch == '"':
            out.append('""')
        elif 32 <= ord(ch) < 127:
            out.append(ch)
        else:
            raise ValueError('non-ascii in Coq string literal: %r' % s)
    return '"' + ''.join(out) + '"'


def z(n):
    n = int(n)
    return str(n) if n >= 0 else '(%d)' % n


def float_lit(x):
    x = float(x)
    if math.isnan(x):
        return 'Fnan'
    if math.isinf(x):
        return '(Finf %s)' % ('true' if x < 0 else 'false')
    if x == 0.0:
        return '(Fzero %s)' % ('true' if math.copysign(1.0, x) < 0 else 'false')
    m, e = x.hex().split('p')
    sign = m.startswith('-')
    m = m.lstrip('-')[2:]
    ip, _, fp = m.partition('.')
    mant = int(ip + fp, 16)
    exp = int(e) - 4 * len(fp)
    if sign:
        mant = -mant
    return '(mkF %s %s)' % (z(mant), z(exp))


def pyval_lit(v):
    import numpy as np
    if v is None:
        return 'PNone'
    if isinstance(v, (bool, np.bool_)):
        return '(PBool %s)' % ('true' if v else 'false')
    if isinstance(v, (int, np.integer)):
        return '(PInt %s)' % z(v)
    if isinstance(v, (float, np.floating)):
        return '(PFloat %s)' % float_lit(v)
    if isinstance(v, str):
        return '(PStr %s)' % coq_str(v)
    if isinstance(v, list):
        return '(PList [%s])' % '; '.join(pyval_lit(e) for e in v)
    if isinstance(v, tuple):
        return '(PTuple [%s])' % '; '.join(pyval_lit(e) for e in v)
    if isinstance(v, dict):
        return '(PDict [%s])' % '; '.join('PTuple [%s; %s]' % (pyval_lit(k), pyval_lit(x))
                                           for k, x in v.items())
    if isinstance(v, BaseException):
        return '(PExc %s)' % coq_str(type(v).__name__)
    raise ValueError('no pyval literal for %r' % (v,))


def zlist(xs):
    return '[%s]' % '; '.join(z(x) for x in xs)


def natlist(xs):
    return '[%s]%%nat' % '; '.join(str(int(x)) for x in xs)


# ----------------------------------------------------------------------------- locking / build
class Lock:
    def __enter__(self):
        self.f = open(os.path.join(VERIF, '.build.lock'), 'w')
        fcntl.flock(self.f, fcntl.LOCK_EX)
        return self

    def __exit__(self, *a):
        fcntl.flock(self.f, fcntl.LOCK_UN)
        self.f.close()


def run(cmd, timeout=None, cwd=None, env=None, stdin=None):
    t0 = time.time()
    try:
        p = subprocess.run(cmd, cwd=cwd, env=env, input=stdin, stdout=subprocess.PIPE,
                           stderr=subprocess.STDOUT, timeout=timeout, text=True)
        return p.returncode, p.stdout, time.time() - t0
    except subprocess.TimeoutExpired as e:
        out = e.stdout if isinstance(e.stdout, str) else (e.stdout or b'').decode('utf8', 'replace')
        return 124, (out or '') + '\n[timeout after %ss]' % timeout, time.time() - t0


def regenerate():
    """Run the translators on REPO's working tree.  Returns (ok, status dict)."""
    rc, out, _ = run([PY, os.path.join(VERIF, 'harness', 'translate', 'gen.py'), '--repo', REPO,
                      '--out', os.path.join(COQ, 'Gen')], timeout=120)
    st = {}
    try:
        st = json.load(open(os.path.join(COQ, 'Gen', 'gen_status.json')))
    except Exception:
        pass
    return rc == 0, st, out


def ensure_makefile():
    mk = os.path.join(COQ, 'Makefile')
    cp = os.path.join(COQ, '_CoqProject')
    if not os.path.exists(mk) or os.path.getmtime(mk) < os.path.getmtime(cp):
        rc, out, _ = run(['coq_makefile', '-f', '_CoqProject', '-o', 'Makefile'], cwd=COQ, timeout=60)
        if rc != 0:
            raise RuntimeError('coq_makefile failed: ' + out)


def make(targets, timeout=1500, keep_going=True):
    """Full .vo build of the given targets (relative to coq/).  Returns (ok, log, failed_files)."""
    ensure_makefile()
    cmd = ['make', '-j%d' % NPROC] + (['-k'] if keep_going else []) + list(targets)
    rc, out, wall = run(cmd, cwd=COQ, timeout=timeout)
    failed = []
    for m in re.finditer(r'^File "\./([^"]+)", line (\d+)', out, re.M):
        if m.group(1) not in failed:
            failed.append(m.group(1))
    for m in re.finditer(r"\*\*\* \[[^\]]*: ([^\]\s]+\.vo)\]", out):
        f = m.group(1)[:-1]
        if f not in failed:
            failed.append(f)
    return rc == 0, out, failed


def cone(target_v):
    """All .v files (relative to coq/) the given file transitively depends on, itself included."""
    dfile = os.path.join(COQ, '.Makefile.d')
    deps = {}
    if os.path.exists(dfile):
        for line in open(dfile):
            if ':' not in line:
                continue
            lhs, rhs = line.split(':', 1)
            tgt = [t for t in lhs.split() if t.endswith('.vo')]
            if not tgt:
                continue
            key = tgt[0][:-1]
            deps[key] = [r[:-1] for r in rhs.split() if r.endswith('.vo') and not r.startswith('/')]
    seen = []

    def go(f):
        if f in seen:
            return
        seen.append(f)
        for d in deps.get(f, []):
            go(d)
    go(target_v)
    return seen


OBL_RE = re.compile(r'^\s*(Lemma|Theorem|Corollary|Example|Fact|Proposition|Remark)\s+([A-Za-z0-9_\']+)', re.M)


def obligations(files):
    out = []
    for f in files:
        p = os.path.join(COQ, f)
        if os.path.exists(p):
            for m in OBL_RE.finditer(open(p).read()):
                out.append('%s:%s' % (f, m.group(2)))
    return out


FORBIDDEN = re.compile(r'\b(Admitted|admit|Axiom|Axioms|Parameter|Parameters|Conjecture|Abort All|'
                       r'Unset Guard Checking|Unset Positivity Checking|Unset Universe Checking|'
                       r'bypass_check|Admit Obligations|type-in-type|impredicative-set)\b')


def forbidden_scan():
    """Grep the whole development (hand-written and generated) for anything that would declare
    an axiom or switch off a kernel check.  Comments are stripped first."""
    hits = []
    for root, _, files in os.walk(COQ):
        for fn in files:
            if not fn.endswith('.v'):
                continue
            p = os.path.join(root, fn)
            txt = open(p).read()
            txt = strip_comments(txt)
            for m in FORBIDDEN.finditer(txt):
                hits.append('%s: %s' % (os.path.relpath(p, COQ), m.group(0)))
    txt = open(os.path.join(COQ, '_CoqProject')).read()
    for m in FORBIDDEN.finditer(txt):
        hits.append('_CoqProject: ' + m.group(0))
    return hits


def strip_comments(txt):
    out = []
    depth = 0
    i = 0
    instr = False
    while i < len(txt):
        if not instr and txt.startswith('(*', i):
            depth += 1
            i += 2
            continue
        if not instr and depth and txt.startswith('*)', i):
            depth -= 1
            i += 2
            continue
        ch = txt[i]
        if depth == 0:
            if ch == '"':
                instr = not instr
            out.append(ch)
        i += 1
    return ''.join(out)


def print_assumptions(prop_file):
    """Parse the `Print Assumptions` output recorded while compiling Properties/<X>.v."""
    logp = os.path.join(COQ, prop_file.replace('.v', '.assumptions'))
    pa_dir = os.path.join(WORK, 'pa')
    os.makedirs(pa_dir, exist_ok=True)
    rc, out, _ = run(['coqc'] + QFLAGS + [os.path.join(COQ, prop_file), '-o',
                                          os.path.join(pa_dir, os.path.basename(prop_file) + 'o')],
                     timeout=600, cwd=COQ)
    axioms = set()
    closed = 0
    cur = []
    # Print Assumptions prints either "Closed under the global context" or a block
    #   Axioms:
    #   <qualified name> : <type, possibly continued on indented lines>
    # `Check thm.` output ("thm : statement") of names defined in the property file itself is not
    # part of such a block.
    own = set(re.findall(r'^\s*(?:Theorem|Lemma|Corollary|Definition|Example)\s+([A-Za-z0-9_\']+)',
                         open(os.path.join(COQ, prop_file)).read(), re.M))
    lines = out.splitlines()
    in_block = False
    for k, line in enumerate(lines):
        if line.startswith('Closed under the global context'):
            closed += 1
            in_block = False
            continue
        if line.strip() == 'Axioms:':
            in_block = True
            continue
        if not in_block:
            continue
        if line.startswith(' ') or not line.strip():
            continue
        m2 = re.match(r'^([A-Za-z_][A-Za-z0-9_\.\']*)(\s*:|\s*$)', line)
        if not m2 or m2.group(1) in own:
            in_block = False
            continue
        axioms.add(m2.group(1))
    return rc == 0, sorted(axioms), closed, out


def coqchk(prop_file, timeout=3000):
    """Re-check the compiled property file and everything it depends on with the independent
    checker; returns (ok, axioms listed in its context summary, tail of the output)."""
    mod = 'SSJ.' + os.path.basename(prop_file)[:-2]
    rc, out, wall = run(['coqchk', '-silent', '-o'] + QFLAGS + [mod], timeout=timeout, cwd=COQ)
    axioms = []
    m = re.search(r'\* Axioms:(.*?)\n\s*\n\* Constants/Inductives relying on type-in-type', out, re.S)
    if m:
        body = m.group(1).strip()
        if body != '<none>':
            axioms = [l.strip() for l in body.splitlines() if l.strip()]
    bad = []
    for key in ('type-in-type', 'unsafe (co)fixpoints', 'positivity is assumed'):
        mm = re.search(re.escape(key) + r':(.*?)(\n\s*\n|$)', out, re.S)
        if mm and mm.group(1).strip() not in ('<none>', ''):
            bad.append('%s: %s' % (key, mm.group(1).strip()[:200]))
    return rc == 0 and not bad, axioms, out[-1500:], round(wall, 1), bad


# ----------------------------------------------------------------------------- case evaluation
def _shard_files(tag, imports, defs, cases, shard):
    d = os.path.join(WORK, 'cases', tag)
    shutil.rmtree(d, ignore_errors=True)
    os.makedirs(d)
    files = []
    for k in range(0, len(cases), shard):
        chunk = cases[k:k + shard]
        fn = os.path.join(d, 'c%04d.v' % (k // shard))
        with open(fn, 'w') as f:
            f.write('From Coq Require Import ZArith List String SpecFloat.\n')
            f.write('From SSJ Require Import F64 PyNum CaseFmt %s.\n' % ' '.join(imports))
            f.write('Import ListNotations.\nOpen Scope string_scope.\nOpen Scope Z_scope.\n')
            f.write(defs + '\n')
            f.write('Definition cases_ : list (nat * bool) := [\n')
            # indices are LOCAL to the shard (large nat literals make coqc slow and noisy); run_cases adds k
            f.write(';\n'.join(' (%d%%nat, %s)' % (i, c) for i, c in enumerate(chunk)))
            f.write('\n].\nEval vm_compute in (failing cases_).\n')
        files.append((fn, k))
    return d, files


def _coqc_one(fn):
    off = 0
    if isinstance(fn, tuple):
        fn, off = fn
    rc, out, wall = run(['coqc'] + QFLAGS + [fn], timeout=1800, cwd=os.path.dirname(fn))
    return (fn, off), rc, out


def run_cases(tag, imports, cases, defs='', shard=300):
    """Evaluate boolean case expressions inside Coq (vm_compute).  Returns the list of failing
    case indices, or raises RuntimeError if a shard does not compile (broken correspondence)."""
    if not cases:
        return []
    from concurrent.futures import ThreadPoolExecutor
    d, files = _shard_files(tag, imports, defs, cases, shard)
    failing = []
    with ThreadPoolExecutor(max_workers=NPROC) as ex:
        for (fn, off), rc, out in ex.map(_coqc_one, files):
            if rc != 0:
                raise RuntimeError('case file %s does not evaluate:\n%s' % (fn, out[-3000:]))
            m = re.search(r'=\s*\[(.*?)\]\s*:\s*list nat', out, re.S)
            if not m:
                raise RuntimeError('cannot parse coqc output for %s:\n%s' % (fn, out[-2000:]))
            body = m.group(1).replace('%nat', '')
            failing += [off + int(t) for t in re.findall(r'\d+', body)]
    shutil.rmtree(d, ignore_errors=True)
    return sorted(failing)


def run_groups(tag, imports, groups, shard=150):
    """groups: list of (defs, [bool exprs]); names inside must already be unique per group.
    Returns a set of (group index, expr index) that evaluated to false."""
    if not groups:
        return set()
    from concurrent.futures import ThreadPoolExecutor
    d = os.path.join(WORK, 'cases', tag)
    shutil.rmtree(d, ignore_errors=True)
    os.makedirs(d)
    files = []
    index = []   # global case number -> (group, expr)
    for k in range(0, len(groups), shard):
        fn = os.path.join(d, 'g%04d.v' % (k // shard))
        with open(fn, 'w') as f:
            f.write('From Coq Require Import ZArith List String SpecFloat.\n')
            f.write('From SSJ Require Import F64 PyNum CaseFmt %s.\n' % ' '.join(imports))
            f.write('Import ListNotations.\nOpen Scope string_scope.\nOpen Scope Z_scope.\n')
            lines = []
            base = len(index)
            for gi in range(k, min(k + shard, len(groups))):
                defs, exprs = groups[gi]
                f.write(defs + '\n')
                for ei, e in enumerate(exprs):
                    lines.append(' (%d%%nat, %s)' % (len(index) - base, e))     # shard-local number
                    index.append((gi, ei))
            f.write('Definition cases_ : list (nat * bool) := [\n' + ';\n'.join(lines) + '\n].\n')
            f.write('Eval vm_compute in (failing cases_).\n')
        files.append((fn, base))
    bad = set()
    with ThreadPoolExecutor(max_workers=NPROC) as ex:
        for (fn, base), rc, out in ex.map(_coqc_one, files):
            if rc != 0:
                raise RuntimeError('case file %s does not evaluate:\n%s' % (fn, out[-3000:]))
            m = re.search(r'=\s*\[(.*?)\]\s*:\s*list nat', out, re.S)
            if not m:
                raise RuntimeError('cannot parse coqc output for %s:\n%s' % (fn, out[-2000:]))
            for t in re.findall(r'\d+', m.group(1).replace('%nat', '')):
                bad.add(index[base + int(t)])
    shutil.rmtree(d, ignore_errors=True)
    return bad


def coq_eval(imports, expr, defs=''):
    """Evaluate one expression with vm_compute and return Coq's printed answer (diagnostics)."""
    d = os.path.join(WORK, 'eval')
    os.makedirs(d, exist_ok=True)
    fn = os.path.join(d, 'e%d_%d.v' % (os.getpid(), int(time.time() * 1e6) % 10 ** 9))
    with open(fn, 'w') as f:
        f.write('From Coq Require Import ZArith List String SpecFloat.\n')
        f.write('From SSJ Require Import F64 PyNum CaseFmt %s.\n' % ' '.join(imports))
        f.write('Import ListNotations.\nOpen Scope string_scope.\nOpen Scope Z_scope.\n')
        f.write(defs + '\n')
        f.write('Eval vm_compute in (%s).\n' % expr)
    rc, out, _ = run(['coqc'] + QFLAGS + [fn], timeout=600, cwd=d)
    for ext in ('.v', '.vo', '.glob', '.vok', '.vos'):
        try:
            os.remove(fn[:-2] + ext)
        except OSError:
            pass
    return rc, out


# ----------------------------------------------------------------------------- evidence
def write_evidence(pid, tier, seed, coverage, assumptions, wall, violations, level='proof'):
    os.makedirs(EVID, exist_ok=True)
    ev = {'property_id': pid, 'tier': tier, 'seed': int(seed), 'level': level,
          'coverage': coverage, 'assumptions': assumptions, 'wall_s': round(wall, 2),
          'violations': int(violations)}
    with open(os.path.join(EVID, pid + '.json'), 'w') as f:
        json.dump(ev, f, indent=1, sort_keys=True, default=str)
    return ev


def write_replay(pid, payload):
    os.makedirs(REPLAYS, exist_ok=True)
    h = hashlib.sha256(json.dumps(payload, sort_keys=True, default=str).encode()).hexdigest()[:12]
    p = os.path.join(REPLAYS, '%s-%s.json' % (pid, h))
    with open(p, 'w') as f:
        json.dump(payload, f, indent=1, sort_keys=True, default=str)
    return p


def load_known_findings():
    p = os.path.join(VERIF, 'known_findings.json')
    if os.path.exists(p):
        return json.load(open(p))
    return []
