"""Search for a failing input at SCALE, used only after a proof obligation or the correspondence broke
and the regular streams (small tables) found nothing: a few large cases with plain-Python oracles
(brute-force similarity, row-wise predicates, exact pair counts).  These are searches for a replay,
never evidence that a property holds."""
import os
import random
import sys

import numpy as np
import pandas as pd

sys.path.insert(0, os.path.dirname(os.path.abspath(__file__)))
import tables as T  # noqa: E402


def _tok():
    import py_stringmatching as sm
    return sm.WhitespaceTokenizer(return_set=True)


def _tables(rng, nl, nr, vocab=60, lo=3, hi=8, index='repeat'):
    words = ['w%03d' % i for i in range(vocab)]
    # every left row also carries a token of its own (rare tokens: first in the global order)
    L = pd.DataFrame({'id': range(1, nl + 1),
                      's': pd.Series([' '.join(rng.sample(words, rng.randint(lo, hi)) + ['u%04d' % i])
                                      for i in range(nl)], dtype=object)})
    R = pd.DataFrame({'id': range(1001, 1001 + nr),
                      's': pd.Series([' '.join(rng.sample(words, rng.randint(lo, hi))) for _ in range(nr)], dtype=object)})
    # some right rows are near-copies of left rows so that pairs qualify
    for j in range(0, nr, 3):
        toks = L['s'].iloc[rng.randrange(nl)].split(' ')
        if len(toks) > 3 and rng.random() < 0.5:
            toks = toks[:-1]
        rng.shuffle(toks)
        R.iloc[j, 1] = ' '.join(toks)
    if index == 'repeat':
        L.index = [i % 7 for i in range(nl)]
        R.index = [i % 5 for i in range(nr)]
    return L, R


def _jac(a, b):
    a, b = set(a.split()), set(b.split())
    return len(a & b) / len(a | b) if (a | b) else 1.0


def big_rows(seed=1):
    """1200 x 40 rows: Jaccard join vs brute force (n_jobs 1 and 3); PositionFilter candidates within SizeFilter's."""
    import py_stringsimjoin as ssj
    from py_stringsimjoin.join.jaccard_join_py import jaccard_join_py
    rng = random.Random(seed)
    out = []
    L, R = _tables(rng, 1200, 40)
    tok = _tok()
    t = 0.8
    exp = set()
    for lk, ls in zip(L['id'], L['s']):
        for rk, rs in zip(R['id'], R['s']):
            s = _jac(ls, rs)
            if s >= t and round(s, 4) >= t:
                exp.add((lk, rk))
    for nj in (1, 3):
        df = jaccard_join_py(L, R, 'id', 'id', 's', 's', tok, t, n_jobs=nj, show_progress=False)
        got = list(zip(df['l_id'], df['r_id']))
        missing = sorted(exp - set(got))[:5]
        dup = len(got) != len(set(got))
        if missing or dup:
            out.append({'what': 'jaccard_join on 1200 x 40 rows (n_jobs=%d): %s' % (
                nj, ('qualifying pairs missing: %r' % missing) if missing else 'a key pair is reported more than once'),
                'class': {'kind': 'scale: join vs brute force', 'entry': 'JACCARD'},
                'call': {'generator': 'search_scale.big_rows', 'seed': seed, 'n_jobs': nj, 'threshold': t,
                         'missing_pairs': missing, 'rows': [len(L), len(R)]}})
            break
    pos = ssj.PositionFilter(tok, 'JACCARD', t).filter_tables(L, R, 'id', 'id', 's', 's', show_progress=False)
    siz = ssj.SizeFilter(tok, 'JACCARD', t).filter_tables(L, R, 'id', 'id', 's', 's', show_progress=False)
    extra = sorted(set(zip(pos['l_id'], pos['r_id'])) - set(zip(siz['l_id'], siz['r_id'])))[:5]
    if extra:
        out.append({'what': 'PositionFilter.filter_tables keeps pairs that SizeFilter drops (1200 x 40 rows): %r' % extra,
                    'class': {'kind': 'scale: position within size', 'entry': 'position'},
                    'call': {'generator': 'search_scale.big_rows', 'seed': seed, 'threshold': t, 'pairs': extra}})
    lost = sorted(exp - set(zip(pos['l_id'], pos['r_id'])))[:5]
    if lost:
        out.append({'what': 'PositionFilter.filter_tables drops qualifying pairs (1200 x 40 rows): %r' % lost,
                    'class': {'kind': 'scale: filter vs brute force', 'entry': 'position'},
                    'call': {'generator': 'search_scale.big_rows', 'seed': seed, 'threshold': t, 'pairs': lost}})
    return out


def big_candset(seed=1):
    """apply_matcher / filter_candset on 1600..3300 candidate pairs, n_jobs 1..3, against the row-wise predicate."""
    import py_stringsimjoin as ssj
    import py_stringmatching as sm
    from py_stringsimjoin.matcher.apply_matcher import apply_matcher
    rng = random.Random(seed)
    out = []
    L, R = _tables(rng, 60, 55, index='none')
    tok = _tok()
    pairs = [(a, b) for a in L['id'] for b in R['id']]
    rng.shuffle(pairs)
    for n in (1600, 3300):
        cand = pd.DataFrame({'_id': range(n), 'l_id': [p[0] for p in pairs[:n]], 'r_id': [p[1] for p in pairs[:n]]})
        lv, rv = dict(zip(L['id'], L['s'])), dict(zip(R['id'], R['s']))
        exp = [(i, a, b) for i, (a, b) in enumerate(pairs[:n]) if _jac(lv[a], rv[b]) >= 0.4]
        for nj in (1, 2, 3):
            df = apply_matcher(cand, 'l_id', 'r_id', L, R, 'id', 'id', 's', 's', tok, sm.Jaccard().get_raw_score,
                               0.4, '>=', n_jobs=nj, show_progress=False)
            got = list(zip(df['_id'], df['l_id'], df['r_id']))
            if got != exp:
                out.append({'what': 'apply_matcher on %d candidate pairs with n_jobs=%d returns %d rows, the row-wise predicate keeps %d'
                                    % (n, nj, len(got), len(exp)),
                            'class': {'kind': 'scale: matcher vs row-wise predicate', 'entry': 'apply_matcher'},
                            'call': {'generator': 'search_scale.big_candset', 'seed': seed, 'candset_rows': n, 'n_jobs': nj}})
                return out
            flt = ssj.OverlapFilter(tok, 2)
            fc = flt.filter_candset(cand, 'l_id', 'r_id', L, R, 'id', 'id', 's', 's', n_jobs=nj, show_progress=False)
            expf = [i for i, (a, b) in enumerate(pairs[:n]) if len(set(lv[a].split()) & set(rv[b].split())) >= 2]
            if fc['_id'].tolist() != expf:
                out.append({'what': 'OverlapFilter.filter_candset on %d candidate pairs with n_jobs=%d keeps %d rows, row-wise filter_pair keeps %d'
                                    % (n, nj, len(fc), len(expf)),
                            'class': {'kind': 'scale: candset vs row-wise filter_pair', 'entry': 'filter_candset'},
                            'call': {'generator': 'search_scale.big_candset', 'seed': seed, 'candset_rows': n, 'n_jobs': nj}})
                return out
    return out


def big_missing(seed=1):
    """more than 50 000 missing-value pairs: each exactly once (joins and filter_tables)."""
    import py_stringsimjoin as ssj
    from py_stringsimjoin.join.jaccard_join_py import jaccard_join_py
    rng = random.Random(seed)
    out = []
    L, R = _tables(rng, 300, 300, index='none')
    lmiss = set(rng.sample(range(300), 200))
    L['s'] = pd.Series([None if i in lmiss else v for i, v in enumerate(L['s'])], dtype=object)
    rmiss = set(rng.sample(range(300), 40))
    R['s'] = pd.Series([np.nan if i in rmiss else v for i, v in enumerate(R['s'])], dtype=object)
    tok = _tok()
    exp = set()
    for i, lk in enumerate(L['id']):
        for j, rk in enumerate(R['id']):
            if i in lmiss or j in rmiss:
                exp.add((lk, rk))
    for name, run in (('jaccard_join', lambda: jaccard_join_py(L, R, 'id', 'id', 's', 's', tok, 0.9, allow_missing=True, show_progress=False)),
                      ('SizeFilter.filter_tables', lambda: ssj.SizeFilter(tok, 'JACCARD', 0.9, True, True).filter_tables(
                          L, R, 'id', 'id', 's', 's', show_progress=False))):
        df = run()
        got = [p for p in zip(df['l_id'], df['r_id']) if p in exp]
        if len(got) != len(set(got)) or set(got) != exp:
            from collections import Counter
            c = Counter(got)
            worst = c.most_common(1)[0] if c else None
            out.append({'what': '%s with allow_missing on %d missing-value pairs: %d rows for them (%s)' % (
                name, len(exp), len(got), 'pair %r occurs %d times' % worst if worst and worst[1] > 1 else 'pairs missing'),
                'class': {'kind': 'scale: missing-value pairs exactly once', 'entry': name},
                'call': {'generator': 'search_scale.big_missing', 'seed': seed, 'expected_pairs': len(exp), 'rows_for_them': len(got)}})
            break
    return out


def odd_splits(seed=1):
    """(rows, n_jobs) pairs whose split boundaries are not exact in binary64 (61 / 7, 15 / 11, 15 / 13,
    123 / 15, 122 / 14): the join must not depend on n_jobs."""
    from py_stringsimjoin.join.jaccard_join_py import jaccard_join_py
    from py_stringsimjoin.join.overlap_join_py import overlap_join_py
    rng = random.Random(seed)
    out = []
    tok = _tok()
    for rows, nj in ((61, 7), (15, 11), (15, 13), (123, 15), (122, 14), (7, 3), (25, 6)):
        L, R = _tables(rng, 12, rows, vocab=20, index='none')
        for name, f, t in (('jaccard_join', jaccard_join_py, 0.5), ('overlap_join', overlap_join_py, 2)):
            a = f(L, R, 'id', 'id', 's', 's', tok, t, n_jobs=1, show_progress=False)
            b = f(L, R, 'id', 'id', 's', 's', tok, t, n_jobs=nj, show_progress=False)
            pa, pb = sorted(zip(a['l_id'], a['r_id'])), sorted(zip(b['l_id'], b['r_id']))
            if pa != pb:
                out.append({'what': '%s on %d right rows: n_jobs=%d returns %d pairs, n_jobs=1 returns %d (e.g. %r)' % (
                    name, rows, nj, len(pb), len(pa), sorted(set(pa) ^ set(pb))[:3]),
                    'class': {'kind': 'scale: n_jobs independence', 'entry': name},
                    'call': {'generator': 'search_scale.odd_splits', 'seed': seed, 'right_rows': rows, 'n_jobs': nj}})
                return out
    return out


PROBES = {'C01': [big_rows, odd_splits], 'C02': [big_rows], 'C04': [big_rows, big_candset], 'C07': [odd_splits, big_rows, big_candset],
          'C10': [odd_splits, big_rows, big_candset], 'C13': [odd_splits, big_rows], 'C14': [big_rows], 'C05': [big_candset],
          'C06': [big_candset], 'C08': [big_missing], 'C11': [big_missing], 'C09': [big_rows]}


def search(pid, seed=1):
    found = []
    for f in PROBES.get(pid, []):
        try:
            found += f(seed)
        except Exception as e:  # noqa
            import traceback
            found.append({'what': 'valid large call raised %s: %s' % (type(e).__name__, e),
                          'class': {'kind': 'scale: exception', 'entry': f.__name__},
                          'call': {'generator': 'search_scale.' + f.__name__, 'seed': seed,
                                   'traceback': traceback.format_exc()[-1200:]}})
        if found:
            break
    return found


if __name__ == '__main__':
    import json
    for f in (big_rows, big_candset, big_missing, odd_splits):
        import time
        t0 = time.time()
        print(f.__name__, json.dumps(f(1), default=str)[:600], round(time.time() - t0, 1))
