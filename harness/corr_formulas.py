"""Function-level correspondence for the translated files: the *generated* Gallina definitions
(coq/Gen/*.v) are evaluated inside Coq on the same arguments as the real Python functions.
This validates the translator and the Python-semantics library PyNum at once."""
import random
import sys
import os

sys.path.insert(0, os.path.dirname(os.path.abspath(__file__)))
import common as C  # noqa: E402
import gens  # noqa: E402


class Tok:
    def __init__(self, q):
        self.qval = q


def impl_call(fname, args):
    """Call the real function; returns a value or the exception instance."""
    from py_stringsimjoin.filter import filter_utils as fu
    try:
        if fname in ('get_size_lower_bound', 'get_size_upper_bound'):
            return getattr(fu, fname)(*args)
        if fname == 'get_prefix_length':
            n, m, t, q = args
            return fu.get_prefix_length(n, m, t, Tok(q))
        if fname == 'get_overlap_threshold':
            a, b, m, t, q = args
            return fu.get_overlap_threshold(a, b, m, t, Tok(q))
    except Exception as e:  # noqa
        return e
    raise ValueError(fname)


def gen_cases(rng, n):
    cases = []
    for _ in range(n):
        m = rng.choice(gens.ALL_FILTER_MEASURES + ['JACCARD', 'COSINE', 'DICE'])
        if m in ('OVERLAP', 'EDIT_DISTANCE'):
            t = rng.choice([rng.randint(0, 6), float(rng.randint(0, 6)), rng.randint(1, 3) + 0.5])
            tcls = 'int-ish'
        else:
            tcls, t = gens.any_threshold_value(rng)
        size = rng.choice([rng.randint(0, 12), rng.randint(0, 80), rng.randint(0, 3000)])
        size2 = rng.choice([rng.randint(0, 12), rng.randint(0, 80)])
        q = rng.randint(1, 5)
        f = rng.choice(['get_size_lower_bound', 'get_size_upper_bound', 'get_prefix_length',
                        'get_overlap_threshold'])
        if f in ('get_size_lower_bound', 'get_size_upper_bound'):
            args = (size, m, t)
        elif f == 'get_prefix_length':
            args = (size, m, t, q)
        else:
            args = (size, size2, m, t, q)
        cases.append((f, args, tcls))
    return cases


# Float thresholds of the integer-valued measures (filter_utils normalises them with
# int(floor(.)) under EDIT_DISTANCE and int(ceil(.)) under OVERLAP): a systematic grid, compared
# with the generated formulas like every other case; in addition the real result must be an int
# (a float here would reach range() / a slice in the filters).
FLOAT_THRESHOLDS = [2.0, 1.5, 0.5, 3.999999,                    # the repaired inputs
                    0.0, -0.0, 1e-9, 1.0, 2.0000000000000004, 6.5, 1e3 + 0.25,
                    4503599627370496.5, 9007199254740993.0, 1e300,     # beyond 2^52 / 2^53
                    -0.5, -1.5,                                  # rejected by validate_threshold only
                    float('inf'), float('-inf'), float('nan')]   # floor()/ceil() raise


def float_grid_cases():
    cases = []
    for m in ('OVERLAP', 'EDIT_DISTANCE'):
        for t in FLOAT_THRESHOLDS:
            for size, size2, q in ((0, 0, 2), (1, 3, 1), (7, 9, 2), (12, 5, 3), (80, 77, 5), (3000, 12, 4)):
                cases.append(('get_size_lower_bound', (size, m, t), 'float-grid'))
                cases.append(('get_size_upper_bound', (size, m, t), 'float-grid'))
                cases.append(('get_prefix_length', (size, m, t, q), 'float-grid'))
                cases.append(('get_overlap_threshold', (size, size2, m, t, q), 'float-grid'))
    return cases


def coq_case(f, args, result):
    return 'pv_same (%s %s) %s' % (f, ' '.join(C.pyval_lit(a) for a in args), C.pyval_lit(result))


def run(seed, n, float_grid=True):
    """Returns dict(evaluations, failing:list of case dicts, distribution)."""
    import math
    rng = random.Random(seed)
    cases = gen_cases(rng, n)
    if float_grid:
        cases += float_grid_cases()
    exprs = []
    dist = {}
    results = []
    for f, args, tcls in cases:
        r = impl_call(f, args)
        results.append(r)
        exprs.append(coq_case(f, args, r))
        key = '%s/%s' % (f, args[-3] if f == 'get_overlap_threshold' else args[1])
        dist[key] = dist.get(key, 0) + 1
    failing = C.run_cases('formulas_%d' % seed, ['FilterUtilsGen'], exprs)
    bad = []
    for i in failing:
        f, args, tcls = cases[i]
        bad.append({'function': f, 'args': [a.hex() if isinstance(a, float) else a for a in args],
                    'impl_result': repr(results[i])})
    # no float may leave the formulas of the integer-valued measures (finite float threshold)
    for i, ((f, args, tcls), r) in enumerate(zip(cases, results)):
        m, t = (args[2], args[3]) if f == 'get_overlap_threshold' else (args[1], args[2])
        if m in ('OVERLAP', 'EDIT_DISTANCE') and isinstance(t, float) and math.isfinite(t) \
                and not (type(r) is int):
            bad.append({'function': f, 'args': [a.hex() if isinstance(a, float) else a for a in args],
                        'impl_result': repr(r), 'note': 'non-int result for a float threshold'})
    distinct = len(set((f, tuple(map(repr, a))) for f, a, _ in cases))
    return {'evaluations': len(cases), 'distinct': distinct, 'failing': bad, 'distribution': dist,
            'samples': [{'function': f, 'args': [a.hex() if isinstance(a, float) else a for a in args],
                         'impl': repr(r)} for (f, args, _), r in list(zip(cases, results))[:3]]}


if __name__ == '__main__':
    import json
    print(json.dumps(run(int(sys.argv[1]) if len(sys.argv) > 1 else 1,
                         int(sys.argv[2]) if len(sys.argv) > 2 else 600), indent=1)[:3000])


def run_std(seed, n):
    """Standard result shape (see props/base.py): a failing case = generated formula differs
    from the real filter_utils function (translator / PyNum tie broken)."""
    r = run(seed, n)
    return {'evaluations': r['evaluations'], 'nontrivial': r['evaluations'], 'distribution': r['distribution'],
            'differ': [{'case': i, 'which': 'generated formula vs filter_utils', 'call': b}
                       for i, b in enumerate(r['failing'])],
            'spec_fail': [], 'exceptions': [], 'samples': []}
