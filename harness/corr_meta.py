"""Metamorphic runs: several related calls of the real implementation whose observed results are
related by the executable specs of Spec/MetaSpec.v, evaluated inside Coq.

  run_njobs      C10: n_jobs variants, row permutations, index relabelling, extra columns, _id
  run_missing    C08: allow_missing=True vs False on the same call
  run_laws       C13: transposition, threshold refinement, operator partition
  run_pipeline   C07: join vs apply_matcher(filter_tables(...))
  run_refine     C14: PositionFilter.filter_tables within PrefixFilter and SizeFilter candidates
  run_size_tight C14: SizeFilter.filter_pair verdicts on count pairs (a test beside theorem F4)
"""
import copy
import math
import os
import random
import sys
import traceback

import numpy as np
import pandas as pd

sys.path.insert(0, os.path.dirname(os.path.abspath(__file__)))
import common as C  # noqa: E402
import gens  # noqa: E402
import tables as T  # noqa: E402
import corr_joins as J  # noqa: E402
import corr_filters as F  # noqa: E402

IMPORTS = ['TokenOrdering', 'Filters', 'Suffix', 'Joins', 'Api', 'JoinSpec', 'MetaSpec', 'VariantSpec']
JCD = ('JACCARD', 'COSINE', 'DICE')


# ------------------------------------------------------------------ shared abstraction
class Case:
    """One base call (join or filter_tables) abstracted into a Coq jcase + observed frames."""

    def __init__(self, call, idx, kind='join'):
        self.call = call
        self.idx = idx
        self.kind = kind
        m = call['measure']
        tok = call['tok']
        names = call['names']
        if kind == 'join':
            ed = m == 'EDIT_DISTANCE'
            tokenize = T.bag_mode_tokenize(tok) if ed else T.set_mode_tokenize(tok)
            self.q = tok.qval if ed else getattr(tok, 'qval', 0)
            self.entry = ('join', m)
            self.allow_empty = call['allow_empty'] if m not in ('OVERLAP', 'EDIT_DISTANCE') else False
        else:
            ed = m == 'EDIT_DISTANCE'
            tokenize = tok.tokenize
            self.q = call['q']
            self.entry = ('overlap_filter',) if call['which'] == 'overlap' else ('filter', call['which'], m)
            self.allow_empty = call['allow_empty']
        self.rows_l, self.rows_r, self.it, self.toks = T.abstract_tables(
            call['L'], call['R'], names, tokenize, with_strings=ed)
        self.lcol = 'l_' + names[0]
        self.rcol = 'r_' + names[2]
        self.defs = []

    def case_lit(self, name, **over):
        c = dict(self.call)
        c.update(over)
        rows_l = over.get('rows_l', self.rows_l)
        rows_r = over.get('rows_r', self.rows_r)
        lit = T.jcase_lit(self.entry, c['t'], self.q, c['op'], self.allow_empty, c['allow_missing'],
                          c['with_score'], c['njobs'], T.cpu_count(), rows_l, rows_r)
        self.defs.append('Definition %s_%d : jcase := %s.' % (name, self.idx, lit))
        return '%s_%d' % (name, self.idx)

    def obs(self, name, df, with_score=None, lcol=None, rcol=None):
        ws = self.call['with_score'] if with_score is None else with_score
        lit = T.obs_lit(df, lcol or self.lcol, rcol or self.rcol, self.it, ws)
        self.defs.append('Definition %s_%d : list out_row := %s.' % (name, self.idx, lit))
        return '%s_%d' % (name, self.idx)

    def text(self):
        return '\n'.join(self.defs)


def canon_cell(v):
    if v is None or v is pd.NA or (isinstance(v, (float, np.floating)) and math.isnan(v)):
        return ('null',)
    if isinstance(v, (bool, np.bool_)):
        return ('b', bool(v))
    if isinstance(v, (int, np.integer)):
        return ('n', float(v).hex())
    if isinstance(v, (float, np.floating)):
        return ('n', float(v).hex())
    return ('s', str(v))


def canon_rows(df, drop=('_id',)):
    cols = [c for c in df.columns if c not in drop]
    rows = [tuple(canon_cell(v) for v in r) for r in df[cols].itertuples(index=False, name=None)]
    return cols, sorted(rows)


def key_pairs(df, lcol, rcol):
    return list(zip(df[lcol].tolist(), df[rcol].tolist()))


def ids_ok(df):
    return '_id' in df.columns and list(df.columns).index('_id') == 0 and \
        df['_id'].tolist() == list(range(len(df)))


def permute(df, rng):
    if len(df) < 2:
        return df.copy()
    p = list(range(len(df)))
    rng.shuffle(p)
    return df.iloc[p].copy()


def relabel(df, rng):
    d = df.copy()
    kind = rng.choice(['ints', 'strs', 'dups'])
    if kind == 'ints':
        d.index = rng.sample(range(10000), len(d))
    elif kind == 'strs':
        d.index = ['r%d' % i for i in rng.sample(range(10000), len(d))]
    else:
        d.index = [7] * len(d)
    return d


def add_columns(df, rng):
    d = df.copy()
    d['zz_extra'] = [rng.random() for _ in range(len(d))]
    d.insert(0, 'aa_extra', pd.Series(['w'] * len(d), index=d.index, dtype=object))
    return d


def result_dict(n, dist):
    return {'evaluations': n, 'distribution': dist, 'differ': [], 'spec_fail': [], 'exceptions': [],
            'nontrivial': 0, 'samples': []}


def exc_desc(e):
    return '%s: %s' % (type(e).__name__, e)


# ------------------------------------------------------------------ C10
def run_njobs(seed, n, real_processes=False):
    rng = random.Random(seed + 101)
    res = result_dict(0, {'entry': {}, 'variant': {}, 'measure': {}})
    groups, info = [], []
    for i in range(n):
        kind = rng.choice(['join', 'join', 'join', 'filter'])
        if kind == 'join':
            call = J.gen_call(rng, None, njobs_choices=(1,))
            if rng.random() < 0.25 and call['measure'] in JCD + ('OVERLAP_COEFFICIENT',):
                call = J.boundary_call(rng, call['measure'])
                call['njobs'] = 1
            runner = J.run_call
            descr = J.describe
        else:
            call = F.gen_tables_call(rng)
            call['njobs'] = 1
            runner = F.run_tables_call
            descr = F.describe_tables
        wide = False
        if kind == 'join' and rng.random() < 0.05 and call['measure'] != 'EDIT_DISTANCE':
            # MORE right rows than CPUs and n_jobs above the CPU count: every chunk must still be processed
            wide = True
            ncpu = T.cpu_count()
            Lw, Rw, namesw = T.gen_tables(rng, call['kind'], max_rows=3 * (ncpu + 4), missing_p=0.0, universe_size=8)
            while len(Rw) < 3 * (ncpu + 4):
                Lw, Rw, namesw = T.gen_tables(rng, call['kind'], max_rows=3 * (ncpu + 4), missing_p=0.0, universe_size=8)
            call = dict(call, L=Lw.head(4), R=Rw, names=namesw, l_out=None, r_out=None)
        base = runner(call)
        if isinstance(base, Exception):
            res['exceptions'].append({'case': i, 'call': descr(call, base), 'traceback': getattr(base, '_tb', '')})
            continue
        cs = Case(call, i, kind)
        cname = cs.case_lit('c')
        o0 = cs.obs('o0', base)
        exprs, meta = [], []
        variants = []
        for nj in ([T.cpu_count() + 4, T.cpu_count() + 1, 7] if wide else rng.sample([2, 3, 4, 5, 7, -1, -2, -20, 50], 3)):
            variants.append(('njobs=%d' % nj, dict(call, njobs=nj)))
        variants.append(('permute_L', dict(call, L=permute(call['L'], rng), njobs=rng.choice([1, 2]))))
        variants.append(('permute_R', dict(call, R=permute(call['R'], rng), njobs=rng.choice([1, 3]))))
        variants.append(('relabel', dict(call, L=relabel(call['L'], rng), R=relabel(call['R'], rng))))
        variants.append(('extra_cols', dict(call, L=add_columns(call['L'], rng), R=add_columns(call['R'], rng))))
        variants.append(('repeat', dict(call)))
        strict = kind == 'join' or call['which'] in ('size', 'overlap')
        entry = call['measure'] if kind == 'join' else 'filter:' + call['which']
        res['distribution']['entry'][entry] = res['distribution']['entry'].get(entry, 0) + 1
        base_cols, base_rows = canon_rows(base)
        for vi, (vname, vcall) in enumerate(variants):
            out = runner(vcall)
            res['evaluations'] += 1
            res['distribution']['variant'][vname.split('=')[0]] = res['distribution']['variant'].get(vname.split('=')[0], 0) + 1
            d = {'variant': vname, 'entry': entry, 'call': descr(call, base)}
            if isinstance(out, Exception):
                res['exceptions'].append({'case': i, 'variant': vname, 'call': descr(vcall, out),
                                          'traceback': getattr(out, '_tb', '')})
                continue
            d['variant_observed'] = out.to_dict(orient='split')
            if vname.startswith(('permute', 'njobs')):
                d['variant_ltable'] = vcall['L'].to_dict(orient='split')
                d['variant_rtable'] = vcall['R'].to_dict(orient='split')
            ov = cs.obs('o%d' % (vi + 1), out)
            if not (ids_ok(base) and ids_ok(out)):
                exprs.append('false')
                meta.append(dict(d, which='_id is not 0..n-1'))
            if not strict:
                # prefix/position/suffix filter_tables may differ in SUPERFLUOUS candidates between
                # schedules, never in the pairs the property requires to be listed: both results list a
                # required pair or neither does (Spec/VariantSpec.v; whether every required pair IS
                # listed is C04's question -- for SuffixFilter a known finding -- not C10's)
                exprs.append('same_required_spec %s %s %s' % (cname, o0, ov))
                meta.append(dict(d, which='same_required_spec'))
                if call['which'] != 'suffix':
                    exprs.append('complete_spec %s %s' % (cname, ov))
                    meta.append(dict(d, which='complete_spec on variant'))
                continue
            cols, rows = canon_rows(out)
            if kind == 'join' and call['measure'] in JCD:
                exprs.append('same_rows_nongray_spec %s %s %s' % (cname, o0, ov))
                meta.append(dict(d, which='same_rows_nongray_spec'))
                exprs.append('negb (differ_only_gray %s %s %s)' % (cname, o0, ov))
                meta.append(dict(d, which='gray pair differs between runs', gray=True))
                # projected attributes of the rows present in both results
                common = set(key_pairs(base, cs.lcol, cs.rcol)) & set(key_pairs(out, cs.lcol, cs.rcol))
                b2 = base[[k in common for k in key_pairs(base, cs.lcol, cs.rcol)]]
                o2 = out[[k in common for k in key_pairs(out, cs.lcol, cs.rcol)]]
                if vname != 'extra_cols' and canon_rows(b2) != canon_rows(o2):
                    exprs.append('false')
                    meta.append(dict(d, which='full rows (projected attributes) differ'))
            else:
                exprs.append('same_rows_spec %s %s %s' % (cname, o0, ov))
                meta.append(dict(d, which='same_rows_spec'))
                if (cols, rows) != (base_cols, base_rows):
                    exprs.append('false')
                    meta.append(dict(d, which='full rows (projected attributes) differ'))
        if 0 < len(base) < len(call['L']) * len(call['R']):
            res['nontrivial'] += 1
        groups.append((cs.text(), exprs))
        info.append(meta)
        if len(res['samples']) < 2:
            res['samples'].append(descr(call, base))
    bad = C.run_groups('njobs_%d' % seed, IMPORTS, groups, shard=40)
    for gi, ei in sorted(bad):
        m = info[gi][ei]
        res['spec_fail'].append({'case': gi, 'which': m['which'], 'call': m, 'gray': m.get('gray', False)})
    return res


def run_njobs_matcher(seed, n):
    """apply_matcher / filter_candset: identical frames (order included) for every n_jobs."""
    import joblib
    import corr_matcher as M
    from py_stringsimjoin.matcher.apply_matcher import apply_matcher
    rng = random.Random(seed + 103)
    res = result_dict(0, {'entry': {}})
    for i in range(n):
        if rng.random() < 0.5:
            simname, simf, wants_tok = M.make_sim(rng)
            kind, tok = T.make_tokenizer(rng, 'qgram2' if simname == 'lev' else None)
            L, R, names = T.gen_tables(rng, kind, max_rows=5)
            cand, cl, cr = M.gen_candset(rng, L, R, names, big=rng.choice([None, True, False]))
            op = rng.choice(['>=', '>', '<=', '<', '=', '!='])
            t = rng.choice([0, 1, 2, 0.5, 0.25, 1.0])
            am = rng.random() < 0.5
            tk = tok if wants_tok else None

            def call(nj):
                with joblib.parallel_config(backend=T.C_BACKEND[0]):
                    return apply_matcher(cand, cl, cr, L, R, names[0], names[2], names[1], names[3], tk, simf,
                                         t, op, am, [names[1]], None, 'l_', 'r_', True, nj, False)
            entry = 'apply_matcher'
        else:
            fd = F.make_filter(rng)
            L, R, names = T.gen_tables(rng, fd['kind'], max_rows=5)
            cand, cl, cr = M.gen_candset(rng, L, R, names)

            def call(nj):
                with joblib.parallel_config(backend=T.C_BACKEND[0]):
                    return fd['filt'].filter_candset(cand, cl, cr, L, R, names[0], names[2], names[1], names[3],
                                                     nj, False)
            entry = 'filter_candset:' + fd['which']
        res['distribution']['entry'][entry] = res['distribution']['entry'].get(entry, 0) + 1
        try:
            base = call(1)
            for nj in rng.sample([2, 3, 5, 7, -1, -20, 40], 3):
                out = call(nj)
                res['evaluations'] += 1
                # rows in order; index labels are part of the contract of filter_candset only (C06)
                same = list(base.columns) == list(out.columns) and \
                    [tuple(canon_cell(v) for v in r) for r in base.itertuples(index=False, name=None)] == \
                    [tuple(canon_cell(v) for v in r) for r in out.itertuples(index=False, name=None)] and \
                    (entry == 'apply_matcher' or base.index.tolist() == out.index.tolist())
                if not same:
                    res['spec_fail'].append({'case': i, 'which': 'result differs with n_jobs=%d' % nj,
                                             'call': {'entry': entry, 'candset': cand.to_dict(orient='split'),
                                                      'ltable': L.to_dict(orient='split'),
                                                      'rtable': R.to_dict(orient='split'),
                                                      'n_jobs_1': base.to_dict(orient='split'),
                                                      'n_jobs_k': out.to_dict(orient='split')}})
            if 0 < len(base) < len(cand):
                res['nontrivial'] += 1
        except Exception as e:  # noqa
            res['exceptions'].append({'case': i, 'call': {'entry': entry, 'observed_exception': exc_desc(e)},
                                      'traceback': traceback.format_exc()[-1200:]})
    return res


# ------------------------------------------------------------------ C08
def with_allow_missing(call, kind, am):
    c = dict(call, allow_missing=am)
    if kind == 'filter':
        import py_stringsimjoin as ssj
        if call['which'] == 'overlap':
            c['filt'] = ssj.OverlapFilter(call['tok'], call['t'], call['op'], am)
        else:
            cls = {'size': ssj.SizeFilter, 'prefix': ssj.PrefixFilter, 'position': ssj.PositionFilter,
                   'suffix': ssj.SuffixFilter}[call['which']]
            c['filt'] = cls(call['tok'], call['measure'], call['t'], call['allow_empty'], am)
    return c


def run_missing(seed, n):
    rng = random.Random(seed + 107)
    res = result_dict(0, {'entry': {}, 'pattern': {}})
    groups, info = [], []
    for i in range(n):
        kind = rng.choice(['join', 'join', 'filter'])
        if kind == 'join':
            call = J.gen_call(rng, None)
            runner, descr = J.run_call, J.describe
        else:
            call = F.gen_tables_call(rng)
            runner, descr = F.run_tables_call, F.describe_tables
        names = call['names']
        # force a pattern of missing values
        pat = rng.choice(['none', 'left_only', 'right_only', 'both', 'all_left', 'all_right', 'all'])
        L, R = call['L'].copy(), call['R'].copy()
        for df, col, side in ((L, names[1], 'l'), (R, names[3], 'r')):
            if len(df) == 0:
                continue
            miss = rng.choice([None, np.nan])
            df[col] = df[col].astype(object)
            if pat == 'none' or (pat == 'left_only' and side == 'r') or (pat == 'right_only' and side == 'l'):
                df[col] = [v if not T.is_missing(v) else 'a' for v in df[col].tolist()]
                df[col] = df[col].astype(object)
            elif pat in ('all', 'all_left', 'all_right') and (pat == 'all' or pat[4] == side):
                df[col] = pd.Series([miss] * len(df), index=df.index, dtype=object)
            elif pat in ('left_only', 'right_only', 'both'):
                vals = df[col].tolist()
                for k in rng.sample(range(len(df)), rng.randint(1, len(df))):
                    vals[k] = miss
                df[col] = pd.Series(vals, index=df.index, dtype=object)
        call = dict(call, L=L, R=R)
        res['distribution']['pattern'][pat] = res['distribution']['pattern'].get(pat, 0) + 1
        entry = call['measure'] if kind == 'join' else 'filter:' + call['which']
        res['distribution']['entry'][entry] = res['distribution']['entry'].get(entry, 0) + 1
        outs = {}
        failed = False
        for am in (False, True):
            out = runner(with_allow_missing(call, kind, am))
            res['evaluations'] += 1
            if isinstance(out, Exception):
                res['exceptions'].append({'case': i, 'call': descr(dict(call, allow_missing=am), out),
                                          'traceback': getattr(out, '_tb', ''), 'pattern': pat})
                failed = True
            outs[am] = out
        if failed:
            groups.append(('', []))
            info.append([])
            continue
        cs = Case(call, i, kind)
        cf = cs.case_lit('cf', allow_missing=False)
        ct = cs.case_lit('ct', allow_missing=True)
        of = cs.obs('of', outs[False])
        ot = cs.obs('ot', outs[True])
        exprs = ['missing_spec %s %s' % (cf, of), 'missing_spec %s %s' % (ct, ot),
                 'sound_spec %s %s' % (ct, ot)]
        strict = kind == 'join' or call['which'] in ('size', 'overlap')
        if strict and not (kind == 'join' and call['measure'] in JCD and call['njobs'] not in (1,)):
            exprs.append('missing_split_spec %s %s %s' % (cf, of, ot))
        d = {'pattern': pat, 'entry': entry, 'call': descr(call, outs[True]),
             'observed_allow_missing_false': outs[False].to_dict(orient='split')}
        which = ['missing_spec (allow_missing=False)', 'missing_spec (allow_missing=True)',
                 'sound_spec (allow_missing=True)', 'missing_split_spec']
        groups.append((cs.text(), exprs))
        info.append([dict(d, which=w) for w in which[:len(exprs)]])
        if pat != 'none' and len(outs[True]) > len(outs[False]):
            res['nontrivial'] += 1
        if len(res['samples']) < 2:
            res['samples'].append(d)
    bad = C.run_groups('missing_%d' % seed, IMPORTS, groups, shard=60)
    for gi, ei in sorted(bad):
        m = info[gi][ei]
        res['spec_fail'].append({'case': gi, 'which': m['which'], 'call': m})
    return res


# ------------------------------------------------------------------ C13
def run_laws(seed, n, forced=None):
    """forced: optional list of (call, law) to examine instead of generated calls (used by the search
    that follows a broken proof obligation: calls on which the join lost a pair)."""
    rng = random.Random(seed + 109)
    res = result_dict(0, {'law': {}, 'measure': {}})
    groups, info = [], []
    if forced is not None:
        n = len(forced)
    for i in range(n):
        law = rng.choice(['transpose', 'refine', 'partition'])
        call = J.gen_call(rng, None)
        r_ = rng.random()
        if r_ < 0.3 and call['measure'] in JCD + ('OVERLAP_COEFFICIENT',):
            call = J.boundary_call(rng, call['measure'])
        elif r_ < 0.6 and call['measure'] != 'EDIT_DISTANCE':
            call = J.skew_call(rng, call['measure'])
        if rng.random() < 0.08:
            # scores that are exact ties at the fifth decimal (the two orientations of a pair must
            # round the same way); for cosine with irrational square roots
            mt = rng.choice(['COSINE', 'COSINE', 'JACCARD', 'DICE'])
            call = J.boundary_call(rng, mt, force_tie='irrational' if mt == 'COSINE' else True)
            call['op'] = '>='
            call['t'] = min(call['t'], 0.5)
        if forced is not None:
            call, law = forced[i]
            call = dict(call)
        if forced is None and rng.random() < 0.12:
            # larger overlaps + fractional overlap_size + strict operator (overlap_join documents a float)
            call = J.skew_call(rng, 'OVERLAP')
            call['t'] = rng.choice([1, 1.5, 2, 2.5])
            call['op'] = rng.choice(['>', '>', '>=', '='])
            law = rng.choice(['refine', 'refine', 'partition', 'transpose'])
        elif call['measure'] == 'OVERLAP' and forced is None:
            # overlap_join documents a float threshold: fractional values with the strict operator
            call['t'] = rng.choice([1, 2, 1.5, 2.5, 0.5])
            call['op'] = rng.choice(['>=', '>', '>', '='])
        call['with_score'] = True
        call['l_out'] = call['r_out'] = None
        m = call['measure']
        res['distribution']['law'][law] = res['distribution']['law'].get(law, 0) + 1
        res['distribution']['measure'][m] = res['distribution']['measure'].get(m, 0) + 1
        base = J.run_call(call)
        res['evaluations'] += 1
        if isinstance(base, Exception):
            res['exceptions'].append({'case': i, 'call': J.describe(call, base), 'traceback': getattr(base, '_tb', '')})
            groups.append(('', []))
            info.append([])
            continue
        cs = Case(call, i, 'join')
        c0 = cs.case_lit('c')
        o0 = cs.obs('o0', base)
        d = {'law': law, 'call': J.describe(call, base)}
        exprs, meta = [], []
        if law == 'transpose':
            names = call['names']
            sw = dict(call, L=call['R'], R=call['L'], names=(names[2], names[3], names[0], names[1]))
            out = J.run_call(sw)
            res['evaluations'] += 1
            if isinstance(out, Exception):
                res['exceptions'].append({'case': i, 'call': J.describe(sw, out), 'traceback': getattr(out, '_tb', '')})
            else:
                o1 = cs.obs('o1', out, lcol='l_' + names[2], rcol='r_' + names[0])
                exprs.append('transpose_spec %s %s %s' % (c0, o0, o1))
                meta.append(dict(d, which='transpose_spec', swapped_observed=out.to_dict(orient='split')))
        elif law == 'refine':
            if call['op'] == '=':      # the law speaks about >= / > (edit distance: <= / <)
                call = dict(call, op='<=' if m == 'EDIT_DISTANCE' else '>=')
                base = J.run_call(call)
                cs = Case(call, i, 'join')
                c0 = cs.case_lit('c')
                o0 = cs.obs('o0', base)
                d = {'law': law, 'call': J.describe(call, base)}
            if m == 'EDIT_DISTANCE':
                t2 = rng.choice([x for x in [0, 1, 2, 3] if x <= math.floor(call['t'])])
            elif m == 'OVERLAP':
                t2 = call['t'] + rng.choice([0, 1, 2, 0.5, 1.5, 1.5, 0.5])
            else:
                t1 = float(call['t'])
                t2 = rng.choice([t1, min(1.0, t1 + rng.random() * (1 - t1)), min(1.0, gens.ulp_shift(t1, 1)),
                                 min(1.0, round(t1 + 0.1, 2)), 1.0])
                t2 = max(t2, t1)
            c2 = dict(call, t=t2)
            out = J.run_call(c2)
            res['evaluations'] += 1
            if isinstance(out, Exception):
                res['exceptions'].append({'case': i, 'call': J.describe(c2, out), 'traceback': getattr(out, '_tb', '')})
            else:
                c2n = cs.case_lit('c2', t=t2)
                o1 = cs.obs('o1', out)
                exprs.append('refine_spec %s %s %s %s' % (c0, c2n, o0, o1))
                meta.append(dict(d, which='refine_spec', stricter_threshold=repr(t2),
                                 stricter_observed=out.to_dict(orient='split')))
        else:
            ops = ('<=', '<', '=') if m == 'EDIT_DISTANCE' else ('>=', '>', '=')
            outs = []
            for op in ops:
                out = J.run_call(dict(call, op=op, allow_missing=False))
                res['evaluations'] += 1
                if isinstance(out, Exception):
                    res['exceptions'].append({'case': i, 'call': J.describe(dict(call, op=op), out),
                                              'traceback': getattr(out, '_tb', '')})
                    outs = None
                    break
                outs.append(out)
            if outs:
                names_ = [cs.obs('p%d' % k, o) for k, o in enumerate(outs)]
                exprs.append('partition_spec %s %s %s %s' % ((c0,) + tuple(names_)))
                meta.append(dict(d, which='partition_spec',
                                 observed_by_op={op: o.to_dict(orient='split') for op, o in zip(ops, outs)}))
        if len(base) > 0:
            res['nontrivial'] += 1
        groups.append((cs.text(), exprs))
        info.append(meta)
        if len(res['samples']) < 2:
            res['samples'].append(d)
    bad = C.run_groups('laws_%d' % seed, IMPORTS, groups, shard=60)
    for gi, ei in sorted(bad):
        mm = info[gi][ei]
        res['spec_fail'].append({'case': gi, 'which': mm['which'], 'call': mm})
    return res


def run_laws_bundled(seed):
    """The same laws on the bundled person data (no oracle needed)."""
    import py_stringmatching as sm
    base = os.path.join(C.REPO, 'py_stringsimjoin', 'datasets', 'data')
    res = result_dict(0, {'dataset': {}})
    try:
        A = pd.read_csv(os.path.join(base, 'person_table_A.csv'))
        B = pd.read_csv(os.path.join(base, 'person_table_B.csv'))
    except Exception as e:  # noqa
        res['exceptions'].append({'case': 0, 'call': {'observed_exception': exc_desc(e)}, 'traceback': ''})
        return res
    for df in (A, B):
        for c in df.columns:
            if df[c].dtype != object and not pd.api.types.is_numeric_dtype(df[c]):
                df[c] = df[c].astype(object)
    groups, info = [], []
    rng = random.Random(seed)
    idx = 0
    for m in ['JACCARD', 'COSINE', 'DICE', 'OVERLAP_COEFFICIENT', 'EDIT_DISTANCE']:
        for attr in ['A.name', 'A.address'] if False else ['name', 'address']:
            la = 'A.' + attr if ('A.' + attr) in A.columns else attr
            ra = 'B.' + attr if ('B.' + attr) in B.columns else attr
            lk = 'A.id' if 'A.id' in A.columns else A.columns[0]
            rk = 'B.id' if 'B.id' in B.columns else B.columns[0]
            if la not in A.columns or ra not in B.columns:
                continue
            if m == 'EDIT_DISTANCE':
                tok = sm.QgramTokenizer(qval=2)
                t1, t2, ops = 4, 2, ('<=', '<', '=')
            else:
                tok = sm.WhitespaceTokenizer(return_set=True)
                t1, t2, ops = 0.3, 0.55, ('>=', '>', '=')
            call = dict(measure=m, kind='ws', tok=tok, L=A, R=B, names=(lk, la, rk, ra), t=t1, tcls='bundled',
                        op=ops[0], allow_empty=True, allow_missing=False, with_score=True, njobs=1,
                        l_out=None, r_out=None)
            base_out = J.run_call(call)
            sw = J.run_call(dict(call, L=B, R=A, names=(rk, ra, lk, la)))
            strict = J.run_call(dict(call, t=t2))
            by_op = [J.run_call(dict(call, op=op)) for op in ops]
            res['evaluations'] += 6
            res['distribution']['dataset']['person/%s/%s' % (m, attr)] = len(base_out) if not isinstance(base_out, Exception) else -1
            bad_out = [o for o in [base_out, sw, strict] + by_op if isinstance(o, Exception)]
            if bad_out:
                res['exceptions'].append({'case': idx, 'call': J.describe(call, bad_out[0]),
                                          'traceback': getattr(bad_out[0], '_tb', '')})
                continue
            cs = Case(call, idx, 'join')
            c0 = cs.case_lit('c')
            c2 = cs.case_lit('c2', t=t2)
            o0 = cs.obs('o0', base_out)
            o1 = cs.obs('o1', sw, lcol='l_' + rk, rcol='r_' + lk)
            o2 = cs.obs('o2', strict)
            ps = [cs.obs('p%d' % k, o) for k, o in enumerate(by_op)]
            exprs = ['transpose_spec %s %s %s' % (c0, o0, o1), 'refine_spec %s %s %s %s' % (c0, c2, o0, o2),
                     'partition_spec %s %s %s %s' % ((c0,) + tuple(ps)), 'sound_spec %s %s' % (c0, o0),
                     'complete_spec %s %s' % (c0, o0)]
            d = {'dataset': 'person', 'measure': m, 'attr': attr, 't1': t1, 't2': t2}
            groups.append((cs.text(), exprs))
            info.append([dict(d, which=w) for w in ('transpose_spec', 'refine_spec', 'partition_spec',
                                                    'sound_spec', 'complete_spec')])
            res['nontrivial'] += 1
            idx += 1
    bad = C.run_groups('bundled_%d' % seed, IMPORTS, groups, shard=2)
    for gi, ei in sorted(bad):
        mm = info[gi][ei]
        res['spec_fail'].append({'case': gi, 'which': mm['which'], 'call': mm})
    return res


# ------------------------------------------------------------------ C07
def sim_function(measure):
    import py_stringmatching as sm
    return {'JACCARD': sm.Jaccard().get_raw_score, 'COSINE': sm.Cosine().get_raw_score,
            'DICE': sm.Dice().get_raw_score, 'OVERLAP_COEFFICIENT': sm.OverlapCoefficient().get_raw_score,
            'EDIT_DISTANCE': sm.Levenshtein().get_raw_score}[measure]


def same_set_call(rng, m):
    """Equal token SETS written in a different order (and with repeats) on the two sides, thresholds
    at and just below 1.0: py_stringmatching's `if set1 == set2: return 1.0` compares the LISTS it is
    given, so the join (tokens sorted by the global order) takes the shortcut where apply_matcher
    (tokenizer order) evaluates the formula -- for cosine k/(sqrt k * sqrt k) can be 0.9999999999999998
    or 1.0000000000000002."""
    import py_stringmatching as sm
    import struct
    words = rng.sample(T.WORDS, rng.randint(3, 7))
    nl, nr = rng.randint(1, 4), rng.randint(1, 5)
    lrows = [' '.join(rng.sample(words, rng.randint(1, len(words)))) for _ in range(nl)]
    rrows = []
    for _ in range(nr):
        if rng.random() < 0.7:
            tk = rng.choice(lrows).split(' ')
            rng.shuffle(tk)
            if rng.random() < 0.4:
                tk.append(rng.choice(tk))
            rrows.append(' '.join(tk))
        else:
            rrows.append(' '.join(rng.sample(words, rng.randint(1, len(words)))))
    L = pd.DataFrame({'id': range(1, nl + 1), 's': pd.Series(lrows, dtype=object)})
    R = pd.DataFrame({'id': range(11, nr + 11), 's': pd.Series(rrows, dtype=object)})
    one_m = struct.unpack('<d', struct.pack('<q', struct.unpack('<q', struct.pack('<d', 1.0))[0] - 1))[0]
    t = rng.choice([1.0, 1.0, one_m, 0.99995, 0.9999, 0.99994, 0.7])
    return dict(measure=m, kind='ws', tok=sm.WhitespaceTokenizer(return_set=True), L=L, R=R,
                names=('id', 's', 'id', 's'), t=t, tcls='same-set', op=rng.choice(['>=', '>=', '>', '=']),
                allow_empty=True, allow_missing=False, with_score=True, njobs=rng.choice([1, 2]),
                l_out=None, r_out=None)


def run_pipeline(seed, n):
    import joblib
    import py_stringsimjoin as ssj
    from py_stringsimjoin.matcher.apply_matcher import apply_matcher
    rng = random.Random(seed + 113)
    res = result_dict(0, {'measure': {}, 'stage': {}})
    groups, info = [], []
    for i in range(n):
        m = rng.choice(['JACCARD', 'COSINE', 'DICE', 'OVERLAP_COEFFICIENT', 'EDIT_DISTANCE', 'JACCARD', 'DICE'])
        call = J.gen_call(rng, m)
        if rng.random() < 0.3 and m != 'EDIT_DISTANCE':
            call = J.boundary_call(rng, m)
        if rng.random() < 0.12 and m in JCD:
            call = same_set_call(rng, m)
        call['with_score'] = True
        call['allow_missing'] = False
        call['l_out'] = call['r_out'] = None
        tok = call['tok']
        names = call['names']
        if m == 'EDIT_DISTANCE':
            stage = rng.choice(['size', 'prefix', 'position'])
            tok.set_return_set(False)
        elif m == 'OVERLAP_COEFFICIENT':
            stage = 'overlap'
            tok.set_return_set(True)
        else:
            stage = rng.choice(['size', 'prefix', 'position', 'overlap'])
            tok.set_return_set(True)
        res['distribution']['measure'][m] = res['distribution']['measure'].get(m, 0) + 1
        res['distribution']['stage'][stage] = res['distribution']['stage'].get(stage, 0) + 1
        nj1, nj2 = rng.choice([1, 1, 2, 3]), rng.choice([1, 1, 2, 3])
        d = {'measure': m, 'stage': stage, 'njobs_filter': nj1, 'njobs_matcher': nj2}
        try:
            jo = J.run_call(call)
            if isinstance(jo, Exception):
                raise jo
            t = call['t']
            with joblib.parallel_config(backend=T.C_BACKEND[0]):
                if stage == 'overlap':
                    flt = ssj.OverlapFilter(tok, 1, '>=', False)
                    cand = flt.filter_tables(call['L'], call['R'], names[0], names[2], names[1], names[3],
                                             None, None, 'l_', 'r_', False, nj1, False)
                else:
                    cls = {'size': ssj.SizeFilter, 'prefix': ssj.PrefixFilter, 'position': ssj.PositionFilter}[stage]
                    ft = math.floor(t) if m == 'EDIT_DISTANCE' else t
                    flt = cls(tok, m, ft, call['allow_empty'], False)
                    cand = flt.filter_tables(call['L'], call['R'], names[0], names[2], names[1], names[3],
                                             None, None, 'l_', 'r_', nj1, False)
                tk = None if m == 'EDIT_DISTANCE' else tok
                mt = math.floor(t) if m == 'EDIT_DISTANCE' else t
                po = apply_matcher(cand, 'l_' + names[0], 'r_' + names[2], call['L'], call['R'], names[0], names[2],
                                   names[1], names[3], tk, sim_function(m), mt, call['op'], False, None, None,
                                   'l_', 'r_', True, nj2, False)
            res['evaluations'] += 1
        except Exception as e:  # noqa
            res['exceptions'].append({'case': i, 'call': dict(J.describe(call), observed_exception=exc_desc(e), **d),
                                      'traceback': traceback.format_exc()[-1500:]})
            groups.append(('', []))
            info.append([])
            continue
        cs = Case(call, i, 'join')
        c0 = cs.case_lit('c')
        oj = cs.obs('oj', jo)
        if len(cand) == 0:
            po = jo.iloc[0:0]
        op_ = cs.obs('op', po)
        spec = 'pipeline_ed_spec' if m == 'EDIT_DISTANCE' else 'pipeline_spec'
        exprs = ['%s %s %s %s' % (spec, c0, oj, op_)]
        d['call'] = J.describe(call, jo)
        d['pipeline_observed'] = po.to_dict(orient='split')
        d['candset'] = cand.to_dict(orient='split')
        groups.append((cs.text(), exprs))
        info.append([dict(d, which=spec)])
        if 0 < len(jo):
            res['nontrivial'] += 1
        if len(res['samples']) < 2:
            res['samples'].append(d)
    bad = C.run_groups('pipe_%d' % seed, IMPORTS, groups, shard=60)
    for gi, ei in sorted(bad):
        mm = info[gi][ei]
        res['spec_fail'].append({'case': gi, 'which': mm['which'], 'call': mm})
    return res


# ------------------------------------------------------------------ C14
def run_refine(seed, n):
    import joblib
    import py_stringsimjoin as ssj
    rng = random.Random(seed + 127)
    res = result_dict(0, {'measure': {}, 'njobs': {}})
    groups, info = [], []
    for i in range(n):
        call = F.gen_tables_call(rng, 'position')
        if call['measure'] in JCD and rng.random() < 0.6:
            # skewed sizes related by inclusion, threshold with 5 decimals next to the pair's similarity:
            # where the 4-decimal rounding of the size bounds and of the required overlap can disagree
            sk = J.skew_call(rng, call['measure'])
            import py_stringsimjoin as ssj
            x = set(rng.choice(sk['L']['s'].tolist()).split())
            y = set(rng.choice(sk['R']['s'].tolist()).split())
            o, a, b = len(x & y), len(x), len(y)
            if o:
                base = {'JACCARD': o / (a + b - o), 'DICE': 2.0 * o / (a + b),
                        'COSINE': o / math.sqrt(a * b)}[call['measure']]
                t = min(1.0, max(1e-3, round(base, rng.choice([3, 4, 5])) + rng.choice([-1e-5, 0.0, 1e-5, 2e-5])))
            else:
                t = sk['t']
            sk['tok'].set_return_set(True)
            call = dict(call, L=sk['L'], R=sk['R'], names=sk['names'], tok=sk['tok'], kind='ws', t=t, tcls='skew-edge',
                        q=0)
        elif call['measure'] in JCD + ('OVERLAP',) and rng.random() < 0.5:
            # order-sensitive stream: tiny alphabet, short prefixes (high threshold), several right rows
            # and n_jobs >= 2 -- the per-chunk token order differs from the whole-table order
            import pandas as pd
            import py_stringmatching as sm
            alpha = list('abcdefg')[:rng.randint(4, 7)]
            mk = lambda: ' '.join(rng.sample(alpha, rng.randint(1, len(alpha))))
            lrows = [mk() for _ in range(rng.randint(2, 4))]
            rrows = [mk() for _ in range(rng.randint(3, 7))]
            Lx = pd.DataFrame({'id': range(1, len(lrows) + 1), 's': pd.Series(lrows, dtype=object)})
            Rx = pd.DataFrame({'id': range(1, len(rrows) + 1), 's': pd.Series(rrows, dtype=object)})
            t = rng.choice([1, 2, 3]) if call['measure'] == 'OVERLAP' else rng.choice([0.5, 0.6, 0.7, 0.75, 0.8, 0.9])
            call = dict(call, L=Lx, R=Rx, names=('id', 's', 'id', 's'), tok=sm.WhitespaceTokenizer(return_set=True),
                        kind='ws', t=t, tcls='order-sensitive', q=0, njobs=rng.choice([2, 2, 3]))
        m = call['measure']
        names = call['names']
        nj = call['njobs']
        res['distribution']['measure'][m] = res['distribution']['measure'].get(m, 0) + 1
        res['distribution']['njobs'][str(nj)] = res['distribution']['njobs'].get(str(nj), 0) + 1
        outs = {}
        try:
            with joblib.parallel_config(backend=T.C_BACKEND[0]):
                for which, cls in (('position', ssj.PositionFilter), ('prefix', ssj.PrefixFilter),
                                   ('size', ssj.SizeFilter)):
                    flt = cls(call['tok'], m, call['t'], call['allow_empty'], call['allow_missing'])
                    outs[which] = flt.filter_tables(call['L'], call['R'], names[0], names[2], names[1], names[3],
                                                    None, None, 'l_', 'r_', nj, False)
            res['evaluations'] += 1
        except Exception as e:  # noqa
            res['exceptions'].append({'case': i, 'call': dict(F.describe_tables(call), observed_exception=exc_desc(e)),
                                      'traceback': traceback.format_exc()[-1500:]})
            groups.append(('', []))
            info.append([])
            continue
        cs = Case(call, i, 'filter')
        cs.case_lit('c')
        op_ = cs.obs('opos', outs['position'])
        opr = cs.obs('opre', outs['prefix'])
        osz = cs.obs('osiz', outs['size'])
        d = {'call': F.describe_tables(call, outs['position']),
             'prefix_observed': outs['prefix'].to_dict(orient='split'),
             'size_observed': outs['size'].to_dict(orient='split')}
        groups.append((cs.text(), ['refine_filters_spec %s %s %s' % (op_, opr, osz)]))
        info.append([dict(d, which='refine_filters_spec')])
        if 0 < len(outs['position']) < len(outs['size']):
            res['nontrivial'] += 1
        if len(res['samples']) < 1:
            res['samples'].append(d)
    bad = C.run_groups('refine_%d' % seed, IMPORTS, groups, shard=60)
    for gi, ei in sorted(bad):
        mm = info[gi][ei]
        res['spec_fail'].append({'case': gi, 'which': mm['which'], 'call': mm})
    return res


class CountTok:
    """A tokenizer stand-in producing exactly k distinct tokens for the string 'k'."""
    qval = 2

    def __init__(self):
        self.rs = True

    def tokenize(self, s):
        return ['t%d' % i for i in range(int(s))]

    def get_return_set(self):
        return self.rs

    def set_return_set(self, b):
        self.rs = b


def run_size_tight(seed, n, max_count=40, exhaustive=False):
    """SizeFilter.filter_pair on count pairs: verdict is a function of the counts and tight."""
    import py_stringsimjoin as ssj
    import py_stringmatching as sm
    rng = random.Random(seed + 131)
    res = result_dict(0, {'measure': {}, 'dropped': {}})
    cases, info = [], []
    grid = []
    if exhaustive:
        ts = sorted(set([k / 20 for k in range(1, 21)] + [k / 7 for k in range(1, 8)] + [1 / 3, 2 / 3, 0.28, 0.99, 0.01, 0.57]))
        for m in JCD:
            for t in ts:
                for a in range(1, max_count + 1):
                    for b in range(1, max_count + 1):
                        grid.append((m, t, a, b))
        for tau in range(0, 6):
            for a in range(0, max_count + 1):
                for b in range(0, max_count + 1):
                    grid.append(('EDIT_DISTANCE', tau, a, b))
    else:
        for _ in range(n):
            m = rng.choice(JCD + ('EDIT_DISTANCE',))
            if m == 'EDIT_DISTANCE':
                t = rng.choice([0, 1, 2, 3, 5, 1.5, 0.5, 1.99996, 0.99996, 2.999951, 2.0, 3.0000001])
            else:
                t = gens.threshold(rng)[1]
            a = rng.randint(1, max_count)
            # near the window edges
            b = max(1, int(round(rng.choice([a * t if m != 'EDIT_DISTANCE' else a - t,
                                             a / t if (m != 'EDIT_DISTANCE' and t > 0) else a + t,
                                             rng.randint(1, max_count)]))) + rng.choice([-1, 0, 0, 1]))
            b = min(b, 4 * max_count)
            grid.append((m, t, a, b))
    tokc = CountTok()
    wtok = sm.WhitespaceTokenizer(return_set=True)
    cache = {}
    for (m, t, a, b) in grid:
        key = (m, t)
        if key not in cache:
            cache[key] = ssj.SizeFilter(wtok if m != 'EDIT_DISTANCE' else sm.QgramTokenizer(qval=2, padding=False),
                                        m, t, False, False)
        flt = cache[key]
        if m == 'EDIT_DISTANCE':
            # unpadded 2-grams of a string of k+1 distinct characters: k tokens
            l = ''.join(chr(0x100 + i) for i in range(a + 1)) if a > 0 else 'x'
            r = ''.join(chr(0x400 + i) for i in range(b + 1)) if b > 0 else 'y'
        else:
            l = ' '.join('a%d' % i for i in range(a))
            r = ' '.join('b%d' % i for i in range(b))
        try:
            dropped = bool(flt.filter_pair(l, r))
        except Exception as e:  # noqa
            res['exceptions'].append({'case': len(cases), 'call': {'measure': m, 't': repr(t), 'a': a, 'b': b,
                                                                    'observed_exception': exc_desc(e)},
                                      'traceback': traceback.format_exc()[-800:]})
            continue
        res['distribution']['measure'][m] = res['distribution']['measure'].get(m, 0) + 1
        res['distribution']['dropped'][str(dropped)] = res['distribution']['dropped'].get(str(dropped), 0) + 1
        bb = 'true' if dropped else 'false'
        if m == 'EDIT_DISTANCE' and isinstance(t, float):
            # float threshold: dropped iff |a - b| > t, compared exactly (theorem F4_ED_float)
            cases.append('andb (Bool.eqb %s (py_truth (py_gt (PInt (Z.abs (%d - %d))) %s))) (Bool.eqb (size_filter_pair {| fm := %s; ft := %s; fq := 2 |} false %d %d) %s)'
                         % (bb, a, b, C.pyval_lit(t), C.coq_str(m), C.pyval_lit(t), a, b, bb))
        else:
            cases.append('andb (size_tight_spec %s %s %d %d %s) (Bool.eqb (size_filter_pair {| fm := %s; ft := %s; fq := 2 |} false %d %d) %s)'
                         % (C.coq_str(m), C.pyval_lit(t), a, b, bb, C.coq_str(m), C.pyval_lit(t), a, b, bb))
        info.append({'measure': m, 't': repr(t), 't_hex': t.hex() if isinstance(t, float) else t, 'a': a, 'b': b,
                     'dropped': dropped})
    res['evaluations'] = len(cases)
    res['nontrivial'] = len(set((d['measure'], d['t'], d['a'], d['b']) for d in info))
    bad = C.run_cases('sizetight_%d' % seed, IMPORTS, cases, shard=2500)
    for k in bad:
        res['spec_fail'].append({'case': k, 'which': 'size_tight_spec / function of counts', 'call': info[k]})
    res['samples'] = info[:3]
    return res


if __name__ == '__main__':
    import json
    seed = int(sys.argv[1]) if len(sys.argv) > 1 else 1
    mode = sys.argv[2] if len(sys.argv) > 2 else 'njobs'
    n = int(sys.argv[3]) if len(sys.argv) > 3 else 30
    fn = {'njobs': run_njobs, 'njobs_matcher': run_njobs_matcher, 'missing': run_missing, 'laws': run_laws,
          'pipeline': run_pipeline, 'refine': run_refine, 'size_tight': run_size_tight}
    r = run_laws_bundled(seed) if mode == 'bundled' else fn[mode](seed, n)
    print(json.dumps(r['distribution'], default=str))
    print('EVAL', r['evaluations'], 'NONTRIVIAL', r['nontrivial'], 'SPEC_FAIL', len(r['spec_fail']), 'EXC', len(r['exceptions']))
    seen = set()
    for d in r['spec_fail']:
        if d['which'] in seen:
            continue
        seen.add(d['which'])
        print(json.dumps(d, default=str)[:2500])
    for d in r['exceptions'][:3]:
        print(json.dumps(d, default=str)[:1500])
