"""Correspondence for profile_table_for_join (C17): whole calls on random small tables and a
large-n stream (n around 20000..40000, where the two-decimal percentages saturate).  The model
of Model/Profiler.v and the clauses of Spec/ProfilerSpec.v are evaluated inside Coq; the spec is
evaluated on the OBSERVED output (counts and percentages parsed from the strings, comment kind)
against reference counts computed inside Coq with the standard library's nodup / count_occ
(small tables) or known by construction (large tables)."""
import math
import os
import random
import re
import sys
import traceback

import numpy as np
import pandas as pd

sys.path.insert(0, os.path.dirname(os.path.abspath(__file__)))
import common as C  # noqa: E402

if os.environ.get('VERIF_COQ'):       # evaluate against another compiled tree (development only)
    C.QFLAGS[:] = sum((['-Q', os.path.join(os.environ['VERIF_COQ'], d), 'SSJ'] for d in
                       ['Num', 'Base', 'Gen', 'Ext', 'Model', 'Spec', 'Proofs', 'Properties']), [])
if os.environ.get('VERIF_WORK'):
    C.WORK = os.environ['VERIF_WORK']

KEY_TEXT = 'This attribute can be used as a key attribute.'
STAT_RE = re.compile(r'^(\d+) \((.+)%\)$')
COLNAMES = ['id', 'name', 'zip', 'flag', 'price', 'x1']
HEADER = ['Unique values', 'Missing values', 'Comments']


def is_null(v):
    return v is None or v is pd.NA or v is pd.NaT or (isinstance(v, (float, np.floating)) and math.isnan(v)) \
        or (isinstance(v, complex) and (math.isnan(v.real) or math.isnan(v.imag)))


MIXED = [False]


def gen_column(rng, nrows):
    """Returns (pandas Series, python values, description)."""
    kind = rng.choice(['int', 'float', 'str', 'bool'])
    mode = rng.choice(['unique', 'dups', 'dups', 'few'])
    if rng.random() < 0.15 and not MIXED[0]:
        # dtypes whose missing value is neither None nor a float NaN: datetime64 / timedelta64 (NaT),
        # the nullable Int64 / boolean extension dtypes (pd.NA), complex128 (nan)
        ext = rng.choice(['datetime', 'timedelta', 'Int64', 'boolean', 'complex'])
        base = rng.sample(range(1, 400), max(nrows, 3))[:nrows]
        if mode != 'unique' and nrows >= 2:
            a_, b_ = rng.sample(range(nrows), 2)
            base[a_] = base[b_]
        holes = [k for k in range(nrows) if rng.random() < 0.3]
        if rng.random() < 0.4:
            holes = []
        if ext == 'datetime':
            vals = [pd.Timestamp('2020-01-01') + pd.Timedelta(days=k) for k in base]
            ser = pd.Series([pd.NaT if i in holes else v for i, v in enumerate(vals)], dtype='datetime64[ns]')
        elif ext == 'timedelta':
            ser = pd.Series([pd.NaT if i in holes else pd.Timedelta(hours=k) for i, k in enumerate(base)],
                            dtype='timedelta64[ns]')
        elif ext == 'Int64':
            ser = pd.Series([pd.NA if i in holes else k for i, k in enumerate(base)], dtype='Int64')
        elif ext == 'boolean':
            ser = pd.Series([pd.NA if i in holes else (k % 2 == 0) for i, k in enumerate(base)], dtype='boolean')
        else:
            ser = pd.Series([complex(float('nan'), 0) if i in holes else complex(k, 1) for i, k in enumerate(base)],
                            dtype='complex128')
        return ser, {'kind': ext, 'mode': mode, 'missing': 'some' if holes else 'none', 'dtype': str(ser.dtype)}
    if kind == 'int':
        pool = rng.sample(range(-50, 1000), max(nrows, 3))
    elif kind == 'float':
        pool = [rng.choice([0.5, 0.25, 1.0]) * k for k in rng.sample(range(-20, 400), max(nrows, 3))]
    elif kind == 'str':
        pool = ['s%d' % k for k in rng.sample(range(500), max(nrows, 3))]
    else:
        pool = [True, False]
        mode = 'few'
    if mode == 'unique':
        vals = pool[:nrows]
    elif mode == 'dups':
        vals = pool[:nrows]
        for _ in range(rng.randint(1, max(1, nrows // 3))):
            if nrows >= 2:
                a, b = rng.sample(range(nrows), 2)
                vals[a] = vals[b]
    else:
        small = pool[:rng.randint(1, min(3, len(pool)))]
        vals = [rng.choice(small) for _ in range(nrows)]
    miss = rng.choice(['none', 'none', 'some', 'one', 'all'])
    nullv = rng.choice([None, np.nan])      # never mixed within a column (but see MIXED below)
    if MIXED[0] and kind in ('str', 'int') and nrows >= 2:
        # both spellings of a missing value in ONE object column (regression stream, see run_mixed)
        ks = rng.sample(range(nrows), 2)
        vals[ks[0]], vals[ks[1]] = None, np.nan
        for k in range(nrows):
            if rng.random() < 0.15:
                vals[k] = rng.choice([None, np.nan])
        ser = pd.Series(vals, dtype=object)
        return ser, {'kind': kind, 'mode': mode, 'missing': 'none_and_nan', 'dtype': 'object'}
    if miss == 'some':
        for k in range(nrows):
            if rng.random() < 0.3:
                vals[k] = nullv
    elif miss == 'one':
        vals[rng.randrange(nrows)] = nullv
    elif miss == 'all' and rng.random() < 0.3:
        vals = [nullv] * nrows
    has_null = any(is_null(v) for v in vals)
    if kind == 'str':
        dt = rng.choice(['object', 'str'])
        ser = pd.Series(vals, dtype=object) if dt == 'object' else pd.Series(vals, dtype='str')
    elif kind == 'float':
        ser = pd.Series([np.nan if is_null(v) else v for v in vals], dtype=float)
    elif has_null:
        # int / bool column with holes: object dtype keeps the chosen null, float64 uses NaN
        if kind == 'int' and nullv is not None and rng.random() < 0.5:
            ser = pd.Series([np.nan if is_null(v) else float(v) for v in vals], dtype=float)
        else:
            ser = pd.Series(vals, dtype=object)
    else:
        ser = pd.Series(vals)
    return ser, {'kind': kind, 'mode': mode, 'missing': miss if has_null or miss == 'none' else 'none',
                 'dtype': str(ser.dtype)}


def col_ids(ser):
    """value ids by Python equality (None = missing), independent of Series.unique()."""
    ids, out = {}, []
    for v in ser.tolist():
        if is_null(v):
            out.append(None)
        else:
            if v not in ids:
                ids[v] = len(ids) + 1
            out.append(ids[v])
    return out


def col_lit(ids):
    return '[%s]' % '; '.join('None' if v is None else 'Some %s' % C.z(v) for v in ids)


def parse_stat(s):
    """'12 (33.33%)' -> (12, 33.33) or None; re-formatting must reproduce the string."""
    if not isinstance(s, str):
        return None
    m = STAT_RE.match(s)
    if not m:
        return None
    try:
        c, p = int(m.group(1)), float(m.group(2))
    except ValueError:
        return None
    if ''.join([str(c), ' (', str(p), '%)']) != s:
        return None
    return c, p


def comment_kind(cm, missing_stat):
    if cm == '':
        return 'CmtNone'
    if cm == KEY_TEXT:
        return 'CmtKey'
    if cm == ''.join(['Joining on this attribute will ignore ', missing_stat, ' rows.']):
        return 'CmtMissing'
    return None


def row_lit(us, ms, cm):
    """Coq literal of one observed row, or None if it cannot be read."""
    u, m, k = parse_stat(us), parse_stat(ms), comment_kind(cm, ms)
    if u is None or m is None or k is None:
        return None
    return '(mkrow %s %s %s %s %s)' % (C.z(u[0]), C.float_lit(u[1]), C.z(m[0]), C.float_lit(m[1]), k)


def shape_ok(out):
    return (isinstance(out, pd.DataFrame) and list(out.columns) == HEADER
            and out.index.name == 'Attribute')


def run_small(seed, n):
    from py_stringsimjoin.profiler.profiler import profile_table_for_join
    rng = random.Random(seed + 17)
    groups, info, which, details = [], [], [], []
    differ, exceptions = [], []
    dist = {'rows': {}, 'attrs': {}, 'col_kind': {}, 'col_missing': {}, 'comment': {}, 'outcome': {}}

    def bump(k, v):
        dist[k][str(v)] = dist[k].get(str(v), 0) + 1

    for i in range(n):
        nrows = rng.choice([1, 1, 2, 2, 3, 4, 5, 7, 10, 20, 40, rng.randint(1, 40)])
        if rng.random() < 0.03:
            nrows = 0
        ncols = rng.randint(1, 4)
        names = rng.sample(COLNAMES, ncols)
        cols, descs = {}, {}
        for nm in names:
            if nrows == 0:
                cols[nm] = pd.Series([], dtype=rng.choice([object, float, int]))
                descs[nm] = {'kind': 'empty', 'mode': 'empty', 'missing': 'none', 'dtype': str(cols[nm].dtype)}
            else:
                cols[nm], descs[nm] = gen_column(rng, nrows)
        df = pd.DataFrame(cols, columns=names)
        if nrows > 1 and rng.random() < 0.35:
            # the row index is irrelevant to the profile: shuffled labels, or REPEATED labels (a
            # pd.concat of batches, a table indexed by a group label)
            df.index = (rng.sample(range(1000), nrows) if rng.random() < 0.4
                        else [rng.randint(0, max(1, nrows // 3)) for _ in range(nrows)])
        r = rng.random()
        if r < 0.35:
            attrs, amode = None, 'None'
        elif r < 0.70:
            attrs, amode = rng.sample(names, rng.randint(1, ncols)), 'subset'
        elif r < 0.85:
            attrs, amode = [rng.choice(names) for _ in range(rng.randint(1, ncols + 2))], 'repeats'
        elif r < 0.92:
            attrs, amode = [], 'empty'
        else:
            attrs = rng.sample(names, rng.randint(0, ncols)) + ['nosuch']
            rng.shuffle(attrs)
            amode = 'unknown_attr'
        name_id = {nm: k + 1 for k, nm in enumerate(names)}
        name_id['nosuch'] = 99
        before = df.copy()
        exc = None
        try:
            out = profile_table_for_join(df, None if attrs is None else list(attrs))
        except Exception as e:  # noqa
            exc, out = e, None
        in_domain = nrows > 0 and amode != 'unknown_attr'
        call = {'nrows': nrows, 'attrs': attrs, 'table': df.astype(object).where(df.notnull(), None).to_dict(orient='list'),
                'columns': descs,
                'class': {'entry': 'profile_table_for_join', 'stream': 'small', 'attrs': amode,
                          'nrows': 'zero' if nrows == 0 else 'positive'}}
        bump('rows', 'zero' if nrows == 0 else ('1' if nrows == 1 else ('2-10' if nrows <= 10 else '11-40')))
        bump('attrs', amode)
        for nm in names:
            bump('col_kind', descs[nm]['kind'] + '/' + descs[nm]['dtype'])
            bump('col_missing', descs[nm]['missing'])
        idcols = {nm: col_ids(df[nm]) for nm in names}
        tbl_lit = '[%s]' % '; '.join('(%s, %s)' % (C.z(name_id[nm]), col_lit(idcols[nm])) for nm in names)
        attrs_lit = 'None' if attrs is None else '(Some [%s])' % '; '.join(C.z(name_id[a]) for a in attrs)
        model = 'profile_table %s pt%d %s' % (C.z(nrows), i, attrs_lit)
        defs = 'Definition pt%d : list (Z * column) := %s.\n' % (i, tbl_lit)
        input_kept = df.equals(before) and list(df.columns) == list(before.columns)
        if exc is not None:
            bump('outcome', type(exc).__name__)
            call['observed'] = '%s: %s' % (type(exc).__name__, exc)
            if in_domain:
                exceptions.append({'case': i, 'exc': call['observed'], 'tb': traceback.format_exc()[-1200:],
                                   'call': call})
            exprs = ['presult_same (%s) (PErr %s)' % (model, C.coq_str(type(exc).__name__))]
            wh = ['model = observed exception']
            if in_domain:
                exprs.append('false')
                wh.append('spec: call in the domain raised')
            groups.append((defs, exprs))
            which.append(wh)
            info.append(call)
            continue
        bump('outcome', 'frame')
        call['observed'] = out.to_dict(orient='split') if isinstance(out, pd.DataFrame) else repr(out)
        ok_shape = shape_ok(out)
        rows = []
        if ok_shape:
            for a, (us, ms, cm) in zip(out.index.tolist(), out[HEADER].values.tolist()):
                rl = row_lit(us, ms, cm)
                rows.append(None if (rl is None or a not in name_id) else '(%s, %s)' % (C.z(name_id[a]), rl))
                k = comment_kind(cm, ms)
                bump('comment', k)
        if not ok_shape or any(r is None for r in rows):
            differ.append({'case': i, 'which': 'output not in the modelled shape (header/index/strings)', 'call': call})
            groups.append(('', []))
            which.append([])
            info.append(call)
            continue
        defs += 'Definition po%d : list (Z * prow) := [%s].' % (i, '; '.join(rows))
        exprs = ['presult_same (%s) (POk po%d)' % (model, i)]
        wh = ['model = observed frame']
        if in_domain:
            exprs += ['spec_index pt%d %s po%d' % (i, attrs_lit, i),
                      'spec_rows %s pt%d po%d' % (C.z(nrows), i, i),
                      'true' if input_kept else 'false']
            wh += ['spec: one row per profiled attribute, indexed by name',
                   'spec: counts / percentages / comments of every row',
                   'spec: input table left unmodified']
        call['nontrivial'] = any(comment_kind(cm, ms) != 'CmtKey' for _, ms, cm in out[HEADER].values.tolist())
        # per-row, per-clause breakdown (evaluated only if the row check fails)
        det = []
        for k, a in enumerate(out.index.tolist()):
            pre = ('match lookup_col %s pt%d, nth_error po%d %d%%nat with Some col_, Some (_, r_) => '
                   % (C.z(name_id[a]), i, i, k))
            post = ' | _, _ => false end'
            u_, m_ = 'spec_unique col_', 'spec_missing col_'
            for body, text in (
                    ('spec_counts (%s) (%s) (p_u r_) (p_m r_)' % (u_, m_), 'spec: counts exact'),
                    ('andb (spec_pct %s (%s) (p_upct r_)) (spec_pct %s (%s) (p_mpct r_))' % (C.z(nrows), u_, C.z(nrows), m_),
                     'spec: percentages to two decimals'),
                    ('spec_key %s (%s) (%s) (p_cmt r_)' % (C.z(nrows), u_, m_),
                     'spec: key recommendation iff all distinct and none missing'),
                    ('spec_warn %s (%s) (%s) (p_cmt r_)' % (C.z(nrows), u_, m_),
                     'spec: missing-value warning iff a value is missing')):
                det.append((pre + body + post, '%s (attribute %r)' % (text, a)))
        while len(details) < len(groups):
            details.append(('', []))
        details.append((defs, det))
        groups.append((defs, exprs))
        which.append(wh)
        info.append(call)
    while len(details) < len(groups):
        details.append(('', []))
    bad = C.run_groups('prof_s_%d' % seed, ['Profiler', 'ProfilerSpec'], groups, shard=100)
    spec_fail = []
    second = []
    for gi, ei in sorted(bad):
        ent = {'case': gi, 'which': which[gi][ei], 'call': info[gi]}
        if which[gi][ei].startswith('model'):
            differ.append(ent)
        elif 'every row' in which[gi][ei] and details[gi][1]:
            second.append(gi)
        else:
            spec_fail.append(ent)
    if second:
        g2 = [(details[gi][0], [e for e, _ in details[gi][1]]) for gi in second]
        bad2 = C.run_groups('prof_s2_%d' % seed, ['Profiler', 'ProfilerSpec'], g2, shard=25)
        hit = set()
        for k, ei in sorted(bad2):
            gi = second[k]
            hit.add(gi)
            spec_fail.append({'case': gi, 'which': details[gi][1][ei][1], 'call': info[gi]})
        for gi in second:
            if gi not in hit:
                spec_fail.append({'case': gi, 'which': 'spec: counts / percentages / comments of every row',
                                  'call': info[gi]})
    return {'evaluations': n, 'distribution': dist, 'differ': differ, 'spec_fail': spec_fail,
            'exceptions': exceptions, 'nontrivial': sum(1 for d in info if d.get('nontrivial')),
            'samples': [d for d in info if d.get('nontrivial')][:2]}


def run_mixed(seed, n):
    """Regression stream: object columns holding BOTH None and NaN.  Series.unique() keeps the two
    spellings apart; profile_table_for_join counts len(S.dropna().unique()) and adds one when a cell is
    missing, so the missing value is ONE distinct value.  Everything the small stream checks is checked
    here too (model = observed, exact counts, percentages, comments); a disagreement on a table with such
    a column is reported as a spec failure of the distinct-value count."""
    MIXED[0] = True
    try:
        r = run_small(seed + 5, n)
    finally:
        MIXED[0] = False
    fails = []
    for d in r['differ'] + r['spec_fail']:
        call = d.get('call') if isinstance(d.get('call'), dict) else {}
        mixed = any(c.get('missing') == 'none_and_nan' for c in (call.get('columns') or {}).values())
        if isinstance(call.get('class'), dict):
            call['class'] = dict(call['class'], stream='mixed', mixed_missing=mixed)
        fails.append(dict(d, which='spec: distinct values with a missing value counted once'
                          if mixed else d.get('which')))
    return dict(r, differ=[], spec_fail=fails)


def run_large(seed, n):
    """n tables with 19990..40010 rows and exactly one duplicate / one missing value / neither;
    counts are known by construction, the model is evaluated through profile_counts."""
    from py_stringsimjoin.profiler.profiler import profile_table_for_join
    rng = random.Random(seed + 19)
    groups, info, which = [], [], []
    differ, exceptions = [], []
    dist = {'variant': {}, 'kind': {}, 'comment': {}, 'n_range': {}}
    for i in range(n):
        nrows = rng.choice([20000, 20001, 20002, 19990, 40010, rng.randint(19990, 40010), rng.randint(19990, 40010)])
        variant = rng.choice(['dup', 'missing', 'none', 'dup+missing'])
        kind = rng.choice(['int', 'str', 'float'])
        base = rng.sample(range(10 * nrows), nrows)
        if kind == 'int':
            vals = list(base)
        elif kind == 'float':
            vals = [b * 0.5 for b in base]
        else:
            vals = ['v%d' % b for b in base]
        u, m = nrows, 0
        pos = rng.sample(range(nrows), 3)
        if 'dup' in variant:
            vals[pos[0]] = vals[pos[1]]
            u -= 1
        if 'missing' in variant:
            vals[pos[2]] = None if kind != 'float' else np.nan
            m = 1
            # the missing value replaces a unique one and counts as one value itself: u unchanged
        if kind == 'float':
            ser = pd.Series(vals, dtype=float)
        elif kind == 'str':
            ser = pd.Series(vals, dtype=object)
        else:
            ser = pd.Series(vals, dtype=object if m else None)
        df = pd.DataFrame({'k': ser})
        call = {'nrows': nrows, 'unique': u, 'missing': m, 'variant': variant, 'kind': kind,
                'class': {'entry': 'profile_table_for_join', 'stream': 'large', 'variant': variant}}
        for k, v in (('variant', variant), ('kind', kind),
                     ('n_range', '<=20000' if nrows <= 20000 else ('20001-30000' if nrows <= 30000 else '>30000'))):
            dist[k][v] = dist[k].get(v, 0) + 1
        try:
            out = profile_table_for_join(df)
        except Exception as e:  # noqa
            call['observed'] = '%s: %s' % (type(e).__name__, e)
            exceptions.append({'case': i, 'exc': call['observed'], 'tb': traceback.format_exc()[-1200:], 'call': call})
            differ.append({'case': i, 'which': 'implementation raised', 'call': call})
            groups.append(('', []))
            which.append([])
            info.append(call)
            continue
        call['observed'] = out.to_dict(orient='split')
        rl = None
        if shape_ok(out) and out.index.tolist() == ['k']:
            us, ms, cm = out[HEADER].values.tolist()[0]
            rl = row_lit(us, ms, cm)
            k = comment_kind(cm, ms)
            dist['comment'][str(k)] = dist['comment'].get(str(k), 0) + 1
        if rl is None:
            differ.append({'case': i, 'which': 'output not in the modelled shape (header/index/strings)', 'call': call})
            groups.append(('', []))
            which.append([])
            info.append(call)
            continue
        call['nontrivial'] = variant != 'none'
        defs = 'Definition lo%d : prow := %s.' % (i, rl)
        args = '%s %s %s' % (C.z(nrows), C.z(u), C.z(m))
        exprs = ['prow_same (profile_counts %s) lo%d' % (args, i),
                 'spec_counts %s %s (p_u lo%d) (p_m lo%d)' % (C.z(u), C.z(m), i, i),
                 'andb (spec_pct %s %s (p_upct lo%d)) (spec_pct %s %s (p_mpct lo%d))' % (C.z(nrows), C.z(u), i, C.z(nrows), C.z(m), i),
                 'spec_key %s (p_cmt lo%d)' % (args, i),
                 'spec_warn %s (p_cmt lo%d)' % (args, i)]
        wh = ['model = observed row', 'spec: counts exact', 'spec: percentages to two decimals',
              'spec: key recommendation iff all distinct and none missing',
              'spec: missing-value warning iff a value is missing']
        groups.append((defs, exprs))
        which.append(wh)
        info.append(call)
    bad = C.run_groups('prof_l_%d' % seed, ['Profiler', 'ProfilerSpec'], groups, shard=200)
    spec_fail = []
    for gi, ei in sorted(bad):
        ent = {'case': gi, 'which': which[gi][ei], 'call': info[gi]}
        (differ if which[gi][ei].startswith('model') else spec_fail).append(ent)
    return {'evaluations': n, 'distribution': dist, 'differ': differ, 'spec_fail': spec_fail,
            'exceptions': exceptions, 'nontrivial': sum(1 for d in info if d.get('nontrivial')),
            'samples': [d for d in info if d.get('nontrivial')][:2]}


def run(seed, n):
    """n small random tables + max(12, n // 5) large tables."""
    a = run_small(seed, n)
    b = run_large(seed, max(12, n // 5))
    off = a['evaluations']
    for d in b['differ'] + b['spec_fail'] + b['exceptions']:
        d['case'] += off
    return {'evaluations': a['evaluations'] + b['evaluations'],
            'nontrivial': a['nontrivial'] + b['nontrivial'],
            'distribution': {'small': a['distribution'], 'large': b['distribution']},
            'differ': a['differ'] + b['differ'], 'spec_fail': a['spec_fail'] + b['spec_fail'],
            'exceptions': a['exceptions'] + b['exceptions'], 'samples': a['samples'][:1] + b['samples'][:1]}


if __name__ == '__main__':
    import json
    import time
    seed = int(sys.argv[1]) if len(sys.argv) > 1 else 1
    n = int(sys.argv[2]) if len(sys.argv) > 2 else 100
    t0 = time.time()
    r = run(seed, n)
    print(json.dumps(r['distribution'], default=str))
    print('EVAL', r['evaluations'], 'NONTRIVIAL', r['nontrivial'], 'DIFFER', len(r['differ']),
          'SPEC_FAIL', len(r['spec_fail']), 'EXC', len(r['exceptions']), 'wall %.1fs' % (time.time() - t0))
    for d in r['differ'][:3]:
        print('DIFFER', json.dumps(d, default=str)[:2500])
    for d in r['spec_fail'][:3]:
        print('SPEC_FAIL', json.dumps(d, default=str)[:2500])
    for d in r['exceptions'][:3]:
        print('EXC', json.dumps(d, default=str)[:1500])
