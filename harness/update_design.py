"""Refreshes the generated tables of DESIGN.md: section 15 (seeded changes) and the
"which runs decide which property" table of section 0 (read from harness/props/Cxx.py)."""
import os, re, subprocess, sys
V = os.path.dirname(os.path.dirname(os.path.abspath(__file__)))
t = subprocess.run([sys.executable, os.path.join(V, 'harness', 'seeded_table.py')], capture_output=True, text=True).stdout
p = os.path.join(V, 'DESIGN.md')
s = open(p).read()
a, b = '<!-- seeded-table-begin -->', '<!-- seeded-table-end -->'
i, j = s.index(a) + len(a), s.index(b)
s = s[:i] + '\n' + t + s[j:]

rows = ['| property | correspondence parts run by its check (`harness/props/Cxx.py`; part name = module.function) |', '|---|---|']
for k in range(1, 18):
    pid = 'C%02d' % k
    src = open(os.path.join(V, 'harness', 'props', pid + '.py')).read()
    parts = re.findall(r"Part\('([a-z_0-9]+)',\s*'([a-z_]+)',\s*'([a-z_]+)'", src)
    rows.append('| %s | %s |' % (pid, ', '.join('`%s` = %s.%s' % (n, m, f) for n, m, f in parts)))
a, b = '<!-- parts-table-begin -->', '<!-- parts-table-end -->'
if a in s:
    i, j = s.index(a) + len(a), s.index(b)
    s = s[:i] + '\n' + '\n'.join(rows) + '\n' + s[j:]

# theorem index of section 6.18: every Theorem of every property file, grouped
idx = ['| property file | property theorems about the model / specs | **about the code itself** (`Cxx_code_*`: generated function satisfies the spec) | ties (`generated_*`, `*_refines_model`: regenerated code = model) |', '|---|---|---|---|']
for k in range(1, 18):
    pid = 'C%02d' % k
    src = open(os.path.join(V, 'coq', 'Properties', pid + '.v')).read()
    names = re.findall(r'^(?:Theorem|Corollary)\s+([A-Za-z0-9_\']+)', src, re.M)
    code = [n for n in names if re.match(r'C\d\d_code_', n)]
    ties = [n for n in names if n not in code and (n.startswith('generated_') or 'refines_model' in n or n.endswith('_is_model') or 'code_' in n)]
    rest = [n for n in names if n not in code and n not in ties]
    f = lambda l: ', '.join('`%s`' % n for n in l) if l else '—'
    idx.append('| %s.v | %s | %s | %s |' % (pid, f(rest), f(code), f(ties)))
a, b = '<!-- theorem-index-begin -->', '<!-- theorem-index-end -->'
if a in s:
    i, j = s.index(a) + len(a), s.index(b)
    s = s[:i] + '\n' + '\n'.join(idx) + '\n' + s[j:]
open(p, 'w').write(s)
