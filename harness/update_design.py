"""Refreshes the generated table of DESIGN.md section 15."""
import os, subprocess, sys
V = os.path.dirname(os.path.dirname(os.path.abspath(__file__)))
t = subprocess.run([sys.executable, os.path.join(V, 'harness', 'seeded_table.py')], capture_output=True, text=True).stdout
p = os.path.join(V, 'DESIGN.md')
s = open(p).read()
a, b = '<!-- seeded-table-begin -->', '<!-- seeded-table-end -->'
i, j = s.index(a) + len(a), s.index(b)
open(p, 'w').write(s[:i] + '\n' + t + s[j:])
