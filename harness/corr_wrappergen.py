"""Function-level correspondence for the PUBLIC WRAPPERS

    join/jaccard_join_py.py : jaccard_join_py     -> Gen/WrapperGen.v : jaccard_join_rows
    join/cosine_join_py.py  : cosine_join_py      -> cosine_join_rows
    join/dice_join_py.py    : dice_join_py        -> dice_join_rows
    join/overlap_coefficient_join_py.py : overlap_coefficient_join_py -> overlap_coefficient_join_rows
    join/edit_distance_join_py.py : edit_distance_join_py -> edit_distance_join_rows  (rows compared as
        a multiset and without the _id cell: the candidates of a chunk are a Python set)

The REAL wrapper is run (joblib threading backend, show_progress=False) on random DataFrames:
shuffled and extra columns, missing join values (None and NaN) on either side, unique / shuffled /
repeated index labels, int and str keys, object and `str` dtype join columns; all parameters
(threshold classes, comparison operators, allow_empty, allow_missing, output attribute lists None / [] /
lists with repeats and the key, prefixes -- including '_' which makes the key header collide with
'_id' --, out_sim_score, n_jobs in {1, 2, 3, 5, 7, 0, -1, -2, -100} incl. more jobs than rows), plus
arguments that the KEPT validators reject (unknown attributes, bad operator, bad threshold).
Inputs that the DROPPED validators reject (non-DataFrame, numeric join column, non-unique / missing
keys, invalid tokenizer) are never generated: the generated wrapper makes no claim about them.

The returned DataFrame -- column labels, every row IN ORDER with every cell including `_id` -- is
compared inside Coq (Model/Frame.v: frame_same) with the generated wrapper evaluated on the frame
literals of the two inputs.  The row index of the result is not modelled and not compared.

Canonicalisation (exactly this, see Frame.cell_same): the harness tells Coq which OBSERVED columns have
a float dtype.  In such a column pandas has stored every number as a double and every missing value as
NaN (a column of ints that receives a NaN/None row -- the missing-value pairs, the padding of
_sim_score -- is upcast): the model's cell is re-typed the same way (PInt z -> the double of z,
PNone -> NaN) and compared bit for bit.  In every other column the cells must be structurally
identical (int / float / bool / str distinguished), except that None and NaN are both "missing".

Cells of the INPUT frames are what Series.tolist() hands out (int64 -> int, float64 -> float,
object -> the stored object).  Tokens are interned as small ints that preserve the order of the Python
strings; `tokenizer.tokenize` in the mode the wrapper forces (set mode; bag mode for edit distance) is
an association list from the cell to its token list; `tokenizer.qval` is the tokenizer's qval (None if it
has none); cpu_count_ is multiprocessing.cpu_count().  sim_fn (standing for get_sim_function(measure))
is (differ) a lookup table of the real similarity values on every (ordered left tokens, ordered right
tokens) pair that occurs in some chunk (the token ranks differ from chunk to chunk; the chunks are rebuilt
with the real helpers for this tabulation only), and (spec_fail)
fun x y => PFloat (sim_tok measure x y) of Model/Joins.v, the form the refinement theorem assumes.
"""
import os
import random
import sys

sys.path.insert(0, os.path.dirname(os.path.abspath(__file__)))
import common as C  # noqa: E402
import gens  # noqa: E402
import tables as T  # noqa: E402

if os.environ.get('VERIF_COQ'):       # evaluate against another compiled tree (development only)
    C.QFLAGS[:] = sum((['-Q', os.path.join(os.environ['VERIF_COQ'], d), 'SSJ'] for d in
                       ['Num', 'Base', 'Gen', 'Ext', 'Model', 'Spec', 'Proofs', 'Properties']), [])

IMPORTS = ['FilterUtilsGen', 'HelperGen', 'TokenOrderingGen', 'ValidationGen', 'IndexGen', 'JoinGen',
           'Frame', 'WrapperGen', 'TokenOrdering', 'Filters', 'Joins']

TOKFUN = '(fun s_ : pyval => match dict_lookup %s s_ with Some v_ => v_ | None => PExc "KeyError" end)'
SIMTAB_SORTED = ('(fun a_ b_ : pyval => match dict_lookup %s (PTuple [py_sort a_; py_sort b_]) with '
                 'Some v_ => v_ | None => PExc "KeyError" end)')
SIMTAB = ('(fun a_ b_ : pyval => match dict_lookup %s (PTuple [a_; b_]) with Some v_ => v_ '
          '| None => PExc "KeyError" end)')
SIMTOK = ('(fun a_ b_ : pyval => match a_, b_ with PList x_, PList y_ => '
          'PFloat (sim_tok %s (map (fun v_ => match v_ with PInt z_ => z_ | _ => 0 end) x_) '
          '(map (fun v_ => match v_ with PInt z_ => z_ | _ => 0 end) y_)) | _, _ => PExc "TypeError" end)')

ASCII_WORDS = [w for w in T.WORDS if all(32 <= ord(ch) < 127 for ch in w)]
GEN = {'JACCARD': 'jaccard_join_rows', 'COSINE': 'cosine_join_rows', 'DICE': 'dice_join_rows',
       'OVERLAP_COEFFICIENT': 'overlap_coefficient_join_rows', 'EDIT_DISTANCE': 'edit_distance_join_rows'}


def gen_out(rng, cols, key):
    others = [c for c in cols if c != key]
    r = rng.random()
    if r < 0.3:
        return None
    if r < 0.4:
        return []
    out = rng.sample(others, rng.randint(1, len(others)))
    if rng.random() < 0.12:
        out = out + [out[0]]
    if rng.random() < 0.1:
        out = out + [key]
    if rng.random() < 0.05:
        out = [key]
    return out


def gen_case(rng):
    import pandas as pd
    r = rng.random()
    if r < 0.72:
        m = rng.choice(gens.MEASURES_SET)
    elif r < 0.87:
        m = 'OVERLAP_COEFFICIENT'
    else:
        m = 'EDIT_DISTANCE'
    if m == 'EDIT_DISTANCE':
        kind, tok = T.make_tokenizer(rng, rng.choice(['qgram2', 'qgram3', 'qgram2np']), return_set=rng.random() < 0.5)
        tcls, t = 'int', rng.choice([0, 1, 1, 2, 2, 3, 1.5])
        op = rng.choice(['<=', '<=', '<=', '<', '='])
    else:
        kind, tok = T.make_tokenizer(rng, rng.choice(['ws', 'ws', 'delim', 'qgram2']), return_set=rng.random() < 0.5)
        tcls, t = gens.any_threshold_value(rng)
        if rng.random() > 0.5:
            tcls, t = 'low', rng.choice([0.1, 0.2, 0.25, 0.3, 1.0 / 3, 0.4, 0.5, 0.5, 0.6])
        op = rng.choice(['>=', '>=', '>=', '>=', '>', '>', '='])
    usize = rng.choice([3, 5, 8]) if not kind.startswith('qgram') else rng.choice([2, 3])
    universe = ASCII_WORDS[:usize]
    weights = [rng.choice([1, 1, 2, 4]) for _ in universe]
    nl = rng.choice([0, 1, 2, 3, 4, 6, 8])
    nr = rng.choice([0, 1, 2, 3, 4, 5, 7])
    lkey, ljoin = rng.choice([('id', 's'), ('lid', 'lstr'), ('A.id', 'A.attr')])
    rkey, rjoin = rng.choice([('id', 's'), ('rid', 'rstr'), ('B.id', 'B.attr')])
    mp = rng.choice([0.0, 0.0, 0.15, 0.3])
    L = T.gen_table(rng, kind, universe, weights, nl, lkey, ljoin, mp)
    R = T.gen_table(rng, kind, universe, weights, nr, rkey, rjoin, mp)
    for df, jc in ((L, ljoin), (R, rjoin)):
        if len(df) and rng.random() < 0.3:
            # a string without tokens (allow_empty)
            df.iloc[rng.randrange(len(df)), list(df.columns).index(jc)] = rng.choice(['', ' ' if kind == 'ws' else ''])
        if rng.random() < 0.25:
            df[jc] = df[jc].astype('str') if not df[jc].isnull().any() else df[jc].astype(pd.StringDtype(na_value=float('nan')))
    bad = None
    lout, rout = gen_out(rng, list(L.columns), lkey), gen_out(rng, list(R.columns), rkey)
    names = [lkey, ljoin, rkey, rjoin]
    r = rng.random()
    if r < 0.02:
        op, bad = rng.choice(['==', '<=' if m != 'EDIT_DISTANCE' else '>=', '!=']), 'comp_op'
    elif r < 0.04:
        names[rng.randrange(4)], bad = 'nokey', 'unknown key / join attribute'
    elif r < 0.06:
        rout, bad = (rout or []) + ['zz'], 'r_out_attrs'
    elif r < 0.08:
        lout, bad = ['zz'] + (lout or []), 'l_out_attrs'
    elif r < 0.10:
        t, tcls, bad = rng.choice([0, 0.0, 1.5, -0.25, 2, -1]), 'invalid', 'threshold'
    return dict(measure=m, kind=kind, tok=tok, tcls=tcls, t=t, op=op, bad=bad, L=L, R=R, names=names,
                lout=lout, rout=rout, allow_empty=rng.random() < 0.6, allow_missing=rng.random() < 0.5,
                score=rng.random() < 0.65,
                lpre=rng.choice(['l_', 'l_', 'l_', 'left.', '', '_']), rpre=rng.choice(['r_', 'r_', 'r_', 'right.', '', '_']),
                njobs=rng.choice([1, 1, 2, 2, 3, 5, 7, 0, -1, -2, -100]), q=getattr(tok, 'qval', None))


def frame_lit(df):
    cols = list(df.columns)
    data = [df.iloc[:, j].tolist() for j in range(len(cols))]     # positional: labels may repeat
    rows = [[data[j][i] for j in range(len(cols))] for i in range(len(df))]
    return '(PTuple [%s; %s])' % (C.pyval_lit(rows), C.pyval_lit(cols))


def run_real(cs):
    lkey, ljoin, rkey, rjoin = cs['names']
    return T.call_join(cs['measure'], cs['L'], cs['R'], (lkey, ljoin, rkey, rjoin), cs['tok'], cs['t'], cs['op'],
                       cs['allow_empty'], cs['allow_missing'],
                       None if cs['lout'] is None else list(cs['lout']),
                       None if cs['rout'] is None else list(cs['rout']),
                       cs['score'], cs['njobs'], prefixes=(cs['lpre'], cs['rpre']))


def rank_pairs(cs, tokenize):
    """the (ordered left tokens, ordered right tokens) pairs on which set_sim_join calls sim_fn: the
    token ordering is computed per chunk from the whole projected left table and the chunk of the right
    one, so the chunks are rebuilt here with the REAL helpers (only to tabulate the parameter sim_fn)"""
    from py_stringsimjoin.utils.generic_helper import convert_dataframe_to_array, get_attrs_to_project, \
        get_num_processes_to_launch, remove_redundant_attrs, split_table
    from py_stringsimjoin.utils.token_ordering import gen_token_ordering_for_tables, order_using_token_ordering
    lkey, ljoin, rkey, rjoin = cs['names']
    L, R = cs['L'], cs['R']
    if any(c not in L.columns for c in (lkey, ljoin)) or any(c not in R.columns for c in (rkey, rjoin)):
        return []
    la = convert_dataframe_to_array(L, [lkey, ljoin], ljoin)
    ra = convert_dataframe_to_array(R, [rkey, rjoin], rjoin)
    k = min(get_num_processes_to_launch(cs['njobs']), len(ra))
    chunks = [ra] if k <= 1 else split_table(ra, k)

    class Tk:
        def tokenize(self, s):
            return tokenize(s)
    out = []
    for ch in chunks:
        ordering = gen_token_ordering_for_tables([la, ch], [1, 1], Tk(), cs['measure'])
        lo = [order_using_token_ordering(tokenize(r[1]), ordering) for r in la]
        ro = [order_using_token_ordering(tokenize(r[1]), ordering) for r in ch]
        out += [(x, y) for x in lo for y in ro]
    return out


def dup_header(cs):
    """does the output header repeat a label (same prefix and attribute on both sides)?  (pandas builds,
    concatenates and returns such frames positionally; so does the model)"""
    from py_stringsimjoin.utils.generic_helper import get_output_header_from_tables, remove_redundant_attrs
    lkey, ljoin, rkey, rjoin = cs['names']
    try:
        h = get_output_header_from_tables(lkey, rkey, remove_redundant_attrs(cs['lout'], lkey),
                                          remove_redundant_attrs(cs['rout'], rkey), cs['lpre'], cs['rpre'])
    except Exception:  # noqa
        return False
    if cs['score']:
        h.append('_sim_score')
    return len(set(h)) < len(h)


def multiset_defs(n):
    """edit distance: header strictly; rows WITHOUT their first cell (_id) as a multiset; the _id column
    must be 0..len-1 in order"""
    return [
        LIST_EQB % (n, n),
        'Fixpoint %srem (fl : list bool) (x : list pyval) (l : list (list pyval)) : option (list (list pyval)) := '
        'match l with [] => None | y :: t => if row_same fl x y then Some t else option_map (cons y) (%srem fl x t) end.'
        % (n, n),
        'Fixpoint %sperm (fl : list bool) (a b : list (list pyval)) : bool := match a with [] => match b with [] => true '
        '| _ => false end | x :: t => match %srem fl x b with Some b2 => %sperm fl t b2 | None => false end end.'
        % (n, n, n),
        'Definition %sids (rows : list (list pyval)) : bool := %slist_eqb_pv (map (fun r => hd PNone r) rows) '
        '(map (fun k => PInt (Z.of_nat k)) (seq 0 (List.length rows))).' % (n, n),
        'Definition %ssame (fl : list bool) (model observed : pyval) : bool := match model, observed with '
        '| PExc a, PExc b => String.eqb a b | _, _ => match as_frame model, as_frame observed with '
        '| Some fm, Some fo => cell_strict (PList (fr_cols fm)) (PList (fr_cols fo)) && %sids (fr_rows fm) && '
        '%sids (fr_rows fo) && %sperm (tl fl) (map (@tl pyval) (fr_rows fm)) (map (@tl pyval) (fr_rows fo)) '
        '| _, _ => false end end.' % (n, n, n, n)]


LIST_EQB = ('Fixpoint %slist_eqb_pv (a b : list pyval) : bool := match a, b with [] , [] => true '
            '| x :: a2, y :: b2 => cell_strict x y && %slist_eqb_pv a2 b2 | _, _ => false end.')


def build_case(gi, cs):
    from py_stringsimjoin.utils.simfunctions import get_sim_function
    import pandas as pd
    m, tok = cs['measure'], cs['tok']
    lkey, ljoin, rkey, rjoin = cs['names']
    L, R = cs['L'], cs['R']
    info = {'function': GEN[m], 'measure': m, 'threshold': cs['t'], 'threshold_class': cs['tcls'], 'comp_op': cs['op'],
            'tokenizer': cs['kind'], 'return_set_at_entry': tok.get_return_set(), 'allow_empty': cs['allow_empty'],
            'allow_missing': cs['allow_missing'], 'out_sim_score': cs['score'], 'n_jobs': cs['njobs'],
            'cpu_count': T.cpu_count(), 'names': list(cs['names']), 'l_out_attrs': cs['lout'],
            'r_out_attrs': cs['rout'], 'l_out_prefix': cs['lpre'], 'r_out_prefix': cs['rpre'],
            'ltable': L.to_dict(orient='split'), 'rtable': R.to_dict(orient='split'),
            'l_dtypes': [str(d) for d in L.dtypes], 'r_dtypes': [str(d) for d in R.dtypes], 'invalid': cs['bad']}
    tokenize = T.bag_mode_tokenize(tok) if m == 'EDIT_DISTANCE' else T.set_mode_tokenize(tok)
    state0 = dict(vars(tok))
    try:
        df = run_real(cs)
        cols = list(df.columns)
        flags = [df.iloc[:, j].dtype.kind == 'f' for j in range(len(cols))]
        expected = frame_lit(df)
        info['observed'] = {'columns': cols, 'rows': [list(r) for r in df.itertuples(index=False)],
                            'dtypes': [str(d) for d in df.dtypes]}
        nontrivial = len(df) > 0
        nrows = len(df)
    except Exception as e:  # noqa
        expected = '(PExc %s)' % C.coq_str(type(e).__name__)
        flags = []
        info['observed'] = 'raised %s: %s' % (type(e).__name__, e)
        nontrivial = False
        nrows = -1
    dup = dup_header(cs)
    info['duplicate_output_labels'] = dup
    if dict(vars(tok)) != state0:
        info['tokenizer_state_changed'] = True
        tok.__dict__.update(state0)

    def present(df, col):
        if col not in df.columns:
            return []
        return [v for v in df[col].tolist() if not T.is_missing(v)]
    lstr, rstr = present(L, ljoin), present(R, rjoin)
    strs = [s for s in lstr + rstr if isinstance(s, str)]
    ids = {w: i for i, w in enumerate(sorted(set(w for s in strs for w in tokenize(s))))}
    seen, titems = set(), []
    for s in strs:
        if s in seen:
            continue
        seen.add(s)
        titems.append('PTuple [%s; PList [%s]]' % (C.pyval_lit(s), '; '.join('PInt %d' % ids[w] for w in tokenize(s))))
    n = 'w%d_' % gi
    defs = ['Definition %sL := %s.' % (n, frame_lit(L)),
            'Definition %sR := %s.' % (n, frame_lit(R)),
            'Definition %stok := %s.' % (n, TOKFUN % ('[%s]' % '; '.join(titems))),
            'Definition %sexp := %s.' % (n, expected),
            'Definition %sfl : list bool := [%s].' % (n, '; '.join('true' if f else 'false' for f in flags))]
    b = C.pyval_lit
    head = ' '.join(b(x) for x in (lkey, rkey, ljoin, rjoin, cs['t'], cs['op']))
    tail = ' '.join(b(x) for x in (cs['lout'], cs['rout'], cs['lpre'], cs['rpre'], cs['score'], cs['njobs'], False,
                                   T.cpu_count()))
    if m == 'EDIT_DISTANCE':
        sim = get_sim_function(m)
        seen, entries = set(), []
        for x in lstr:
            for y in rstr:
                if (x, y) in seen or not (isinstance(x, str) and isinstance(y, str)):
                    continue
                seen.add((x, y))
                entries.append('PTuple [PTuple [%s; %s]; %s]' % (b(x), b(y), b(sim(x, y))))
        defs.append('Definition %ssim := %s.' % (n, SIMTAB % ('[%s]' % '; '.join(entries))))
        defs += multiset_defs(n)
        callx = '%s %sL %sR %s %s %s %s %stok %ssim' % (GEN[m], n, n, head, b(cs['allow_missing']), tail, b(cs['q']), n, n)
        exprs = ['%ssame %sfl (%s) %sexp' % (n, n, callx, n)]
        labels = ['edit_distance_join_rows (rows as a multiset, _id = 0..n-1)']
    elif m == 'OVERLAP_COEFFICIENT':
        callx = '%s %sL %sR %s %s %s %s %stok' % (GEN[m], n, n, head, b(cs['allow_empty']), b(cs['allow_missing']),
                                               tail, n)
        exprs = ['frame_same %sfl (%s) %sexp' % (n, callx, n)]
        labels = ['overlap_coefficient_join_rows']
    else:
        sim = get_sim_function(m)
        seen, entries = set(), []
        for xr, yr in rank_pairs(cs, tokenize):
            k = (tuple(xr), tuple(yr))
            if k in seen:
                continue
            seen.add(k)
            entries.append('PTuple [PTuple [%s; %s]; %s]' % (b(list(xr)), b(list(yr)), b(sim(xr, yr))))
        defs.append('Definition %ssim := %s.' % (n, SIMTAB % ('[%s]' % '; '.join(entries))))
        callx = '%s %sL %sR %s %s %s %s %s %stok %%s' % (GEN[m], n, n, head, b(cs['allow_empty']),
                                                       b(cs['allow_missing']), tail, b(cs['q']), n)
        exprs = ['frame_same %sfl (%s) %sexp' % (n, callx % ('%ssim' % n), n),
                 'frame_same %sfl (%s) %sexp' % (n, callx % (SIMTOK % C.coq_str(m)), n)]
        labels = ['%s (sim_fn = table of the real similarity values)' % GEN[m],
                  '%s (sim_fn = sim_tok of Model/Joins.v)' % GEN[m]]
    return '\n'.join(defs), exprs, labels, info, nontrivial, nrows


def run(seed, n):
    rng = random.Random(seed + 977)
    res = {'evaluations': 0, 'nontrivial': 0, 'distribution': {}, 'differ': [], 'spec_fail': [],
           'exceptions': [], 'samples': []}
    groups, meta = [], []
    for k in range(n):
        cs = gen_case(rng)
        try:
            defs, exprs, labels, info, nontriv, nrows = build_case(k, cs)
        except Exception as e:  # noqa   (the harness itself failed on this case)
            res['exceptions'].append({'case': k, 'call': {'measure': cs['measure'], 'threshold': cs['t'],
                                                          'harness_exception': '%s: %s' % (type(e).__name__, e)}})
            continue
        kind = 'raises' if nrows < 0 else ('rows' if nrows else 'no rows')
        par = 'par' if cs['njobs'] not in (0, 1) else 'seq'
        key = '%s/%s/%s/%s' % (cs['measure'], kind, par, 'missing' if cs['allow_missing'] else 'nomissing')
        if info['duplicate_output_labels']:
            key = 'repeated output label/' + kind
        res['distribution'][key] = res['distribution'].get(key, 0) + 1
        res['evaluations'] += len(exprs)
        res['nontrivial'] += 1 if nontriv else 0
        groups.append((defs, exprs))
        meta.append((k, labels, info))
        if len(res['samples']) < 2 and nontriv:
            res['samples'].append(info)
    bad = C.run_groups('wrappergen_%d' % seed, IMPORTS, groups, shard=25)
    for gi, ei in sorted(bad):
        k, labels, info = meta[gi]
        rec = {'case': k, 'which': 'generated %s vs the real function' % labels[ei], 'call': info}
        (res['differ'] if ei == 0 else res['spec_fail']).append(rec)
    return res


if __name__ == '__main__':
    import json
    import time
    t0 = time.time()
    r = run(int(sys.argv[1]) if len(sys.argv) > 1 else 1, int(sys.argv[2]) if len(sys.argv) > 2 else 200)
    print('EVAL', r['evaluations'], 'NONTRIVIAL', r['nontrivial'], 'DIFFER', len(r['differ']), 'SPEC_FAIL',
          len(r['spec_fail']), 'EXC', len(r['exceptions']), 'WALL %.1fs' % (time.time() - t0))
    print(json.dumps(r['distribution'], sort_keys=True))
    for d in (r['differ'] + r['spec_fail'] + r['exceptions'])[:4]:
        print(json.dumps(d, default=str)[:3000])
