"""C11: output columns and projection.  Whole join / filter_tables calls with every shape of
l_out_attrs / r_out_attrs; the projection model composed from the GENERATED generic_helper
functions (Model/Projection.v) and the declarative spec (Spec/ProjSpec.v) are evaluated inside
Coq on the observed header and on every observed row against its two source rows."""
import math
import os
import random
import sys

import numpy as np
import pandas as pd

sys.path.insert(0, os.path.dirname(os.path.abspath(__file__)))
import common as C  # noqa: E402
import tables as T  # noqa: E402
import corr_joins as J  # noqa: E402
import corr_filters as F  # noqa: E402

IMPORTS = ['Projection', 'ProjSpec']


class Strs:
    """Equality-preserving ASCII interning of arbitrary strings (cells are only compared)."""

    def __init__(self):
        self.ids = {}

    def lit(self, s):
        if s not in self.ids:
            self.ids[s] = len(self.ids)
        return '(PStr "s%d")' % self.ids[s]


def cell_lit(v, strs):
    if v is None or v is pd.NA or (isinstance(v, (float, np.floating)) and math.isnan(v)):
        return 'PNone'
    if isinstance(v, (bool, np.bool_)):
        return '(PBool %s)' % ('true' if v else 'false')
    if isinstance(v, (int, np.integer)):
        return '(PInt %s)' % C.z(int(v))
    if isinstance(v, (float, np.floating)):
        return '(PFloat %s)' % C.float_lit(float(v))
    return strs.lit(str(v))


def out_attrs(rng, cols, key, join):
    r = rng.random()
    if r < 0.2:
        return None
    if r < 0.3:
        return []
    k = rng.randint(1, min(5, len(cols) + 2))
    pool = list(cols) + [key, join]
    return [rng.choice(pool) for _ in range(k)]


def opt_list(x):
    if x is None:
        return 'None'
    return 'Some [%s]' % '; '.join(C.coq_str(a) for a in x)


def pcase_lit(call, with_score):
    n = call['names']
    b = lambda x: 'true' if x else 'false'
    return ('{| p_lcols := [%s]; p_rcols := [%s]; p_lkey := %s; p_rkey := %s; p_ljoin := %s; p_rjoin := %s;\n'
            '   p_lout := %s; p_rout := %s; p_lpre := %s; p_rpre := %s; p_score := %s |}' % (
                '; '.join(C.coq_str(c) for c in call['L'].columns), '; '.join(C.coq_str(c) for c in call['R'].columns),
                C.coq_str(n[0]), C.coq_str(n[2]), C.coq_str(n[1]), C.coq_str(n[3]),
                opt_list(call['l_out']), opt_list(call['r_out']), C.coq_str(call['prefixes'][0]),
                C.coq_str(call['prefixes'][1]), b(with_score)))


def run(seed, n):
    import joblib
    rng = random.Random(seed + 211)
    groups, info = [], []
    res = {'evaluations': 0, 'distribution': {'entry': {}, 'l_out': {}, 'rows': {}, 'branches': {}}, 'differ': [],
           'spec_fail': [], 'exceptions': [], 'nontrivial': 0, 'samples': []}
    for i in range(n):
        kind = rng.choice(['join', 'join', 'join', 'filter'])
        if kind == 'join':
            call = J.gen_call(rng, None)
        else:
            call = F.gen_tables_call(rng)
        names = call['names']
        call['l_out'] = out_attrs(rng, call['L'].columns, names[0], names[1])
        call['r_out'] = out_attrs(rng, call['R'].columns, names[2], names[3])
        if kind == 'join' and rng.random() < 0.2 and len(call['L']) > 0:
            # self-join: the SAME DataFrame object on both sides, out attrs = the same columns in another order
            Lx = call['L']
            extra = [c for c in Lx.columns if c not in (names[0], names[1])]
            while len(extra) < 2:
                cn = 'e%d' % len(extra)
                Lx = Lx.copy()
                Lx[cn] = [rng.randint(0, 9) for _ in range(len(Lx))]
                extra.append(cn)
            call['L'] = call['R'] = Lx
            call['names'] = names = (names[0], names[1], names[0], names[1])
            lo = rng.sample(extra, rng.randint(2, len(extra)))
            ro = list(lo)
            while ro == lo:
                rng.shuffle(ro)
            if rng.random() < 0.3:
                lo = lo + [names[1]]
            call['l_out'], call['r_out'] = lo, ro
            call['self_join'] = True
        call['prefixes'] = rng.choice([('l_', 'r_'), ('l_', 'r_'), ('ltable.', 'rtable.'), ('', 'R')])
        if call['prefixes'] == ('', 'R') and (call['l_out'] or call['r_out']):
            call['prefixes'] = ('L', 'R')     # keep output column names distinct
        call['allow_missing'] = rng.random() < 0.5
        try:
            with joblib.parallel_config(backend=T.C_BACKEND[0]):
                if kind == 'join':
                    out = T.call_join(call['measure'], call['L'], call['R'], names, call['tok'], call['t'], call['op'],
                                      call['allow_empty'], call['allow_missing'], call['l_out'], call['r_out'],
                                      call['with_score'], call['njobs'], prefixes=call['prefixes'])
                    with_score = call['with_score']
                    entry = call['measure']
                else:
                    import py_stringsimjoin as ssj
                    am = call['allow_missing']
                    if call['which'] == 'overlap':
                        flt = ssj.OverlapFilter(call['tok'], call['t'], call['op'], am)
                        out = flt.filter_tables(call['L'], call['R'], names[0], names[2], names[1], names[3],
                                                call['l_out'], call['r_out'], call['prefixes'][0], call['prefixes'][1],
                                                call['with_score'], call['njobs'], False)
                        with_score = call['with_score']
                    else:
                        cls = {'size': ssj.SizeFilter, 'prefix': ssj.PrefixFilter, 'position': ssj.PositionFilter,
                               'suffix': ssj.SuffixFilter}[call['which']]
                        flt = cls(call['tok'], call['measure'], call['t'], call['allow_empty'], am)
                        out = flt.filter_tables(call['L'], call['R'], names[0], names[2], names[1], names[3],
                                                call['l_out'], call['r_out'], call['prefixes'][0], call['prefixes'][1],
                                                call['njobs'], False)
                        with_score = False
                    entry = 'filter:' + call['which']
        except Exception as e:  # noqa
            import traceback
            res['exceptions'].append({'case': i, 'call': dict(describe(call), observed_exception='%s: %s' % (type(e).__name__, e)),
                                      'traceback': traceback.format_exc()[-1500:]})
            groups.append(('', []))
            info.append([])
            continue
        res['evaluations'] += 1
        d = res['distribution']
        d['entry'][entry] = d['entry'].get(entry, 0) + 1
        shape = 'None' if call['l_out'] is None else ('[]' if not call['l_out'] else 'list')
        d['l_out'][shape] = d['l_out'].get(shape, 0) + 1
        strs = Strs()
        defs = ['Definition pc%d : pcase := %s.' % (i, pcase_lit(call, with_score))]
        exprs = ['well_formedb pc%d' % i,
                 'header_ok pc%d [%s]' % (i, '; '.join(C.coq_str(c) for c in out.columns)),
                 'match out_header pc%d with Some h => list_beq_str h [%s] | None => false end'
                 % (i, '; '.join(C.coq_str(c) for c in out.columns))]
        meta = ['well_formed', 'header_ok (declarative header)', 'generated helpers give the observed header']
        lrows = {k: r for k, r in zip(call['L'][names[0]].tolist(), call['L'].itertuples(index=False, name=None))}
        rrows = {k: r for k, r in zip(call['R'][names[2]].tolist(), call['R'].itertuples(index=False, name=None))}
        lcol, rcol = call['prefixes'][0] + names[0], call['prefixes'][1] + names[2]
        cols = [c for c in out.columns if c not in ('_id', '_sim_score')]
        ok_cols = lcol in out.columns and rcol in out.columns
        nrows = 0
        if ok_cols:
            sub = out[cols]
            lpos = cols.index(lcol)
            rpos = cols.index(rcol)
            for row in sub.itertuples(index=False, name=None):
                if nrows >= 25:
                    break
                lk, rk = row[lpos], row[rpos]
                if lk not in lrows or rk not in rrows:
                    exprs.append('false')
                    meta.append('output row names a key that is not in the source table')
                    continue
                ll = '[%s]' % '; '.join(cell_lit(v, strs) for v in lrows[lk])
                rl = '[%s]' % '; '.join(cell_lit(v, strs) for v in rrows[rk])
                ol = '[%s]' % '; '.join(cell_lit(v, strs) for v in row)
                missing = T.is_missing(call['L'].loc[call['L'][names[0]] == lk, names[1]].iloc[0]) or \
                    T.is_missing(call['R'].loc[call['R'][names[2]] == rk, names[3]].iloc[0])
                br = 'missing' if missing else 'normal'
                d['branches'][br] = d['branches'].get(br, 0) + 1
                exprs.append('cells_ok pc%d %s %s %s' % (i, ll, rl, ol))
                meta.append('cells_ok (projected values = source values)')
                model = 'out_cells_mv' if missing else 'out_cells'
                exprs.append('match %s pc%d %s %s with Some cs => list_beq_cell cs %s | None => false end'
                             % (model, i, ll, rl, ol))
                meta.append('%s (generated helpers) gives the observed cells' % model)
                nrows += 1
        else:
            exprs.append('false')
            meta.append('key columns absent from the output')
        d['rows'][str(min(nrows, 5))] = d['rows'].get(str(min(nrows, 5)), 0) + 1
        if nrows and (call['l_out'] or call['r_out']):
            res['nontrivial'] += 1
        defs.append('Definition list_beq_str := fun a b : list string => if list_eq_dec string_dec a b then true else false.')
        groups.append(('\n'.join(defs[:1]), exprs))
        desc = describe(call)
        desc['observed'] = out.to_dict(orient='split')
        info.append([dict(which=m, call=desc) for m in meta])
        if len(res['samples']) < 2:
            res['samples'].append(desc)
    pre = ('Definition list_beq_str (a b : list string) : bool := if list_eq_dec string_dec a b then true else false.\n'
           'Fixpoint list_beq_cell (a b : list pyval) : bool := match a, b with [] , [] => true '
           '| x :: a\', y :: b\' => cell_eqb x y && list_beq_cell a\' b\' | _, _ => false end.\n')
    if groups:
        groups[0] = (pre + groups[0][0], groups[0][1])
    bad = run_groups_with_prelude('proj_%d' % seed, groups, pre)
    for gi, ei in sorted(bad):
        m = info[gi][ei]
        tgt = res['differ'] if 'generated helpers' in m['which'] else res['spec_fail']
        tgt.append({'case': gi, 'which': m['which'], 'call': m['call']})
    return res


def run_groups_with_prelude(tag, groups, pre, shard=40):
    """run_groups puts several groups in a file; the prelude must open every file."""
    out = set()
    for k in range(0, len(groups), shard):
        chunk = list(groups[k:k + shard])
        # ensure the prelude is at the top of this file exactly once
        first = chunk[0]
        body = first[0][len(pre):] if first[0].startswith(pre) else first[0]
        chunk[0] = (pre + body, first[1])
        for gi, ei in C.run_groups('%s_%d' % (tag, k), IMPORTS, chunk, shard=len(chunk)):
            out.add((gi + k, ei))
    return out


def describe(call):
    d = {k: call.get(k) for k in ('measure', 'which', 'kind', 'op', 'allow_empty', 'allow_missing', 'with_score',
                                  'njobs', 'l_out', 'r_out', 'prefixes', 'self_join')}
    t = call['t']
    d['threshold'] = t.hex() if isinstance(t, float) else t
    d['names'] = list(call['names'])
    d['ltable'] = call['L'].to_dict(orient='split')
    d['rtable'] = call['R'].to_dict(orient='split')
    return d


if __name__ == '__main__':
    import json
    seed = int(sys.argv[1]) if len(sys.argv) > 1 else 1
    n = int(sys.argv[2]) if len(sys.argv) > 2 else 60
    r = run(seed, n)
    print(json.dumps(r['distribution'], default=str))
    print('EVAL', r['evaluations'], 'NONTRIVIAL', r['nontrivial'], 'DIFFER', len(r['differ']), 'SPEC_FAIL',
          len(r['spec_fail']), 'EXC', len(r['exceptions']))
    seen = set()
    for dd in r['differ'] + r['spec_fail']:
        if dd['which'] in seen:
            continue
        seen.add(dd['which'])
        print(json.dumps(dd, default=str)[:2500])
    for dd in r['exceptions'][:3]:
        print(json.dumps(dd, default=str)[:1800])
