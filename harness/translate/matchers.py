"""matcher/apply_matcher.py and Filter.filter_candset (filter/filter.py) as pure functions over `pyval`
(Gen/MatcherGen.v).  Syntactic and fail-closed, built on wrappers.py (FrameTyper, the Parallel rewrite,
the validator discipline) and py2coq.py.  DataFrames are values of the frame model coq/Model/Frame.v.

Generated definitions (in this order)
  build_dict_from_table        utils/generic_helper.py; table: frame; tuple(row) -> py_tuple,
                               pd.isnull(cell) -> py_isnull (prelude of Gen/FilterPairGen.v)
  split_table_frame            utils/generic_helper.py:split_table with table: FRAME
                               (table[a:b] -> frame_slice, len(table) -> frame_len); the list version is
                               Gen/WrapperGen.v:split_table
  generate_tokens              matcher/apply_matcher.py; the token cache
  apply_matcher_split_rows     matcher/apply_matcher.py:_apply_matcher_split; returns a frame
  apply_matcher_rows           matcher/apply_matcher.py:apply_matcher; returns a frame
  filter_candset_split_rows    filter/filter.py:_filter_candset_split; returns a frame
  filter_candset_rows          filter/filter.py:Filter.filter_candset; returns a frame

Rewrites, beyond those of wrappers.py (a)-(g) (validators, Parallel, get_num_processes_to_launch,
frame operations, `if show_progress:` blocks, defaults dropped):
 (m1) VALIDATORS.  The body starts with a run of `validate_X(args)` statements, in which the single
      statement `if tokenizer is not None: validate_tokenizer(tokenizer)` may stand.  Kept (generated
      definitions): validate_attr, validate_output_attrs, and validate_comp_op (prelude:
      validate_comp_op_keys of ValidationGen.v applied to comp_op_keys of HelperGen.v; gen.preprocess has
      checked the shape `comp_op not in COMP_OP_MAP.keys()`, and validation.py must import COMP_OP_MAP from
      utils.generic_helper).  Dropped under the conditions of wrappers.py (a): validate_input_table,
      validate_attr_type, validate_key_attr, validate_tokenizer.  The generated functions describe the
      calls on which the dropped validators return: DataFrame arguments, non-numeric filter attributes,
      key attributes with unique, non-missing values, tokenizer None or a Tokenizer.
 (m2) `sim_function` (apply_matcher) is a FUNCTION parameter (pyval -> pyval -> pyval): it may only be
      called with two arguments or be passed on, unchanged, in the position of the per-chunk function's
      parameter of the same name.  Likewise `self` of Filter.filter_candset is only passed on as
      `filter_object`, and `filter_object.filter_pair(a, b)` is the function parameter `filter_pair`
      (no other use of filter_object / self; no subclass of Filter in filter/*.py overrides
      filter_candset).
 (m3) `tokenizer` stays a plain parameter for the tests `tokenizer is not None` (PNone = no tokenizer) and
      `tokenizer.tokenize(x)` is the function parameter tokenizer_tokenize (py2coq method parameter).
 (m4) frame operations added to wrappers.FrameTyper: `T.empty` -> frame_empty, `T[a:b]` -> frame_slice,
      `T[[a, b]]` (a list display of label parameters) -> frame_select, `S[i]` for S the list of frames
      returned by split_table -> py_getitem, `T[m]` for a local list m of booleans (bound once to `[]`,
      otherwise only `m.append(not <expr>)`) -> frame_mask (positional, as pandas does for a list),
      `pd.isnull(c)` of a cell -> py_isnull, `tuple(row)` -> py_tuple,
      `dict(zip(T[k], T[a].apply(tokenizer.tokenize)))` -> series_zip_dict(frame_col(T,k),
      [tokenizer.tokenize(x) for x in frame_col(T,a)]).
 (m5) `COMP_OP_MAP[comp_op]` -> comp_op_lookup of Gen/JoinGen.v (py2coq fun_tables).
 The per-chunk functions end in `t = pd.DataFrame(rows, columns=header); return t` / `return candset[valid_rows]`
 and return a frame value (frame_make / frame_mask).
 NOT MODELLED, as in Model/Frame.v: the row index (`T[a:b]` with int bounds is positional in pandas >= 2
 whatever the index holds -- checked by corr_matchergen.py with shuffled / repeated labels and, by hand, with
 a float index), dtypes.  `candset[valid_rows]` with an EMPTY list is a
 column selection in pandas (a frame without columns); the model returns the empty frame with its columns
 (unreachable from filter_candset: `candset.empty` returns first and every chunk has a row).
"""
import ast
import copy
import hashlib
import os

import py2coq
from py2coq import Unsupported
import joins
import methods
import wrappers
from wrappers import name, call

HEADER = '''(* GENERATED from %s by harness/translate -- do not edit.  sha256(sources)=%s
   matcher/apply_matcher.py and Filter.filter_candset as functions from frame values (Model/Frame.v) to a
   frame value.  See harness/translate/matchers.py for the rewrites; per function:
%s *)
From Coq Require Import ZArith Bool List String.
From SSJ Require Import F64 PyNum HelperGen ValidationGen JoinGen Frame WrapperGen FilterPairGen.
Import ListNotations.
Open Scope string_scope.
Open Scope Z_scope.

(* ---- T.empty: no rows or no columns ---- *)
Definition frame_empty (v : pyval) : pyval :=
  with_frame v (fun f => PBool (Nat.eqb (List.length (fr_rows f)) 0 || Nat.eqb (List.length (fr_cols f)) 0)).

(* ---- T[a:b], a and b ints: the rows at positions a..b-1 (Python slice clamping) ---- *)
Definition frame_slice (v lo hi : pyval) : pyval :=
  match v, lo, hi with
  | PExc _, _, _ => v | _, PExc _, _ => lo | _, _, PExc _ => hi
  | _, PInt a, PInt b =>
      with_frame v (fun f =>
        let n := List.length (fr_rows f) in
        let a' := clamp n a in let b' := clamp n b in
        frame_val {| fr_cols := fr_cols f; fr_rows := firstn (b' - a') (skipn a' (fr_rows f)) |})
  | _, _, _ => OutsideFrameModel
  end.

(* ---- tuple(x) ---- *)
Definition py_tuple (v : pyval) : pyval :=
  match py_iter v with inr e => e | inl xs => PTuple xs end.

(* ---- dict(zip(keys, values)) of two columns: a later pair with the same key overwrites ---- *)
Definition series_zip_dict (ks vs : pyval) : pyval :=
  match ks, vs with
  | PExc _, _ => ks | _, PExc _ => vs
  | PList a, PList b =>
      fold_left (fun d kv => py_setitem d (fst kv) (snd kv)) (combine a b) (PDict [])
  | _, _ => OutsideFrameModel
  end.

(* ---- utils/validation.py:validate_comp_op: `comp_op not in COMP_OP_MAP.keys()` ---- *)
Definition validate_comp_op (v_comp_op : pyval) : pyval := validate_comp_op_keys v_comp_op comp_op_keys.

'''

VALIDATION = wrappers.VALIDATION
HELPER = wrappers.HELPER
MATCHER = 'py_stringsimjoin/matcher/apply_matcher.py'
FILTER = 'py_stringsimjoin/filter/filter.py'
FILTER_SUBCLASSES = ['py_stringsimjoin/filter/overlap_filter.py', 'py_stringsimjoin/filter/position_filter.py',
                     'py_stringsimjoin/filter/prefix_filter.py', 'py_stringsimjoin/filter/size_filter.py',
                     'py_stringsimjoin/filter/suffix_filter.py']

KEPT_VALIDATORS = ['validate_attr', 'validate_output_attrs', 'validate_comp_op']
DROPPED_VALIDATORS = ['validate_input_table', 'validate_attr_type', 'validate_key_attr', 'validate_tokenizer']

EXPECTED = {
    'delayed': 'joblib', 'Parallel': 'joblib',
    'build_dict_from_table': 'py_stringsimjoin.utils.generic_helper',
    'find_output_attribute_indices': 'py_stringsimjoin.utils.generic_helper',
    'get_attrs_to_project': 'py_stringsimjoin.utils.generic_helper',
    'get_num_processes_to_launch': 'py_stringsimjoin.utils.generic_helper',
    'get_output_header_from_tables': 'py_stringsimjoin.utils.generic_helper',
    'get_output_row_from_tables': 'py_stringsimjoin.utils.generic_helper',
    'remove_redundant_attrs': 'py_stringsimjoin.utils.generic_helper',
    'split_table': 'py_stringsimjoin.utils.generic_helper',
    'COMP_OP_MAP': 'py_stringsimjoin.utils.generic_helper',
    'xrange': 'six.moves',
}
for _v in KEPT_VALIDATORS + DROPPED_VALIDATORS:
    EXPECTED[_v] = 'py_stringsimjoin.utils.validation'
MODULES = {'pd': 'pandas', 'np': 'numpy', 'pyprind': 'pyprind'}
BUILTINS = {'len', 'round', 'range', 'True', 'False', 'None', 'min', 'max', 'int', 'float', 'list', 'print',
            'tuple', 'dict', 'zip'}

# primitives of the prelude above (and of FilterPairGen / JoinGen) : name -> (argument types, result type)
NEW_PRIMS = {'frame_empty': (['frame'], 'val'), 'frame_slice': (['frame', 'val', 'val'], 'frame'),
             'py_tuple': (['val'], 'val'), 'series_zip_dict': (['series', 'val'], 'val')}
RESERVED = set(NEW_PRIMS) | set(wrappers.PRIMS) | {'py_isnull', 'py_nan', 'comp_op_lookup', 'py_listcomp',
                                                    'cpu_count_', 'filter_pair', 'tok_x_'}


def check_imports(tree, fn, local_defs=()):
    """every free name of fn is a builtin, a checked module alias, a module-level function listed in
    local_defs, or imported under its own name from the module it is expected to come from"""
    names, mods = joins.import_table(tree)
    bound = set(a.arg for a in fn.args.args)
    for n in ast.walk(fn):
        if isinstance(n, ast.Name) and isinstance(n.ctx, ast.Store):
            bound.add(n.id)
    toplevel = set()
    for n in tree.body:
        if isinstance(n, (ast.FunctionDef, ast.ClassDef)):
            toplevel.add(n.name)
        if isinstance(n, (ast.Assign, ast.AugAssign, ast.AnnAssign)):
            for t in (n.targets if isinstance(n, ast.Assign) else [n.target]):
                for e in ast.walk(t):
                    if isinstance(e, ast.Name):
                        toplevel.add(e.id)
    for n in ast.walk(fn):
        if isinstance(n, ast.Name) and n.id in RESERVED and n.id != 'filter_pair':
            raise Unsupported('source uses the reserved name ' + n.id)
        if isinstance(n, ast.Name) and isinstance(n.ctx, ast.Load) and n.id not in bound:
            if n.id in BUILTINS:
                if n.id in names or n.id in toplevel or n.id in mods:
                    raise Unsupported('builtin %s is shadowed' % n.id)
                continue
            if n.id in mods:
                if MODULES.get(n.id) != mods[n.id]:
                    raise Unsupported('module alias %s = %s' % (n.id, mods[n.id]))
                continue
            if n.id in toplevel:
                if n.id in local_defs:
                    continue
                raise Unsupported('use of module-level definition %s' % n.id)
            if n.id not in names:
                raise Unsupported('free name %s is not imported' % n.id)
            mod, orig = names[n.id]
            if orig != n.id or EXPECTED.get(n.id) != mod:
                raise Unsupported('%s is imported from %s.%s' % (n.id, mod, orig))
    for b in BUILTINS:
        if b in bound and any(isinstance(n, ast.Call) and isinstance(n.func, ast.Name) and n.func.id == b
                              for n in ast.walk(fn)):
            raise Unsupported('builtin %s is rebound in %s' % (b, fn.name))


def is_name(e, x=None):
    return isinstance(e, ast.Name) and (x is None or e.id == x)


class MatcherTyper(wrappers.FrameTyper):
    """wrappers.FrameTyper + the frame operations of apply_matcher.py / filter.py, see (m4)"""

    def __init__(self, fn, frames, lists, labels, helpers, notes, boolmasks=(), framelists=()):
        wrappers.FrameTyper.__init__(self, fn, frames, lists, labels, helpers, notes)
        self.boolmasks = set(boolmasks)
        self.framelists = set(framelists)     # local lists that only ever receive frames (x.append(<frame>))
        for n in ast.walk(fn):
            if isinstance(n, ast.Name) and n.id == 'tok_x_':
                raise Unsupported('name clash tok_x_')

    def free_global(self, nm):
        return nm not in self.params and nm not in self.env and nm not in joins.assigned_anywhere(self.fn)

    def rw(self, e):
        if isinstance(e, ast.Attribute) and e.attr == 'empty':
            return call('frame_empty', self.want(e.value, 'frame', '.empty')), 'val'
        if isinstance(e, ast.Subscript):
            b, tb = self.rw(e.value)
            k = e.slice
            if tb == 'frames':
                if isinstance(k, ast.Slice):
                    raise Unsupported('slice of a list of frames')
                return ast.Subscript(value=b, slice=self.val(k), ctx=ast.Load()), 'frame'
            if tb == 'frame':
                if isinstance(k, ast.Slice):
                    if k.step is not None or k.lower is None or k.upper is None:
                        raise Unsupported('frame slice shape ' + ast.unparse(e))
                    return call('frame_slice', b, self.val(k.lower), self.val(k.upper)), 'frame'
                if isinstance(k, ast.List) and k.elts and all(is_name(x) and x.id in self.labels for x in k.elts):
                    return call('frame_select', b, ast.List(elts=list(k.elts), ctx=ast.Load())), 'frame'
                if is_name(k) and k.id in self.boolmasks:
                    return call('frame_mask', b, k), 'frame'
        return wrappers.FrameTyper.rw(self, e)

    def rw_call(self, c):
        f = c.func
        # pd.isnull(cell) / pd.notnull of a VALUE (a cell): left for py2coq's ext_calls
        if isinstance(f, ast.Attribute) and is_name(f.value, 'pd') and self.free_global('pd') and \
                f.attr == 'isnull' and len(c.args) == 1 and not c.keywords:
            a, ta = self.rw(c.args[0])
            if ta == 'val':
                return ast.Call(func=f, args=[a], keywords=[]), 'val'
            if ta != 'series':
                raise Unsupported('pd.isnull of a ' + ta)
        # xs.append(<frame>) for a configured local list of frames
        if isinstance(f, ast.Attribute) and f.attr == 'append' and is_name(f.value) and \
                f.value.id in self.framelists and len(c.args) == 1 and not c.keywords:
            return ast.Call(func=f, args=[self.want(c.args[0], 'frame', 'append to a list of frames')],
                            keywords=[]), 'val'
        # tuple(x)
        if is_name(f, 'tuple') and self.free_global('tuple') and len(c.args) == 1 and not c.keywords:
            return call('py_tuple', self.val(c.args[0])), 'val'
        # dict(zip(S1, S2.apply(tokenizer.tokenize)))
        if is_name(f, 'dict') and self.free_global('dict'):
            ok = len(c.args) == 1 and not c.keywords and isinstance(c.args[0], ast.Call) and \
                is_name(c.args[0].func, 'zip') and self.free_global('zip') and len(c.args[0].args) == 2 and \
                not c.args[0].keywords
            z = c.args[0] if ok else None
            ap = z.args[1] if ok else None
            ok = ok and isinstance(ap, ast.Call) and isinstance(ap.func, ast.Attribute) and ap.func.attr == 'apply' \
                and len(ap.args) == 1 and not ap.keywords and isinstance(ap.args[0], ast.Attribute) and \
                ap.args[0].attr == 'tokenize' and is_name(ap.args[0].value, 'tokenizer') and \
                'tokenizer' in self.params and 'tokenizer' not in joins.assigned_anywhere(self.fn)
            if not ok:
                raise Unsupported('dict(...) shape: ' + ast.unparse(c)[:80])
            keys = self.want(z.args[0], 'series', 'dict(zip(keys, ..))')
            vals = self.want(ap.func.value, 'series', 'dict(zip(.., column.apply(tokenizer.tokenize)))')
            comp = ast.ListComp(
                elt=ast.Call(func=ast.Attribute(value=name('tokenizer'), attr='tokenize', ctx=ast.Load()),
                             args=[name('tok_x_')], keywords=[]),
                generators=[ast.comprehension(target=ast.Name(id='tok_x_', ctx=ast.Store()), iter=vals, ifs=[],
                                              is_async=0)])
            return call('series_zip_dict', keys, comp), 'val'
        if isinstance(f, ast.Name) and f.id in NEW_PRIMS:
            raise Unsupported('source uses the reserved name ' + f.id)
        return wrappers.FrameTyper.rw_call(self, c)


# --------------------------------------------------------------------------- small shape checks
def bool_mask_locals(fn):
    """locals m with: exactly one binding `m = []` at the top level of the body, every other occurrence
    `m.append(not <expr>)` (a statement) or the subscript `T[m]`"""
    out = set()
    counts = joins.assigned_anywhere(fn)
    for s in fn.body:
        if isinstance(s, ast.Assign) and len(s.targets) == 1 and is_name(s.targets[0]) and \
                isinstance(s.value, ast.List) and not s.value.elts and counts.get(s.targets[0].id) == 1:
            m = s.targets[0].id
            if m in [a.arg for a in fn.args.args]:
                continue
            ok_ids = {id(s.targets[0])}
            subs = 0
            for n in ast.walk(fn):
                if isinstance(n, ast.Expr) and isinstance(n.value, ast.Call) and \
                        isinstance(n.value.func, ast.Attribute) and is_name(n.value.func.value, m) and \
                        n.value.func.attr == 'append' and len(n.value.args) == 1 and not n.value.keywords and \
                        isinstance(n.value.args[0], ast.UnaryOp) and isinstance(n.value.args[0].op, ast.Not):
                    ok_ids.add(id(n.value.func.value))
                if isinstance(n, ast.Subscript) and is_name(n.slice, m) and isinstance(n.ctx, ast.Load):
                    ok_ids.add(id(n.slice))
                    subs += 1
            if subs and all(id(n) in ok_ids for n in ast.walk(fn) if is_name(n, m)):
                out.add(m)
    return out


def remove_fun_argument(fn, callee, callee_def, param, expect):
    """every call `callee(args)` / `delayed(callee)(args)` in fn passes exactly the name `expect` in the
    position of the callee's parameter `param`, positionally; that argument is removed"""
    pos = [a.arg for a in callee_def.args.args].index(param)
    found = 0
    for n in ast.walk(fn):
        if not isinstance(n, ast.Call):
            continue
        direct = is_name(n.func, callee)
        viad = isinstance(n.func, ast.Call) and is_name(n.func.func, 'delayed') and len(n.func.args) == 1 and \
            is_name(n.func.args[0], callee)
        if not (direct or viad):
            continue
        if n.keywords or any(isinstance(a, ast.Starred) for a in n.args) or \
                len(n.args) != len(callee_def.args.args) or not is_name(n.args[pos], expect):
            raise Unsupported('call of %s: `%s` must be passed positionally as %s' % (callee, expect, param))
        del n.args[pos]
        found += 1
    if not found:
        raise Unsupported('no call of %s' % callee)
    for n in ast.walk(fn):
        if is_name(n, expect) and not (isinstance(getattr(n, '_callpos', None), int)):
            # remaining occurrences: checked by the caller (sim_function may be called; self may not occur)
            pass
    return found


def reduced_def(fn, drop):
    """a signature-only copy of fn without the parameters in drop (for bind_args)"""
    new = ast.FunctionDef(name=fn.name, args=copy.deepcopy(fn.args), body=[ast.Pass()], decorator_list=[])
    npos = len(new.args.args)
    defaults = dict(zip([a.arg for a in new.args.args][npos - len(new.args.defaults):], new.args.defaults)) \
        if new.args.defaults else {}
    new.args.args = [a for a in new.args.args if a.arg not in drop]
    tail = []
    seen_default = False
    for a in new.args.args:
        if a.arg in defaults:
            seen_default = True
            tail.append(defaults[a.arg])
        elif seen_default:
            raise Unsupported('defaults of ' + fn.name)
    new.args.defaults = tail
    return new


def drop_defaults(fn, notes):
    a = fn.args
    if not all(isinstance(d, ast.Constant) for d in a.defaults):
        raise Unsupported('defaults of ' + fn.name)
    if a.defaults:
        notes.append('parameter defaults dropped (all arguments explicit): ' + ', '.join(
            '%s=%s' % (p.arg, ast.unparse(d)) for p, d in zip(a.args[len(a.args) - len(a.defaults):], a.defaults)))
    a.defaults = []


class Sources:
    def __init__(self, repo):
        self.repo = repo
        self.srcs = {}

    def read(self, rel):
        if rel not in self.srcs:
            self.srcs[rel] = open(os.path.join(self.repo, rel)).read()
        return self.srcs[rel]

    def tree(self, rel):
        return ast.parse(self.read(rel))


def module_fun(S, rel, fname, local_defs=()):
    tree = S.tree(rel)
    fn = wrappers.find_fun(tree, fname, rel)
    check_imports(tree, fn, local_defs)
    return tree, fn


def helper_entry(S, rel, fname, new=None, types=None, ret='val', extra=None):
    fn = wrappers.helper_sig(S.repo, rel, fname, S.srcs)
    d = dict(new=new or fname, fn=fn, params=[a.arg for a in fn.args.args], types=types or {}, ret=ret)
    if extra:
        d['extra'] = extra
    return d


def leading_validators(S, fn, notes, allow_tokenizer_if):
    """(m1): returns (kept statements, rest of the body, dropped texts, kept texts)"""
    vtree = S.tree(VALIDATION)
    body = fn.body
    k = 0
    out, dropped, kept = [], [], []
    while k < len(body):
        s = body[k]
        if isinstance(s, ast.Expr) and isinstance(s.value, ast.Call) and is_name(s.value.func) and \
                s.value.func.id.startswith('validate_'):
            v = s.value.func.id
            if v in DROPPED_VALIDATORS:
                wrappers.raises_or_returns_true(vtree, v)
                dropped.append(ast.unparse(s.value))
            elif v in KEPT_VALIDATORS:
                if s.value.keywords:
                    raise Unsupported('keyword arguments of ' + v)
                kept.append(ast.unparse(s.value))
                out.append(s)
            else:
                raise Unsupported('unknown validator ' + v)
            k += 1
            continue
        if allow_tokenizer_if and isinstance(s, ast.If) and not s.orelse and len(s.body) == 1 and \
                isinstance(s.test, ast.Compare) and is_name(s.test.left, 'tokenizer') and len(s.test.ops) == 1 and \
                isinstance(s.test.ops[0], ast.IsNot) and isinstance(s.test.comparators[0], ast.Constant) and \
                s.test.comparators[0].value is None and isinstance(s.body[0], ast.Expr) and \
                isinstance(s.body[0].value, ast.Call) and is_name(s.body[0].value.func, 'validate_tokenizer') and \
                len(s.body[0].value.args) == 1 and is_name(s.body[0].value.args[0], 'tokenizer') and \
                not s.body[0].value.keywords:
            wrappers.raises_or_returns_true(vtree, 'validate_tokenizer')
            dropped.append(ast.unparse(s).replace('\n', ' '))
            k += 1
            continue
        break
    if k == 0:
        raise Unsupported('%s does not start with its validations' % fn.name)
    rest = body[k:]
    for s in rest:
        for n in ast.walk(s):
            if isinstance(n, ast.Name) and n.id.startswith('validate_'):
                raise Unsupported('%s is used after the leading validations' % n.id)
    if 'validate_comp_op' in [ast.parse(x).body[0].value.func.id for x in kept]:
        check_validate_comp_op(S)
    notes.append('dropped (pandas-dependent, leading, raise-or-return-True): ' + '; '.join(dropped))
    notes.append('kept (ValidationGen / prelude): ' + '; '.join(kept))
    return out, rest, dropped, kept


def check_validate_comp_op(S):
    """validate_comp_op is `if comp_op not in COMP_OP_MAP.keys(): raise AssertionError(..)` with COMP_OP_MAP
    the dict of utils/generic_helper.py: its body is what gen.preprocess turns into validate_comp_op_keys"""
    vtree = S.tree(VALIDATION)
    names, _ = joins.import_table(vtree)
    if names.get('COMP_OP_MAP') != ('py_stringsimjoin.utils.generic_helper', 'COMP_OP_MAP'):
        raise Unsupported('validation.py: COMP_OP_MAP is not imported from utils.generic_helper')
    for n in vtree.body:
        if isinstance(n, (ast.Assign, ast.AugAssign, ast.FunctionDef, ast.ClassDef)):
            for e in ast.walk(n) if not isinstance(n, (ast.FunctionDef, ast.ClassDef)) else []:
                if is_name(e, 'COMP_OP_MAP'):
                    raise Unsupported('validation.py rebinds COMP_OP_MAP')
            if isinstance(n, (ast.FunctionDef, ast.ClassDef)) and n.name == 'COMP_OP_MAP':
                raise Unsupported('validation.py rebinds COMP_OP_MAP')
    fn = wrappers.find_fun(vtree, 'validate_comp_op', VALIDATION)
    wrappers.strip_docstring(fn)
    ok = [a.arg for a in fn.args.args] == ['comp_op'] and not fn.args.defaults and len(fn.body) == 1 and \
        isinstance(fn.body[0], ast.If) and not fn.body[0].orelse and len(fn.body[0].body) == 1 and \
        isinstance(fn.body[0].body[0], ast.Raise)
    t = fn.body[0].test if ok else None
    ok = ok and isinstance(t, ast.Compare) and is_name(t.left, 'comp_op') and len(t.ops) == 1 and \
        isinstance(t.ops[0], ast.NotIn) and isinstance(t.comparators[0], ast.Call) and \
        isinstance(t.comparators[0].func, ast.Attribute) and t.comparators[0].func.attr == 'keys' and \
        is_name(t.comparators[0].func.value, 'COMP_OP_MAP') and not t.comparators[0].args
    exc = fn.body[0].body[0].exc if ok else None
    if isinstance(exc, ast.Call):
        exc = exc.func
    if not ok or not is_name(exc, 'AssertionError'):
        raise Unsupported('validate_comp_op: unexpected shape')


def finish(fn):
    ast.fix_missing_locations(fn)
    return ast.parse(ast.unparse(fn)).body[0]


# --------------------------------------------------------------------------- the helpers
def gen_build_dict(S):
    tree, fn = module_fun(S, HELPER, 'build_dict_from_table')
    orig = copy.deepcopy(fn)
    notes = []
    wrappers.strip_docstring(fn)
    drop_defaults(fn, notes)
    ty = MatcherTyper(fn, ['table'], [], [], {}, notes).run()
    if ty != 'val' or [a.arg for a in fn.args.args] != ['table', 'key_attr_index', 'join_attr_index', 'remove_null']:
        raise Unsupported('build_dict_from_table shape')
    notes.append('table: frame; tuple(row) -> py_tuple; pd.isnull(cell) -> py_isnull')
    wrappers.constant_defaults(orig, 'build_dict_from_table')
    return finish(fn), notes, dict(new='build_dict_from_table', fn=orig, params=[a.arg for a in orig.args.args],
                                   types={'table': 'frame'}, ret='val')


def gen_split_table_frame(S):
    tree, fn = module_fun(S, HELPER, 'split_table')
    orig = copy.deepcopy(fn)
    notes = []
    wrappers.strip_docstring(fn)
    if fn.args.defaults or [a.arg for a in fn.args.args] != ['table', 'num_splits']:
        raise Unsupported('split_table signature')
    # the returned list holds frames: every append to the returned name appends a frame_slice
    ret = fn.body[-1]
    if not (isinstance(ret, ast.Return) and is_name(ret.value)) or \
            sum(1 for n in ast.walk(fn) if isinstance(n, ast.Return)) != 1:
        raise Unsupported('split_table result shape')
    r = ret.value.id
    if joins.assigned_anywhere(fn).get(r) != 1 or r in ('table', 'num_splits'):
        raise Unsupported('split_table result shape')
    ty = MatcherTyper(fn, ['table'], [], [], {}, notes, framelists=[r]).run()
    if ty != 'val':
        raise Unsupported('split_table shape')
    nslices = 0
    for n in ast.walk(fn):
        if is_name(n, r):
            pass
        if isinstance(n, ast.Assign) and any(is_name(t, r) for t in n.targets):
            if not (isinstance(n.value, ast.List) and not n.value.elts):
                raise Unsupported('split_table result shape')
        if isinstance(n, ast.Call) and isinstance(n.func, ast.Attribute) and is_name(n.func.value, r):
            if n.func.attr != 'append' or len(n.args) != 1 or not (
                    isinstance(n.args[0], ast.Call) and is_name(n.args[0].func, 'frame_slice')):
                raise Unsupported('split_table appends something that is not a slice of the table')
            nslices += 1
    uses = [n for n in ast.walk(fn) if is_name(n, r)]
    if nslices != 1 or len(uses) != 3:
        raise Unsupported('split_table result shape')
    fn.name = 'split_table_frame'
    notes.append('table: frame; table[a:b] -> frame_slice; len(table) -> frame_len; returns a list of frames')
    return finish(fn), notes, dict(new='split_table_frame', fn=orig, params=['table', 'num_splits'],
                                   types={'table': 'frame'}, ret='frames')


def gen_generate_tokens(S):
    tree, fn = module_fun(S, MATCHER, 'generate_tokens')
    orig = copy.deepcopy(fn)
    notes = []
    wrappers.strip_docstring(fn)
    if fn.args.defaults or [a.arg for a in fn.args.args] != ['table', 'key_attr', 'join_attr', 'tokenizer']:
        raise Unsupported('generate_tokens signature')
    ty = MatcherTyper(fn, ['table'], [], ['key_attr', 'join_attr'], {}, notes).run()
    if ty != 'val':
        raise Unsupported('generate_tokens shape')
    notes.append('table: frame; dict(zip(T[k], T[a].apply(tokenizer.tokenize))) -> series_zip_dict(frame_col(T, k), '
                 '[tokenizer.tokenize(x) for x in frame_col(T, a)])')
    return finish(fn), notes, dict(new='generate_tokens', fn=orig, params=[a.arg for a in orig.args.args],
                                   types={'table': 'frame'}, ret='val')


# --------------------------------------------------------------------------- the per-chunk functions
def gen_matcher_split(S, helpers):
    tree, fn = module_fun(S, MATCHER, '_apply_matcher_split')
    orig = copy.deepcopy(fn)
    notes = []
    wrappers.strip_docstring(fn)
    if fn.args.defaults:
        raise Unsupported('_apply_matcher_split signature')
    wrappers.drop_progress(fn, notes)
    params = [a.arg for a in fn.args.args]
    for p in ('candset', 'ltable', 'rtable', 'tokenizer', 'sim_function', 'comp_op', 'show_progress'):
        if p not in params:
            raise Unsupported('_apply_matcher_split has no parameter ' + p)
    if 'sim_function' in joins.assigned_anywhere(fn) or 'tokenizer' in joins.assigned_anywhere(fn):
        raise Unsupported('sim_function / tokenizer rebound')
    # sim_function: only called, with two arguments (py2coq rejects any other occurrence: free name)
    fn.args.args = [a for a in fn.args.args if a.arg != 'sim_function']
    inner = dict(helpers)
    for h in ('find_output_attribute_indices', 'get_output_header_from_tables', 'get_output_row_from_tables'):
        inner[h] = helper_entry(S, HELPER, h)
    ty = MatcherTyper(fn, ['candset', 'ltable', 'rtable'], [], [], inner, notes).run()
    if ty != 'frame':
        raise Unsupported('_apply_matcher_split does not return a frame')
    notes.append('candset, ltable, rtable: frames; returns the frame pd.DataFrame(output_rows, columns=output_header)')
    notes.append('sim_function is a function parameter (pyval -> pyval -> pyval); tokenizer is a plain parameter '
                 '(None test) and tokenizer.tokenize the function parameter tokenizer_tokenize')
    notes.append('COMP_OP_MAP[comp_op] -> comp_op_lookup (Gen/JoinGen.v)')
    fn.name = 'apply_matcher_split_rows'
    return finish(fn), notes, orig


def gen_candset_split(S, helpers):
    tree, fn = module_fun(S, FILTER, '_filter_candset_split')
    orig = copy.deepcopy(fn)
    notes = []
    wrappers.strip_docstring(fn)
    if fn.args.defaults:
        raise Unsupported('_filter_candset_split signature')
    wrappers.drop_progress(fn, notes)
    params = [a.arg for a in fn.args.args]
    for p in ('candset', 'ltable', 'rtable', 'filter_object', 'show_progress'):
        if p not in params:
            raise Unsupported('_filter_candset_split has no parameter ' + p)
    if 'filter_pair' in methods.local_names(fn):
        raise Unsupported('name clash filter_pair')
    # filter_object.filter_pair(a, b) -> filter_pair(a, b); no other use of filter_object
    found = []

    class R(ast.NodeTransformer):
        def visit_Call(s, c):
            s.generic_visit(c)
            if isinstance(c.func, ast.Attribute) and is_name(c.func.value, 'filter_object'):
                if c.func.attr != 'filter_pair' or len(c.args) != 2 or c.keywords or \
                        any(isinstance(a, ast.Starred) for a in c.args):
                    raise Unsupported('use of filter_object.%s' % c.func.attr)
                found.append(1)
                return ast.Call(func=name('filter_pair'), args=c.args, keywords=[])
            return c
    fn = R().visit(fn)
    if not found:
        raise Unsupported('_filter_candset_split does not call filter_object.filter_pair')
    fn.args.args = [a for a in fn.args.args if a.arg != 'filter_object']
    for n in ast.walk(fn):
        if is_name(n, 'filter_object'):
            raise Unsupported('filter_object is used other than as filter_object.filter_pair(a, b)')
    masks = bool_mask_locals(fn)
    ty = MatcherTyper(fn, ['candset', 'ltable', 'rtable'], [], [], dict(helpers), notes, boolmasks=masks).run()
    if ty != 'frame':
        raise Unsupported('_filter_candset_split does not return a frame')
    notes.append('candset, ltable, rtable: frames; candset[%s] -> frame_mask (a list of booleans selects rows by '
                 'position)' % ', '.join(sorted(masks)))
    notes.append('filter_object.filter_pair(a, b) -> the function parameter filter_pair (pyval -> pyval -> pyval)')
    fn.name = 'filter_candset_split_rows'
    return finish(fn), notes, orig


# --------------------------------------------------------------------------- the public functions
class PublicPreparer:
    """apply_matcher / Filter.filter_candset: validators (m1), Parallel (wrappers (d)), cpu count (wrappers (c)),
    frames; the function-valued argument is removed from the calls of the per-chunk function (m2)"""

    def __init__(self, S, rel, fn, core_py, core_new, core_orig, fun_arg, helpers, frames, labels, tokenizer_if):
        self.S, self.rel, self.fn = S, rel, fn
        self.core_py, self.core_new, self.core_orig = core_py, core_new, core_orig
        self.fun_param, self.fun_name = fun_arg            # (callee parameter, name passed here)
        self.helpers = helpers
        self.frames, self.labels = frames, labels
        self.tokenizer_if = tokenizer_if
        self.notes, self.dropped, self.kept = [], [], []

    def prepare(self):
        S, fn = self.S, self.fn
        wrappers.strip_docstring(fn)
        drop_defaults(fn, self.notes)
        out, rest, self.dropped, self.kept = leading_validators(S, fn, self.notes, self.tokenizer_if)
        fn.body = out + rest
        remove_fun_argument(fn, self.core_py, self.core_orig, self.fun_param, self.fun_name)
        wrappers.WrapperPreparer.parallel(self)
        helpers = dict(self.helpers)
        for h in ('remove_redundant_attrs', 'get_attrs_to_project'):
            helpers[h] = helper_entry(S, HELPER, h)
        helpers['get_num_processes_to_launch'] = helper_entry(
            S, HELPER, 'get_num_processes_to_launch', new='get_num_processes_to_launch_with_cpus', extra=['cpu_count_'])
        if 'cpu_count_' in methods.local_names(fn):
            raise Unsupported('name clash cpu_count_')
        vtree = S.tree(VALIDATION)
        for v in KEPT_VALIDATORS:
            vf = wrappers.find_fun(vtree, v, VALIDATION)
            helpers[v] = dict(new=v, fn=vf, params=[x.arg for x in vf.args.args], types={}, ret='val')
        core_red = reduced_def(self.core_orig, [self.fun_param])
        helpers[self.core_py] = dict(new=self.core_new, fn=core_red, params=[a.arg for a in core_red.args.args],
                                     types={'candset': 'frame', 'ltable': 'frame', 'rtable': 'frame'}, ret='frame')
        lists = []
        for s in fn.body:
            if isinstance(s, ast.Assign) and isinstance(s.value, ast.Call) and is_name(s.value.func, 'get_attrs_to_project') \
                    and len(s.targets) == 1 and is_name(s.targets[0]) and \
                    joins.assigned_anywhere(fn).get(s.targets[0].id) == 1:
                lists.append(s.targets[0].id)
        ty = MatcherTyper(fn, self.frames, lists, self.labels, helpers, self.notes).run()
        if ty != 'frame':
            raise Unsupported('%s does not return a frame' % fn.name)
        fn.args.args.append(ast.arg(arg='cpu_count_'))
        self.notes.append('get_num_processes_to_launch(n) -> get_num_processes_to_launch_with_cpus(n, cpu_count_); '
                          'cpu_count_ is the last plain parameter')
        return finish(fn)


def gen_apply_matcher(S, helpers, split_orig):
    tree, fn = module_fun(S, MATCHER, 'apply_matcher', local_defs=['_apply_matcher_split', 'generate_tokens'])
    params = [a.arg for a in fn.args.args]
    if 'sim_function' not in params or 'tokenizer' not in params or \
            'sim_function' in joins.assigned_anywhere(fn) or 'tokenizer' in joins.assigned_anywhere(fn):
        raise Unsupported('apply_matcher: sim_function / tokenizer are not plain parameters')
    prep = PublicPreparer(S, MATCHER, fn, '_apply_matcher_split', 'apply_matcher_split_rows', split_orig,
                          ('sim_function', 'sim_function'), helpers, ['candset', 'ltable', 'rtable'], [], True)
    if params.index('sim_function') >= len(params) - len(fn.args.defaults):
        raise Unsupported('sim_function has a default')
    fn.args.args = [a for a in fn.args.args if a.arg != 'sim_function']
    out = prep.prepare()
    for n in ast.walk(out):
        if is_name(n, 'sim_function'):
            raise Unsupported('apply_matcher uses sim_function other than by passing it to _apply_matcher_split')
    prep.notes.append('sim_function: function parameter, passed on to apply_matcher_split_rows; '
                      '_apply_matcher_split(..) -> apply_matcher_split_rows(..)')
    out.name = 'apply_matcher_rows'
    return out, prep


def gen_filter_candset(S, helpers, split_orig):
    tree = S.tree(FILTER)
    cls = methods.find_class(tree, 'Filter')
    if [b for b in cls.bases if not is_name(b, 'object')] or cls.keywords or cls.decorator_list:
        raise Unsupported('class Filter has base classes / decorators')
    fn = copy.deepcopy(methods.find_method(cls, 'filter_candset'))
    methods.local_names(fn)
    for rel in FILTER_SUBCLASSES:
        for n in ast.walk(S.tree(rel)):
            if isinstance(n, ast.FunctionDef) and n.name in ('filter_candset', '_filter_candset_split'):
                raise Unsupported('%s overrides %s' % (rel, n.name))
            if isinstance(n, ast.Attribute) and n.attr == 'filter_candset' and isinstance(n.ctx, (ast.Store, ast.Del)):
                raise Unsupported('%s rebinds filter_candset' % rel)
    check_imports(tree, fn, local_defs=['_filter_candset_split'])
    if fn.args.defaults and len(fn.args.defaults) >= len(fn.args.args):
        raise Unsupported('self has a default')
    fn.args.args = fn.args.args[1:]                       # self
    for n in ast.walk(fn):
        if is_name(n, 'self') and isinstance(n.ctx, ast.Store):
            raise Unsupported('self rebound')
    prep = PublicPreparer(S, FILTER, fn, '_filter_candset_split', 'filter_candset_split_rows', split_orig,
                          ('filter_object', 'self'), helpers, ['candset', 'ltable', 'rtable'],
                          ['l_key_attr', 'r_key_attr', 'l_filter_attr', 'r_filter_attr'], False)
    out = prep.prepare()
    for n in ast.walk(out):
        if is_name(n, 'self'):
            raise Unsupported('filter_candset uses self other than by passing it to _filter_candset_split')
    prep.notes.append('method of class Filter; self is only passed on as filter_object: its filter_pair is the '
                      'function parameter filter_pair; _filter_candset_split(..) -> filter_candset_split_rows(..)')
    out.name = 'filter_candset_rows'
    return out, prep


def gen_matchers(repo):
    """MatcherGen.v: (text, info)."""
    S = Sources(repo)
    import gen as gen_mod
    # validate_comp_op_keys / comp_op_keys exist as generated (fails closed otherwise)
    gen_mod.preprocess(VALIDATION, S.read(VALIDATION))
    gen_mod.comp_op_map(repo)
    S.read(HELPER)
    out, info = [], {}
    fresh = {'get_output_row_from_tables', 'get_output_header_from_tables', 'find_output_attribute_indices'}
    prims = set(wrappers.PRIMS) | set(NEW_PRIMS)
    plain = prims | {'find_output_attribute_indices', 'get_output_header_from_tables', 'get_output_row_from_tables',
                     'remove_redundant_attrs', 'get_attrs_to_project', 'get_num_processes_to_launch_with_cpus',
                     'build_dict_from_table', 'split_table_frame'} | set(KEPT_VALIDATORS)
    ext = {('pd', 'isnull'): 'py_isnull'}
    helpers = {}
    specs = {}

    def emit(fn, notes, extra_info=None, **kw):
        tr = py2coq.FunTranslator(fn, known_funs=plain, fresh_funs=fresh, strict_escape=True, ext_calls=ext,
                                  fun_tables={'COMP_OP_MAP': 'comp_op_lookup'}, **kw)
        text, params = tr.translate()
        if tr.attr_params:
            raise Unsupported('%s: unexpected attribute parameters %s' % (fn.name, tr.attr_params))
        for (p, m) in tr.method_params:
            if (p, m) != ('tokenizer', 'tokenize'):
                raise Unsupported('%s: unexpected method parameter %s.%s' % (fn.name, p, m))
        out.append(text)
        specs[fn.name] = ([a.arg for a in fn.args.args], tr.spec)
        info[fn.name] = dict(extra_info or {}, signature=params, rewrites=notes, python=ast.unparse(fn))

    fn, notes, h = gen_build_dict(S)
    emit(fn, notes, {'source': HELPER, 'function': 'build_dict_from_table'})
    helpers['build_dict_from_table'] = h
    fn, notes, h = gen_split_table_frame(S)
    emit(fn, notes, {'source': HELPER, 'function': 'split_table'})
    helpers['split_table'] = h
    fn, notes, h = gen_generate_tokens(S)
    emit(fn, notes, {'source': MATCHER, 'function': 'generate_tokens'}, allow_listcomp=True)
    gt_helper = h

    fn, notes, msplit_orig = gen_matcher_split(S, {'build_dict_from_table': helpers['build_dict_from_table']})
    emit(fn, notes, {'source': MATCHER, 'function': '_apply_matcher_split'}, fun_params={'sim_function': 2})
    fn, prep = gen_apply_matcher(S, {'split_table': helpers['split_table'], 'generate_tokens': gt_helper},
                                 msplit_orig)
    emit(fn, prep.notes, {'source': MATCHER, 'function': 'apply_matcher', 'dropped_validators': prep.dropped,
                          'kept_validators': prep.kept},
         known_sigs={'generate_tokens': specs['generate_tokens'],
                     'apply_matcher_split_rows': specs['apply_matcher_split_rows']},
         fun_params={'sim_function': 2}, allow_listcomp=True)

    fn, notes, csplit_orig = gen_candset_split(S, {'build_dict_from_table': helpers['build_dict_from_table']})
    emit(fn, notes, {'source': FILTER, 'function': '_filter_candset_split'}, fun_params={'filter_pair': 2})
    fn, prep = gen_filter_candset(S, {'split_table': helpers['split_table']}, csplit_orig)
    emit(fn, prep.notes, {'source': FILTER, 'function': 'Filter.filter_candset', 'dropped_validators': prep.dropped,
                          'kept_validators': prep.kept},
         known_sigs={'filter_candset_split_rows': specs['filter_candset_split_rows']},
         fun_params={'filter_pair': 2}, allow_listcomp=True)

    rels = sorted(S.srcs)
    sha = hashlib.sha256('\0'.join(S.srcs[r] for r in rels).encode()).hexdigest()
    lines = []
    for k, v in info.items():
        lines += ['     %s: %s' % (k, n) for n in v['rewrites']]
    hdr = HEADER % (', '.join(rels), sha, '\n'.join(lines).replace('*)', '* )').replace('(*', '( *'))
    return hdr + '\n'.join(out), {'sources': rels, 'sha256': sha, 'functions': info}
