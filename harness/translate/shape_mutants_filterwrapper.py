"""Shape mutants for filter_wrappers.py: each is a textual edit of a COPY of the repo (/tmp/w2_mut_<name>);
the translator must reject every one (exit status 3, FilterWrapperGen.v replaced by a non-compiling stub).
Usage: shape_mutants_filterwrapper.py <pristine repo> [<dir prefix, default /tmp/w2_mut_>]"""
import json
import os
import shutil
import subprocess
import sys

SF = 'py_stringsimjoin/filter/size_filter.py'
PF = 'py_stringsimjoin/filter/prefix_filter.py'
POS = 'py_stringsimjoin/filter/position_filter.py'
OF = 'py_stringsimjoin/filter/overlap_filter.py'
OJ = 'py_stringsimjoin/join/overlap_join_py.py'

MISSING_IF = '''        if self.allow_missing:
            missing_pairs = get_pairs_with_missing_value('''

MUTANTS = [
    ('self_store', SF, MISSING_IF, '''        self.allow_missing = True
''' + MISSING_IF, 1),
    ('validator_after_projection', PF,
     '''        validate_key_attr(r_key_attr, rtable, 'right table')

        # remove redundant attrs from output attrs.
        l_out_attrs = remove_redundant_attrs(l_out_attrs, l_key_attr)
''', '''
        # remove redundant attrs from output attrs.
        l_out_attrs = remove_redundant_attrs(l_out_attrs, l_key_attr)
        validate_key_attr(r_key_attr, rtable, 'right table')
''', 1),
    ('restore_outside_finally', OJ,
     '''    finally:
        # revert the return_set flag of tokenizer, in case it was modified.
        if revert_tokenizer_return_set_flag:
            tokenizer.set_return_set(False)
''', '''    finally:
        pass
    # revert the return_set flag of tokenizer, in case it was modified.
    if revert_tokenizer_return_set_flag:
        tokenizer.set_return_set(False)
''', 1),
    ('extra_use_filter_pair', OJ,
     '''        output_table = overlap_filter.filter_tables(''',
     '''        overlap_filter.filter_pair('a b', 'b c')
        output_table = overlap_filter.filter_tables(''', 1),
    ('except_clause', OJ,
     '''    finally:
        # revert''', '''    except:
        raise
    finally:
        # revert''', 1),
    ('ctor_attr_renamed', OF, '''        self.overlap_size = overlap_size
''', '''        self.size = overlap_size
''', 1),
    ('self_tokenizer_separately', POS,
     '''                                            l_out_prefix, r_out_prefix,
                                            False, show_progress)''',
     '''                                            l_out_prefix, r_out_prefix,
                                            False, show_progress and self.tokenizer)''', 1),
    ('method_call_on_self', SF, MISSING_IF, '''        self.filter_pair('a', 'b')
''' + MISSING_IF, 1),
    ('self_escapes', OF, '''        if self.allow_missing:
            missing_pairs = get_pairs_with_missing_value(''', '''        keep = [self]
        if self.allow_missing:
            missing_pairs = get_pairs_with_missing_value(''', 1),
    ('flag_flip_in_filter_tables', SF, '''        # remove redundant attrs from output attrs.
        l_out_attrs = remove_redundant_attrs(l_out_attrs, l_key_attr)
''', '''        self.tokenizer.set_return_set(True)
        # remove redundant attrs from output attrs.
        l_out_attrs = remove_redundant_attrs(l_out_attrs, l_key_attr)
''', 1),
    ('filter_tables_keyword_unknown', OJ, '''                                                    out_sim_score, n_jobs,
                                                    show_progress)''',
     '''                                                    out_sim_score, n_jobs,
                                                    show_progress, True)''', 1),
    ('ctor_validator_unknown', OF, '''        validate_threshold(overlap_size, 'OVERLAP')
''', '''        validate_threshold(overlap_size, 'OVERLAP')
        validate_key_attr(comp_op, tokenizer, 'x')
''', 1),
    ('self_not_passed_to_core', PF, '''                                           l_filter_attr, r_filter_attr,
                                           self,''', '''                                           l_filter_attr, r_filter_attr,
                                           None,''', 1),
    ('base_ctor_attr_renamed', 'py_stringsimjoin/filter/filter.py', '''        self.allow_missing = allow_missing
''', '''        self.missing_ok = allow_missing
''', 1),
    ('core_call_keyword', SF, '''                                           l_out_prefix, r_out_prefix,
                                           show_progress)
        else:''', '''                                           l_out_prefix, r_out_prefix,
                                           show_progress=show_progress)
        else:''', 1),
    ('flag_not_restored_value', OJ, '''            tokenizer.set_return_set(False)
''', '''            tokenizer.set_return_set(True)
''', 1),
    ('filter_tables_result_discarded', OJ, '''    return output_table''', '''    overlap_filter.allow_missing = True
    return output_table''', 1),
]


def main():
    repo = sys.argv[1]
    prefix = sys.argv[2] if len(sys.argv) > 2 else '/tmp/w2_mut_'
    here = os.path.dirname(os.path.abspath(__file__))
    results = []
    for name, rel, old, new, count in MUTANTS:
        d = prefix + 'shape_' + name
        shutil.rmtree(d, ignore_errors=True)
        shutil.copytree(repo, d)
        p = os.path.join(d, rel)
        s = open(p).read()
        assert s.count(old) >= count, (name, s.count(old))
        s = s.replace(old, new, count)
        open(p, 'w').write(s)
        compile(s, p, 'exec')          # the mutant is valid Python
        out = os.path.join(d, '_gen')
        os.makedirs(out)
        r = subprocess.run([sys.executable, os.path.join(here, 'gen.py'), '--repo', d, '--out', out, '--only',
                            'FilterWrapperGen.v'], capture_output=True, text=True)
        st = json.load(open(os.path.join(out, 'gen_status_filterwrapper.json')))['FilterWrapperGen.v']
        stub = open(os.path.join(out, 'FilterWrapperGen.v')).read()
        rejected = r.returncode == 3 and 'error' in st and 'Translation_failed.' in stub
        results.append((name, rel, rejected, st.get('error', 'ACCEPTED')))
        print('%-32s %-45s %s  %s' % (name, rel, 'REJECTED' if rejected else 'ACCEPTED !!!', st.get('error', '')))
    sys.exit(0 if all(r[2] for r in results) else 1)


if __name__ == '__main__':
    main()
