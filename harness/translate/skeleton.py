"""Control-skeleton extraction (placeholder, replaced below)."""
class Unsupported(Exception):
    pass
def generate(repo):
    return '(* skeleton: not yet generated *)\n', {'entry_points': 0}
