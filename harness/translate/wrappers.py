"""The public wrappers (join/jaccard_join_py.py & co.) as pure functions over `pyval`
(Gen/WrapperGen.v).  Syntactic and fail-closed: every rewrite checks the shape it relies on and
raises Unsupported otherwise.  DataFrames are values of the frame model coq/Model/Frame.v.

Generated definitions
  convert_dataframe_to_array   utils/generic_helper.py, over the frame primitives
  split_table                  utils/generic_helper.py, verbatim on lists (table[a:b] = py_slice)
  get_pairs_with_missing_value utils/missing_value_handler.py, over the frame primitives
  jaccard_join_rows / cosine_join_rows / dice_join_rows / overlap_coefficient_join_rows /
  edit_distance_join_rows      the wrappers; they return a frame value

Rewrites of a wrapper `f(ltable, rtable, ..., tokenizer, ...)`:
 (a) VALIDATORS.  The body must start (after the docstring) with a run of expression statements
     `validate_X(args)`.  Those whose definition is generated (ValidationGen.v: validate_attr,
     validate_threshold, validate_comp_op_for_sim_measure, validate_output_attrs) are KEPT, with
     `table.columns` -> frame_columns(table).  The pandas-dependent ones (validate_input_table,
     validate_attr_type, validate_key_attr, validate_tokenizer[_for_sim_measure]) are DROPPED, after
     checking (i) that they stand in that leading run, (ii) that no `validate_*` name occurs anywhere
     else in the function, (iii) that their definitions in utils/validation.py only compute locals,
     raise, or `return True` (so a call that returns has no effect).  The generated wrapper therefore
     describes the calls on which the dropped validators RETURN; that they raise before anything else
     happens is the control-skeleton theorem (Gen/SkeletonGen.v, Properties/C12.v, C15.v).
 (b) TOKENIZER FLAG.  Directly after the validators (edit distance: after `threshold = int(floor(threshold))`)
         flag = False
         if [not] tokenizer.get_return_set():
             tokenizer.set_return_set(<mode>)
             flag = True
         try:
             <the whole rest of the body; no return, no nested try / with>
         finally:
             if flag:
                 tokenizer.set_return_set(<not mode>)
         return <table>
     -- exactly this: nothing between the flip and the `try`, no `except` / `else` clause, the finally
     block consists of the mode-checked restoration only, `return <table>` follows the try statement and
     ends the function.  The flag statements and the try/finally frame are dropped, the try body is
     spliced in (the flag may occur nowhere else, `tokenizer` may otherwise only be passed to the
     per-chunk core).  A restoration that is NOT inside a finally block (the shape before the C12 repair:
     it is skipped when the body raises, e.g. ValueError from insert when the header already has `_id`)
     is rejected, as are a missing restoration and a wrong restore value.
     Consequently the function parameter `tokenizer_tokenize` of the generated wrapper stands for
     tokenization IN THAT MODE: set mode (return_set=True) for jaccard/cosine/dice/overlap_coefficient,
     bag mode (return_set=False) for edit distance.
     NOT COVERED BY THE MODEL: exceptional control flow and the state of the tokenizer object.  The
     generated wrappers are pure: an exception is a returned PExc VALUE and there is no tokenizer object
     whose flag could be observed afterwards.  That the restoration also runs on the exceptional path is
     therefore established by this SHAPE CHECK (try/finally with exactly the restoration) together with
     the harness' late-exception history stream (corr_api: calls that raise after the flip must leave the
     tokenizer unchanged), not by a theorem; see C12.
 (c) `get_num_processes_to_launch(e)` -> get_num_processes_to_launch_with_cpus(e, cpu_count_) of
     HelperGen.v; `cpu_count_` (multiprocessing.cpu_count()) becomes the last plain parameter.
 (d) `results = Parallel(n_jobs=<name>)(delayed(CORE)(args...) for job_index in range(n_jobs))`
     -> `results = [CORE(args...) for job_index in range(n_jobs)]` (joblib returns the results in
     submission order whatever the number of workers; an exception of a job is re-raised).  The
     argument `show_progress and (job_index == n_jobs-1)` is passed through.
 (e) the per-chunk core call `CORE(args)` -> frame_of_core(CORE_rows(args)) with CORE_rows the
     definition of Gen/JoinGen.v, which returns (rows, header) for pd.DataFrame(rows, columns=header);
     `tokenizer` is passed as the pair (tokenizer_qval, tokenizer_tokenize), the similarity function
     obtained inside the core by get_sim_function(..) is the function parameter `sim_fn`.
 (f) frames: `T.columns` / `list(T.columns.values)` -> frame_columns, `T[names]` (names bound to the
     result of get_attrs_to_project / the parameter proj_attrs) -> frame_select, `T[a]` (a join-attribute
     parameter) -> frame_col, `pd.isnull(S)` / `pd.notnull(S)` of such a column -> series_isnull /
     series_notnull, `T[mask]` -> frame_mask, `T.dropna(axis=0, subset=[a])` -> frame_dropna,
     `T.values` -> frame_values, `len(T)` -> frame_len, `T.itertuples(index=False)` -> frame_itertuples,
     `pd.DataFrame(rows, columns=h)` -> frame_make, `pd.concat(results)` / `pd.concat([A, B])` ->
     frame_concat, the statement `T.insert(0, name, vals)` -> `T = frame_insert0(T, name, vals)`
     (T a local that is only ever bound to the result of a call, never to another name: no alias),
     `np.NaN` -> py_nan.  A frame-typed expression may occur only where a frame is expected
     (frame primitives, frame parameters of the generated helpers, `return`); anything else is rejected.
 (g) `if show_progress:` blocks that only print a constant / drive the pyprind progress bar: dropped.
 Defaults of the wrapper's parameters are dropped (every argument is explicit in the model); calls of
 translated helpers with defaulted parameters (convert_dataframe_to_array(.., remove_nan=True)) get the
 constant default filled in.
"""
import ast
import copy
import hashlib
import os

import py2coq
from py2coq import Unsupported
import joins
import methods

HEADER = '''(* GENERATED from %s by harness/translate -- do not edit.  sha256(sources)=%s
   The public wrappers as functions from frame values (Model/Frame.v) to a frame value.
   See harness/translate/wrappers.py for the rewrites; per function:
%s *)
From Coq Require Import ZArith Bool List String.
From SSJ Require Import F64 PyNum FilterUtilsGen HelperGen TokenOrderingGen ValidationGen IndexGen JoinGen Frame.
Import ListNotations.
Open Scope string_scope.
Open Scope Z_scope.

(* [e for x in it]: left to right; the first element that raises aborts the comprehension *)
Definition py_listcomp (f : pyval -> pyval) (it : pyval) : pyval :=
  match py_iter it with
  | inr e => e
  | inl xs => let ys := map f xs in
              match find is_exc ys with Some e => e | None => PList ys end
  end.

'''

VALIDATION = 'py_stringsimjoin/utils/validation.py'
HELPER = 'py_stringsimjoin/utils/generic_helper.py'
MISSING = 'py_stringsimjoin/utils/missing_value_handler.py'

KEPT_VALIDATORS = ['validate_attr', 'validate_threshold', 'validate_comp_op_for_sim_measure',
                   'validate_output_attrs']
DROPPED_VALIDATORS = ['validate_input_table', 'validate_attr_type', 'validate_key_attr',
                      'validate_tokenizer', 'validate_tokenizer_for_sim_measure']

EXPECTED = {
    'delayed': 'joblib', 'Parallel': 'joblib', 'floor': 'math',
    'set_sim_join': 'py_stringsimjoin.join.set_sim_join',
    'convert_dataframe_to_array': 'py_stringsimjoin.utils.generic_helper',
    'get_attrs_to_project': 'py_stringsimjoin.utils.generic_helper',
    'get_num_processes_to_launch': 'py_stringsimjoin.utils.generic_helper',
    'remove_redundant_attrs': 'py_stringsimjoin.utils.generic_helper',
    'split_table': 'py_stringsimjoin.utils.generic_helper',
    'find_output_attribute_indices': 'py_stringsimjoin.utils.generic_helper',
    'get_output_header_from_tables': 'py_stringsimjoin.utils.generic_helper',
    'get_output_row_from_tables': 'py_stringsimjoin.utils.generic_helper',
    'get_pairs_with_missing_value': 'py_stringsimjoin.utils.missing_value_handler',
    'xrange': 'six.moves',
    'QgramTokenizer': 'py_stringmatching.tokenizer.qgram_tokenizer',
}
for _v in KEPT_VALIDATORS + DROPPED_VALIDATORS:
    EXPECTED[_v] = 'py_stringsimjoin.utils.validation'
MODULES = {'pd': 'pandas', 'np': 'numpy', 'pyprind': 'pyprind'}
BUILTINS = {'len', 'round', 'range', 'True', 'False', 'None', 'min', 'max', 'int', 'float', 'list', 'print'}

# frame primitives of Model/Frame.v: name -> (argument types, result type)
PRIMS = {
    'frame_columns': (['frame'], 'val'), 'frame_select': (['frame', 'val'], 'frame'),
    'frame_col': (['frame', 'val'], 'series'), 'series_isnull': (['series'], 'mask'),
    'series_notnull': (['series'], 'mask'), 'frame_mask': (['frame', 'mask'], 'frame'),
    'frame_dropna': (['frame', 'val'], 'frame'), 'frame_values': (['frame'], 'val'),
    'frame_len': (['frame'], 'val'), 'frame_itertuples': (['frame'], 'val'),
    'frame_make': (['val', 'val'], 'frame'), 'frame_of_core': (['val'], 'frame'),
    'frame_concat': (['frames'], 'frame'), 'frame_insert0': (['frame', 'val', 'val'], 'frame'),
}


def check_imports(tree, fn, local_defs=(), expected=None):
    """every free name of fn is a builtin, a checked module alias, a module-level function listed in
    local_defs, or imported from the module it is expected to come from (`expected`, default EXPECTED)"""
    expected = EXPECTED if expected is None else expected
    names, mods = joins.import_table(tree)
    bound = set(a.arg for a in fn.args.args)
    for n in ast.walk(fn):
        if isinstance(n, ast.Name) and isinstance(n.ctx, ast.Store):
            bound.add(n.id)
    toplevel = set()
    for n in tree.body:
        if isinstance(n, (ast.FunctionDef, ast.ClassDef)):
            toplevel.add(n.name)
        if isinstance(n, ast.Assign):
            for t in n.targets:
                if isinstance(t, ast.Name):
                    toplevel.add(t.id)
    for n in ast.walk(fn):
        if isinstance(n, ast.Name) and isinstance(n.ctx, ast.Load) and n.id not in bound:
            if n.id in BUILTINS:
                if n.id in names or n.id in toplevel or n.id in mods:
                    raise Unsupported('builtin %s is shadowed' % n.id)
                continue
            if n.id in mods:
                if MODULES.get(n.id) != mods[n.id]:
                    raise Unsupported('module alias %s = %s' % (n.id, mods[n.id]))
                continue
            if n.id in toplevel:
                if n.id in local_defs:
                    continue
                raise Unsupported('use of module-level definition %s' % n.id)
            if n.id not in names:
                raise Unsupported('free name %s is not imported' % n.id)
            mod, orig = names[n.id]
            if orig != n.id or expected.get(n.id) != mod:
                raise Unsupported('%s is imported from %s.%s' % (n.id, mod, orig))


def find_fun(tree, name, what):
    fns = [n for n in tree.body if isinstance(n, ast.FunctionDef) and n.name == name]
    if len(fns) != 1:
        raise Unsupported('%s not found exactly once in %s' % (name, what))
    fn = copy.deepcopy(fns[0])
    if fn.decorator_list:
        raise Unsupported('decorated ' + name)
    a = fn.args
    if a.vararg or a.kwarg or a.kwonlyargs or getattr(a, 'posonlyargs', None):
        raise Unsupported('signature of ' + name)
    methods.local_names(fn)          # rejects nested defs, lambdas, global / nonlocal
    return fn


def strip_docstring(fn):
    if fn.body and isinstance(fn.body[0], ast.Expr) and isinstance(fn.body[0].value, ast.Constant) and \
            isinstance(fn.body[0].value.value, str):
        fn.body = fn.body[1:]


def raises_or_returns_true(tree, name):
    """the validator only binds locals, raises, or returns True: a call that returns has no effect"""
    fns = [n for n in tree.body if isinstance(n, ast.FunctionDef) and n.name == name]
    if len(fns) != 1:
        raise Unsupported('%s not found exactly once in %s' % (name, VALIDATION))

    def ok(ss):
        for s in ss:
            if isinstance(s, ast.Expr) and isinstance(s.value, ast.Constant):
                continue
            if isinstance(s, ast.Raise):
                continue
            if isinstance(s, ast.Return) and isinstance(s.value, ast.Constant) and s.value.value is True:
                continue
            if isinstance(s, ast.Assign) and all(isinstance(t, ast.Name) for t in s.targets):
                continue
            if isinstance(s, ast.If) and ok(s.body) and ok(s.orelse):
                continue
            return False
        return True
    if not ok(fns[0].body):
        raise Unsupported('%s does more than raise / return True' % name)


def drop_progress(fn, notes):
    """`if show_progress:` whose body only prints a constant / drives the progress bar"""
    dropped = []

    def stmt_ok(s):
        if isinstance(s, ast.Assign) and len(s.targets) == 1 and isinstance(s.targets[0], ast.Name) and \
                s.targets[0].id == 'prog_bar' and isinstance(s.value, ast.Call) and \
                isinstance(s.value.func, ast.Attribute) and s.value.func.attr == 'ProgBar' and \
                isinstance(s.value.func.value, ast.Name) and s.value.func.value.id == 'pyprind':
            return True
        if isinstance(s, ast.Expr) and isinstance(s.value, ast.Call) and \
                isinstance(s.value.func, ast.Attribute) and s.value.func.attr == 'update' and \
                isinstance(s.value.func.value, ast.Name) and s.value.func.value.id == 'prog_bar' and \
                not s.value.args and not s.value.keywords:
            return True
        if isinstance(s, ast.Expr) and isinstance(s.value, ast.Call) and isinstance(s.value.func, ast.Name) and \
                s.value.func.id == 'print' and len(s.value.args) == 1 and not s.value.keywords and \
                isinstance(s.value.args[0], ast.Constant) and isinstance(s.value.args[0].value, str):
            return True
        return False

    def walk(ss):
        out = []
        for s in ss:
            if isinstance(s, ast.If) and isinstance(s.test, ast.Name) and s.test.id == 'show_progress':
                if s.orelse or not all(stmt_ok(x) for x in s.body):
                    raise Unsupported('`if show_progress:` does more than drive the progress bar')
                dropped.append(s)
                continue
            for f in ('body', 'orelse'):
                if hasattr(s, f) and isinstance(getattr(s, f), list):
                    setattr(s, f, walk(getattr(s, f)))
                    if f == 'body' and not s.body:
                        s.body = [ast.Pass()]
            out.append(s)
        return out
    fn.body = walk(fn.body)
    for n in ast.walk(fn):
        if isinstance(n, ast.Name) and n.id in ('prog_bar', 'pyprind', 'print'):
            raise Unsupported('progress output outside `if show_progress:`')
        if isinstance(n, ast.Name) and n.id == 'show_progress' and isinstance(n.ctx, ast.Store):
            raise Unsupported('show_progress rebound')
    if dropped:
        notes.append('%d `if show_progress:` statement(s) dropped (print / progress bar only)' % len(dropped))


def name(x):
    return ast.Name(id=x, ctx=ast.Load())


def call(f, *args):
    return ast.Call(func=name(f), args=list(args), keywords=[])


class FrameTyper:
    """Typed rewriting of the pandas operations into calls of the frame primitives.
    Types: 'frame', 'series' (a column), 'mask', 'frames' (a list of frames), 'val'."""

    def __init__(self, fn, frames, lists, labels, helpers, notes):
        self.fn = fn
        self.params = [a.arg for a in fn.args.args]
        self.env = {p: 'frame' for p in frames}
        self.lists = set(lists)       # names that hold a LIST of labels
        self.labels = set(labels)     # names that hold ONE label
        self.helpers = helpers        # python name -> dict(new, params, types, ret, defaults)
        self.notes = notes
        self.inserted = set()
        for p in list(frames) + list(labels):
            if p not in self.params:
                raise Unsupported('%s is not a parameter of %s' % (p, fn.name))
        stores = joins.assigned_anywhere(fn)
        for p in list(frames) + list(labels):
            if p in stores:
                raise Unsupported('%s is rebound in %s' % (p, fn.name))
        for l in lists:
            if l in self.params:
                if l in stores:
                    raise Unsupported('%s is rebound in %s' % (l, fn.name))

    # ---- expressions
    def want(self, e, ty, what):
        e2, t2 = self.rw(e)
        if t2 != ty:
            raise Unsupported('%s: expected a %s, found a %s (%s)' % (what, ty, t2, ast.unparse(e)))
        return e2

    def val(self, e):
        return self.want(e, 'val', 'expression')

    def rw(self, e):
        if isinstance(e, ast.Name):
            return e, self.env.get(e.id, 'val')
        if isinstance(e, ast.Attribute):
            # np.NaN
            if isinstance(e.value, ast.Name) and e.value.id == 'np' and e.attr in ('NaN', 'nan') and \
                    'np' not in self.env and 'np' not in self.params:
                return name('py_nan'), 'val'
            # T.columns.values
            if e.attr == 'values' and isinstance(e.value, ast.Attribute) and e.value.attr == 'columns':
                return call('frame_columns', self.want(e.value.value, 'frame', '.columns.values')), 'val'
            if e.attr == 'columns':
                return call('frame_columns', self.want(e.value, 'frame', '.columns')), 'val'
            if e.attr == 'values':
                return call('frame_values', self.want(e.value, 'frame', '.values')), 'val'
            raise Unsupported('attribute ' + ast.unparse(e))
        if isinstance(e, ast.Subscript):
            b, tb = self.rw(e.value)
            if tb == 'frame':
                k = e.slice
                if isinstance(k, ast.Name) and k.id in self.lists:
                    return call('frame_select', b, k), 'frame'
                if isinstance(k, ast.Name) and k.id in self.labels:
                    return call('frame_col', b, k), 'series'
                k2, tk = self.rw(k)
                if tk == 'mask':
                    return call('frame_mask', b, k2), 'frame'
                raise Unsupported('frame subscript ' + ast.unparse(e))
            if tb != 'val':
                raise Unsupported('subscript of a %s' % tb)
            if isinstance(e.slice, ast.Slice):
                s = e.slice
                return ast.Subscript(value=b, slice=ast.Slice(
                    lower=self.val(s.lower) if s.lower is not None else None,
                    upper=self.val(s.upper) if s.upper is not None else None,
                    step=self.val(s.step) if s.step is not None else None), ctx=e.ctx), 'val'
            return ast.Subscript(value=b, slice=self.val(e.slice), ctx=e.ctx), 'val'
        if isinstance(e, ast.Call):
            return self.rw_call(e)
        if isinstance(e, ast.List):
            elts = [self.rw(x) for x in e.elts]
            tys = set(t for _, t in elts)
            if tys == {'frame'}:
                return ast.List(elts=[x for x, _ in elts], ctx=ast.Load()), 'frames'
            if tys - {'val'}:
                raise Unsupported('list display of ' + ', '.join(sorted(tys)))
            return ast.List(elts=[x for x, _ in elts], ctx=ast.Load()), 'val'
        if isinstance(e, ast.ListComp):
            if len(e.generators) != 1:
                raise Unsupported('list comprehension')
            g = e.generators[0]
            g2 = ast.comprehension(target=g.target, iter=self.val(g.iter), ifs=[self.val(i) for i in g.ifs],
                                   is_async=g.is_async)
            elt, t = self.rw(e.elt)
            if t == 'frame':
                return ast.ListComp(elt=elt, generators=[g2]), 'frames'
            if t != 'val':
                raise Unsupported('comprehension of ' + t)
            return ast.ListComp(elt=elt, generators=[g2]), 'val'
        if isinstance(e, (ast.Constant,)):
            return e, 'val'
        if isinstance(e, (ast.BinOp, ast.UnaryOp, ast.BoolOp, ast.Compare, ast.IfExp, ast.Tuple, ast.Dict)):
            new = copy.copy(e)
            for f, v in ast.iter_fields(e):
                if isinstance(v, ast.expr):
                    setattr(new, f, self.val(v))
                elif isinstance(v, list) and v and isinstance(v[0], ast.expr):
                    setattr(new, f, [self.val(x) if x is not None else None for x in v])
            return new, 'val'
        raise Unsupported('expression ' + type(e).__name__)

    def rw_call(self, c):
        f = c.func
        # pd.isnull / pd.notnull / pd.DataFrame / pd.concat
        if isinstance(f, ast.Attribute) and isinstance(f.value, ast.Name) and f.value.id == 'pd' and \
                'pd' not in self.params:
            if f.attr in ('isnull', 'notnull') and len(c.args) == 1 and not c.keywords:
                return call('series_' + f.attr, self.want(c.args[0], 'series', 'pd.' + f.attr)), 'mask'
            if f.attr == 'DataFrame' and len(c.args) == 1 and len(c.keywords) == 1 and c.keywords[0].arg == 'columns':
                return call('frame_make', self.val(c.args[0]), self.val(c.keywords[0].value)), 'frame'
            if f.attr == 'concat' and len(c.args) == 1 and not c.keywords:
                return call('frame_concat', self.want(c.args[0], 'frames', 'pd.concat')), 'frame'
            raise Unsupported('pandas call ' + ast.unparse(c)[:80])
        if isinstance(f, ast.Attribute):
            b, tb = self.rw(f.value)
            if tb == 'frame':
                if f.attr == 'dropna':
                    kws = {k.arg: k.value for k in c.keywords}
                    if c.args or set(kws) != {'axis', 'subset'} or \
                            not (isinstance(kws['axis'], ast.Constant) and kws['axis'].value == 0) or \
                            not (isinstance(kws['subset'], ast.List) and len(kws['subset'].elts) == 1):
                        raise Unsupported('dropna shape: ' + ast.unparse(c))
                    return call('frame_dropna', b, self.val(kws['subset'].elts[0])), 'frame'
                if f.attr == 'itertuples':
                    if c.args or len(c.keywords) != 1 or c.keywords[0].arg != 'index' or \
                            not (isinstance(c.keywords[0].value, ast.Constant) and c.keywords[0].value.value is False):
                        raise Unsupported('itertuples shape: ' + ast.unparse(c))
                    return call('frame_itertuples', b), 'val'
                raise Unsupported('frame method ' + f.attr)
            if tb != 'val':
                raise Unsupported('method of a %s' % tb)
            return ast.Call(func=ast.Attribute(value=b, attr=f.attr, ctx=ast.Load()),
                            args=[self.val(a) for a in c.args],
                            keywords=[ast.keyword(arg=k.arg, value=self.val(k.value)) for k in c.keywords]), 'val'
        if isinstance(f, ast.Name):
            if f.id == 'len' and len(c.args) == 1 and not c.keywords:
                a, ta = self.rw(c.args[0])
                if ta == 'frame':
                    return call('frame_len', a), 'val'
                if ta != 'val':
                    raise Unsupported('len of a ' + ta)
                return call('len', a), 'val'
            if f.id in self.helpers:
                h = self.helpers[f.id]
                _, amap = joins.bind_args(h['fn'], c, f.id, skip_self=False)
                args = []
                for p in h['params']:
                    ty = h['types'].get(p, 'val')
                    args.append(self.want(amap[p], ty, 'argument %s of %s' % (p, f.id)))
                out = call(h['new'], *args)
                for extra in h.get('extra', []):
                    out.args.append(name(extra))
                if h.get('wrap'):
                    out = call(h['wrap'], out)
                return out, h['ret']
            if f.id in PRIMS:
                raise Unsupported('source uses the reserved name ' + f.id)
            return ast.Call(func=f, args=[self.val(a) for a in c.args],
                            keywords=[ast.keyword(arg=k.arg, value=self.val(k.value)) for k in c.keywords]), 'val'
        raise Unsupported('call shape ' + ast.unparse(c)[:80])

    # ---- statements
    def bind(self, nm, ty):
        if nm in self.params and self.env.get(nm, 'val') != ty:
            raise Unsupported('parameter %s is rebound to a %s' % (nm, ty))
        old = self.env.get(nm)
        if old is not None and old != ty:
            raise Unsupported('%s is bound to a %s and to a %s' % (nm, old, ty))
        if ty != 'val':
            self.env[nm] = ty

    def stmts(self, ss):
        out = []
        for s in ss:
            if isinstance(s, ast.Assign):
                if len(s.targets) != 1:
                    raise Unsupported('multi-target assignment')
                t = s.targets[0]
                v, ty = self.rw(s.value)
                if isinstance(t, ast.Name):
                    if ty in ('frame', 'frames') and not isinstance(v, (ast.Call, ast.ListComp)):
                        raise Unsupported('%s would alias a frame' % t.id)
                    if ty in ('series', 'mask'):
                        raise Unsupported('a %s is bound to a name' % ty)
                    if ty == 'val' and self.env.get(t.id, 'val') != 'val':
                        raise Unsupported('%s is bound to a %s and to a value' % (t.id, self.env[t.id]))
                    self.bind(t.id, ty)
                    out.append(ast.Assign(targets=[t], value=v))
                else:
                    if ty != 'val':
                        raise Unsupported('a %s is stored into a container' % ty)
                    for sub in ast.walk(t):
                        if isinstance(sub, ast.Name) and self.env.get(sub.id, 'val') != 'val':
                            raise Unsupported('store into %s' % sub.id)
                    out.append(ast.Assign(targets=[t], value=v))
            elif isinstance(s, ast.AugAssign):
                if not isinstance(s.target, ast.Name) or self.env.get(s.target.id, 'val') != 'val':
                    raise Unsupported('augmented assignment')
                out.append(ast.AugAssign(target=s.target, op=s.op, value=self.val(s.value)))
            elif isinstance(s, ast.Expr) and isinstance(s.value, ast.Call) and \
                    isinstance(s.value.func, ast.Attribute) and isinstance(s.value.func.value, ast.Name) and \
                    self.env.get(s.value.func.value.id) == 'frame':
                c = s.value
                x = c.func.value.id
                if c.func.attr != 'insert' or len(c.args) != 3 or c.keywords or \
                        not (isinstance(c.args[0], ast.Constant) and c.args[0].value == 0 and
                             not isinstance(c.args[0].value, bool)):
                    raise Unsupported('frame statement ' + ast.unparse(s))
                if x in self.params:
                    raise Unsupported('insert into the parameter ' + x)
                self.inserted.add(x)
                out.append(ast.Assign(targets=[ast.Name(id=x, ctx=ast.Store())],
                                      value=call('frame_insert0', name(x), self.val(c.args[1]), self.val(c.args[2]))))
            elif isinstance(s, ast.Expr):
                v, ty = self.rw(s.value)
                if ty != 'val':
                    raise Unsupported('a %s is computed and dropped' % ty)
                # receiver of a mutating method must not be frame-typed (checked by rw: method of a val)
                out.append(ast.Expr(value=v))
            elif isinstance(s, ast.If):
                out.append(ast.If(test=self.val(s.test), body=self.stmts(s.body) or [ast.Pass()],
                                  orelse=self.stmts(s.orelse)))
            elif isinstance(s, ast.For):
                if s.orelse:
                    raise Unsupported('for-else')
                for sub in ast.walk(s.target):
                    if isinstance(sub, ast.Name) and self.env.get(sub.id, 'val') != 'val':
                        raise Unsupported('loop variable %s' % sub.id)
                out.append(ast.For(target=s.target, iter=self.val(s.iter), body=self.stmts(s.body), orelse=[]))
            elif isinstance(s, ast.Return):
                if s.value is None:
                    out.append(s)
                else:
                    v, ty = self.rw(s.value)
                    self.ret = ty if getattr(self, 'ret', ty) == ty else 'mixed'
                    out.append(ast.Return(value=v))
            elif isinstance(s, (ast.Pass, ast.Continue)):
                out.append(s)
            else:
                raise Unsupported('statement ' + type(s).__name__)
        return out

    def run(self):
        # two passes so that a name typed by a later assignment (loop back edges do not occur for
        # frames here) is seen consistently: the second pass must reproduce the environment
        body = self.stmts(copy.deepcopy(self.fn.body))
        env1 = dict(self.env)
        body = self.stmts(copy.deepcopy(self.fn.body))
        if env1 != self.env:
            raise Unsupported('unstable frame typing')
        self.fn.body = body
        ast.fix_missing_locations(self.fn)
        return getattr(self, 'ret', 'val')


# --------------------------------------------------------------------------- helper functions
def helper_fun(repo, rel, fname, srcs):
    if rel not in srcs:
        srcs[rel] = open(os.path.join(repo, rel)).read()
    tree = ast.parse(srcs[rel])
    fn = find_fun(tree, fname, rel)
    check_imports(tree, fn)
    return tree, fn


def helper_sig(repo, rel, fname, srcs):
    """signature of a function whose text is generated elsewhere (HelperGen.v)"""
    if rel not in srcs:
        srcs[rel] = open(os.path.join(repo, rel)).read()
    fn = find_fun(ast.parse(srcs[rel]), fname, rel)
    constant_defaults(fn, fname)
    return fn


def constant_defaults(fn, what):
    for d in fn.args.defaults:
        if not isinstance(d, ast.Constant):
            raise Unsupported('non-constant default in ' + what)


def gen_helpers(repo, srcs):
    """convert_dataframe_to_array, split_table, get_pairs_with_missing_value -> (fundefs, helpers, notes)"""
    notes, fundefs, helpers = {}, [], {}
    # convert_dataframe_to_array
    _, fn = helper_fun(repo, HELPER, 'convert_dataframe_to_array', srcs)
    constant_defaults(fn, 'convert_dataframe_to_array')
    orig = copy.deepcopy(fn)
    nt = []
    strip_docstring(fn)
    ty = FrameTyper(fn, ['dataframe'], ['proj_attrs'], ['join_attr'], {}, nt).run()
    if ty != 'val' or [a.arg for a in fn.args.args] != ['dataframe', 'proj_attrs', 'join_attr', 'remove_nan']:
        raise Unsupported('convert_dataframe_to_array shape')
    fn.args.defaults = []
    fundefs.append(fn)
    notes['convert_dataframe_to_array'] = nt + ['dataframe: frame; proj_attrs: list of labels; join_attr: label']
    helpers['convert_dataframe_to_array'] = dict(new='convert_dataframe_to_array', fn=orig,
                                                 params=[a.arg for a in orig.args.args],
                                                 types={'dataframe': 'frame'}, ret='val')
    # split_table: verbatim
    _, fn = helper_fun(repo, HELPER, 'split_table', srcs)
    orig = copy.deepcopy(fn)
    strip_docstring(fn)
    if fn.args.defaults:
        raise Unsupported('split_table signature')
    fundefs.append(fn)
    notes['split_table'] = ['verbatim: table is a list of rows, table[a:b] is py_slice']
    helpers['split_table'] = dict(new='split_table', fn=orig, params=[a.arg for a in orig.args.args],
                                  types={}, ret='val')
    # get_pairs_with_missing_value
    _, fn = helper_fun(repo, MISSING, 'get_pairs_with_missing_value', srcs)
    constant_defaults(fn, 'get_pairs_with_missing_value')
    orig = copy.deepcopy(fn)
    nt = []
    strip_docstring(fn)
    drop_progress(fn, nt)
    inner = {}
    for h in ('find_output_attribute_indices', 'get_output_header_from_tables', 'get_output_row_from_tables'):
        hf = helper_sig(repo, HELPER, h, srcs)
        inner[h] = dict(new=h, fn=hf, params=[a.arg for a in hf.args.args], types={}, ret='val')
    ty = FrameTyper(fn, ['ltable', 'rtable'], [], ['l_join_attr', 'r_join_attr'], inner, nt).run()
    if ty != 'frame':
        raise Unsupported('get_pairs_with_missing_value does not return a frame')
    fn.args.defaults = []
    fundefs.append(fn)
    notes['get_pairs_with_missing_value'] = nt + ['ltable, rtable: frames; returns a frame']
    helpers['get_pairs_with_missing_value'] = dict(new='get_pairs_with_missing_value', fn=orig,
                                                   params=[a.arg for a in orig.args.args],
                                                   types={'ltable': 'frame', 'rtable': 'frame'}, ret='frame')
    return fundefs, helpers, notes


# --------------------------------------------------------------------------- the wrappers
class WrapperPreparer:
    # hooks for filter_wrappers.py (Gen/FilterWrapperGen.v): the label parameters that may index a frame,
    # and plain parameters appended after cpu_count_ (the `self_<attr>` parameters of a method)
    labels = ('l_join_attr', 'r_join_attr')
    extra_params = ()

    def __init__(self, repo, rel, fname, core_py, core_new, core_params, core_local, mode, helpers, srcs):
        self.repo, self.rel, self.fname = repo, rel, fname
        self.core_py, self.core_new, self.core_params = core_py, core_new, core_params
        self.mode = mode              # True: the wrapper forces return_set=True; False: forces False
        self.helpers = helpers
        self.notes = []
        self.dropped = []
        self.kept = []
        if rel not in srcs:
            srcs[rel] = open(os.path.join(repo, rel)).read()
        self.srcs = srcs
        self.tree = ast.parse(srcs[rel])
        self.fn = find_fun(self.tree, fname, rel)
        check_imports(self.tree, self.fn, local_defs=[core_py] if core_local else [])
        strip_docstring(self.fn)
        self.params = [a.arg for a in self.fn.args.args]

    def validators(self):
        if VALIDATION not in self.srcs:
            self.srcs[VALIDATION] = open(os.path.join(self.repo, VALIDATION)).read()
        vtree = ast.parse(self.srcs[VALIDATION])
        body = self.fn.body
        k = 0
        out = []
        while k < len(body):
            s = body[k]
            if not (isinstance(s, ast.Expr) and isinstance(s.value, ast.Call) and isinstance(s.value.func, ast.Name)
                    and s.value.func.id.startswith('validate_')):
                break
            v = s.value.func.id
            if v in DROPPED_VALIDATORS:
                raises_or_returns_true(vtree, v)
                self.dropped.append(ast.unparse(s.value))
            elif v in KEPT_VALIDATORS:
                if s.value.keywords:
                    raise Unsupported('keyword arguments of ' + v)
                self.kept.append(ast.unparse(s.value))
                out.append(s)
            else:
                raise Unsupported('unknown validator ' + v)
            k += 1
        if k == 0:
            raise Unsupported('%s does not start with its validations' % self.fname)
        rest = body[k:]
        for s in rest:
            for n in ast.walk(s):
                if isinstance(n, ast.Name) and n.id.startswith('validate_'):
                    raise Unsupported('%s is used after the leading validations' % n.id)
        self.fn.body = out + rest
        self.nvalid = len(out)
        self.notes.append('dropped (pandas-dependent, leading, raise-or-return-True): ' + '; '.join(self.dropped))
        self.notes.append('kept (ValidationGen): ' + '; '.join(self.kept))

    def tokenizer_flag(self):
        body = self.fn.body
        k = self.nvalid
        # edit distance: threshold = int(floor(threshold)) stands between the validations and the flag
        while k < len(body) and isinstance(body[k], ast.Assign) and \
                not (isinstance(body[k].value, ast.Constant) and body[k].value.value is False):
            k += 1
        if k + 1 >= len(body):
            raise Unsupported('tokenizer flag statements not found')
        s1, s2 = body[k], body[k + 1]
        ok = isinstance(s1, ast.Assign) and len(s1.targets) == 1 and isinstance(s1.targets[0], ast.Name) and \
            isinstance(s1.value, ast.Constant) and s1.value.value is False
        flag = s1.targets[0].id if ok else None

        def is_call(e, meth, arg=None):
            return (isinstance(e, ast.Call) and isinstance(e.func, ast.Attribute) and e.func.attr == meth and
                    isinstance(e.func.value, ast.Name) and e.func.value.id == 'tokenizer' and not e.keywords and
                    ((arg is None and not e.args) or
                     (arg is not None and len(e.args) == 1 and isinstance(e.args[0], ast.Constant) and
                      e.args[0].value is arg)))
        if self.mode:
            test_ok = ok and isinstance(s2, ast.If) and isinstance(s2.test, ast.UnaryOp) and \
                isinstance(s2.test.op, ast.Not) and is_call(s2.test.operand, 'get_return_set')
        else:
            test_ok = ok and isinstance(s2, ast.If) and is_call(s2.test, 'get_return_set')
        ok = test_ok and not s2.orelse and len(s2.body) == 2 and \
            isinstance(s2.body[0], ast.Expr) and is_call(s2.body[0].value, 'set_return_set', self.mode) and \
            isinstance(s2.body[1], ast.Assign) and len(s2.body[1].targets) == 1 and \
            isinstance(s2.body[1].targets[0], ast.Name) and s2.body[1].targets[0].id == flag and \
            isinstance(s2.body[1].value, ast.Constant) and s2.body[1].value.value is True
        if not ok:
            raise Unsupported('tokenizer flag flip: unexpected shape')
        # flag = False; if ..: flip; try: <body> finally: <restoration>; return <table>   -- nothing else
        if len(body) != k + 4:
            raise Unsupported('tokenizer flag: the flip must be followed by exactly `try: .. finally: <restoration>` '
                              'and `return <table>` (restoration outside a finally block, or extra statements)')
        tr, ret = body[k + 2], body[k + 3]
        if type(tr) is not ast.Try:
            raise Unsupported('tokenizer flag restore: the statement after the flip is not `try: .. finally: ..` '
                              '(a restoration that is not in a finally block is skipped when the body raises)')
        if tr.handlers:
            raise Unsupported('tokenizer flag restore: `except` clause on the try block')
        if tr.orelse:
            raise Unsupported('tokenizer flag restore: `else` clause on the try block')
        if len(tr.finalbody) != 1:
            raise Unsupported('tokenizer flag restore: the finally block must consist of the restoration only')
        s3 = tr.finalbody[0]
        ok = isinstance(ret, ast.Return) and isinstance(ret.value, ast.Name) and \
            isinstance(s3, ast.If) and isinstance(s3.test, ast.Name) and s3.test.id == flag and not s3.orelse and \
            len(s3.body) == 1 and isinstance(s3.body[0], ast.Expr) and \
            is_call(s3.body[0].value, 'set_return_set', not self.mode)
        if not ok:
            raise Unsupported('tokenizer flag restore: unexpected shape')
        if not tr.body:
            raise Unsupported('tokenizer flag restore: empty try block')
        for st in tr.body:
            for n in ast.walk(st):
                if isinstance(n, ast.Return):
                    raise Unsupported('return inside the try block')
                if isinstance(n, (ast.Try, getattr(ast, 'TryStar', ast.Try), ast.With, ast.Break)):
                    raise Unsupported('%s inside the try block' % type(n).__name__)
        self.fn.body = body[:k] + list(tr.body) + [ret]
        for n in ast.walk(self.fn):
            if isinstance(n, ast.Name) and n.id == flag:
                raise Unsupported('%s is used elsewhere' % flag)
            if isinstance(n, ast.Attribute) and isinstance(n.value, ast.Name) and n.value.id == 'tokenizer':
                raise Unsupported('tokenizer.%s is used outside the flag statements' % n.attr)
            if isinstance(n, ast.Return) and n is not ret:
                raise Unsupported('early return (the flag would not be restored)')
        if 'tokenizer' in joins.assigned_anywhere(self.fn) or 'tokenizer' not in self.params:
            raise Unsupported('tokenizer is not a plain parameter')
        self.notes.append('tokenizer flag flip/restore dropped: tokenizer_tokenize is tokenization with '
                          'return_set=%s' % self.mode)

    def parallel(self):
        found = []

        def conv(s):
            if not (isinstance(s, ast.Assign) and isinstance(s.value, ast.Call) and
                    isinstance(s.value.func, ast.Call) and isinstance(s.value.func.func, ast.Name) and
                    s.value.func.func.id == 'Parallel'):
                return s
            p = s.value.func
            c = s.value
            ok = not p.args and len(p.keywords) == 1 and p.keywords[0].arg == 'n_jobs' and \
                isinstance(p.keywords[0].value, ast.Name) and len(c.args) == 1 and not c.keywords and \
                isinstance(c.args[0], ast.GeneratorExp) and len(c.args[0].generators) == 1
            g = c.args[0].generators[0] if ok else None
            ok = ok and isinstance(g.target, ast.Name) and not g.ifs and not g.is_async and \
                isinstance(g.iter, ast.Call) and isinstance(g.iter.func, ast.Name) and g.iter.func.id == 'range' and \
                len(g.iter.args) == 1 and not g.iter.keywords
            e = c.args[0].elt if ok else None
            ok = ok and isinstance(e, ast.Call) and isinstance(e.func, ast.Call) and \
                isinstance(e.func.func, ast.Name) and e.func.func.id == 'delayed' and len(e.func.args) == 1 and \
                not e.func.keywords and isinstance(e.func.args[0], ast.Name) and e.func.args[0].id == self.core_py
            if not ok:
                raise Unsupported('Parallel(...)(delayed(%s)(...) for i in range(n)): unexpected shape' % self.core_py)
            found.append(1)
            elt = ast.Call(func=name(self.core_py), args=e.args, keywords=e.keywords)
            return ast.Assign(targets=s.targets, value=ast.ListComp(elt=elt, generators=[g]))

        def walk(ss):
            out = []
            for s in ss:
                s = conv(s)
                for f in ('body', 'orelse'):
                    if hasattr(s, f) and isinstance(getattr(s, f), list):
                        setattr(s, f, walk(getattr(s, f)))
                out.append(s)
            return out
        self.fn.body = walk(self.fn.body)
        for n in ast.walk(self.fn):
            if isinstance(n, ast.Name) and n.id in ('Parallel', 'delayed'):
                raise Unsupported('joblib used outside the expected statement')
        if found:
            self.notes.append('Parallel(n_jobs=..)(delayed(%s)(..) for job_index in range(n_jobs)) -> list '
                              'comprehension over range(n_jobs)' % self.core_py)

    def prepare(self):
        a = self.fn.args
        constant_ok = all(isinstance(d, ast.Constant) or
                          (isinstance(d, ast.Call) and isinstance(d.func, ast.Name) and d.func.id == 'QgramTokenizer')
                          for d in a.defaults)
        if not constant_ok:
            raise Unsupported('defaults of ' + self.fname)
        if a.defaults:
            self.notes.append('parameter defaults dropped (all arguments explicit): ' + ', '.join(
                '%s=%s' % (p.arg, ast.unparse(d)) for p, d in zip(a.args[len(a.args) - len(a.defaults):], a.defaults)))
        a.defaults = []
        self.validators()
        self.tokenizer_flag()
        self.parallel()
        # int(floor(x)) of the edit-distance wrapper: math.floor -> builtin floor of py2coq (py_floor)
        helpers = dict(self.helpers)
        for h in ('remove_redundant_attrs', 'get_attrs_to_project'):
            hf = helper_sig(self.repo, HELPER, h, self.srcs)
            helpers[h] = dict(new=h, fn=hf, params=[x.arg for x in hf.args.args], types={}, ret='val')
        hf = helper_sig(self.repo, HELPER, 'get_num_processes_to_launch', self.srcs)
        helpers['get_num_processes_to_launch'] = dict(
            new='get_num_processes_to_launch_with_cpus', fn=hf, params=[x.arg for x in hf.args.args], types={},
            ret='val', extra=['cpu_count_'])
        if 'cpu_count_' in methods.local_names(self.fn) or 'cpu_count_' in self.params:
            raise Unsupported('name clash cpu_count_')
        vtree = ast.parse(self.srcs[VALIDATION])
        for v in KEPT_VALIDATORS:
            vf = find_fun(vtree, v, VALIDATION)
            helpers[v] = dict(new=v, fn=vf, params=[x.arg for x in vf.args.args], types={}, ret='val')
        corefn = ast.FunctionDef(name=self.core_py, args=ast.arguments(
            posonlyargs=[], args=[ast.arg(arg=p) for p in self.core_params], vararg=None, kwonlyargs=[],
            kw_defaults=[], kwarg=None, defaults=[]), body=[ast.Pass()], decorator_list=[])
        helpers[self.core_py] = dict(new=self.core_new, fn=corefn, params=list(self.core_params), types={},
                                     ret='frame', wrap='frame_of_core')
        lists = []
        for s in self.fn.body:
            if isinstance(s, ast.Assign) and isinstance(s.value, ast.Call) and isinstance(s.value.func, ast.Name) and \
                    s.value.func.id == 'get_attrs_to_project' and len(s.targets) == 1 and \
                    isinstance(s.targets[0], ast.Name) and joins.assigned_anywhere(self.fn).get(s.targets[0].id) == 1:
                lists.append(s.targets[0].id)
        ft = FrameTyper(self.fn, ['ltable', 'rtable'], lists, list(self.labels), helpers, self.notes)
        ty = ft.run()
        if ty != 'frame':
            raise Unsupported('%s does not return a frame' % self.fname)
        for x in ft.inserted:
            # no alias: every binding of x is the result of a call (checked by FrameTyper.stmts)
            pass
        self.fn.args.args.append(ast.arg(arg='cpu_count_'))
        for p in self.extra_params:
            self.fn.args.args.append(ast.arg(arg=p))
        self.notes.append('get_num_processes_to_launch(n) -> get_num_processes_to_launch_with_cpus(n, cpu_count_); '
                          'cpu_count_ is the last plain parameter')
        self.notes.append('%s(..) -> frame_of_core(%s(..))' % (self.core_py, self.core_new))
        ast.fix_missing_locations(self.fn)
        return ast.parse(ast.unparse(self.fn)).body[0]


# (generated name, file, function, core python name, generated core, core defined in the wrapper's module, mode)
WRAPPERS = [
    ('jaccard_join_rows', 'py_stringsimjoin/join/jaccard_join_py.py', 'jaccard_join_py',
     'set_sim_join', 'set_sim_join_rows', False, True),
    ('cosine_join_rows', 'py_stringsimjoin/join/cosine_join_py.py', 'cosine_join_py',
     'set_sim_join', 'set_sim_join_rows', False, True),
    ('dice_join_rows', 'py_stringsimjoin/join/dice_join_py.py', 'dice_join_py',
     'set_sim_join', 'set_sim_join_rows', False, True),
    ('overlap_coefficient_join_rows', 'py_stringsimjoin/join/overlap_coefficient_join_py.py',
     'overlap_coefficient_join_py', '_overlap_coefficient_join_split', 'overlap_coefficient_join_split_rows',
     True, True),
    ('edit_distance_join_rows', 'py_stringsimjoin/join/edit_distance_join_py.py', 'edit_distance_join_py',
     '_edit_distance_join_split', 'edit_distance_join_split_rows', True, False),
]


def gen_wrappers(repo, core_specs, core_pyparams, core_fun_params, srcs):
    """core_specs: generated core name -> (python parameters, py2coq spec); core_fun_params: generated
    core name -> {function parameter: arity}.  Returns (text, info)."""
    fundefs, helpers, hnotes = gen_helpers(repo, srcs)
    fresh = {'get_output_row_from_tables', 'get_output_header_from_tables', 'find_output_attribute_indices'}
    prims = set(PRIMS)
    plain = prims | {'convert_dataframe_to_array', 'split_table', 'get_pairs_with_missing_value',
                     'remove_redundant_attrs', 'get_attrs_to_project', 'get_num_processes_to_launch_with_cpus',
                     'find_output_attribute_indices', 'get_output_header_from_tables', 'get_output_row_from_tables'} \
        | set(KEPT_VALIDATORS)
    out, info = [], {}
    for fn in fundefs:
        fn = ast.parse(ast.unparse(fn)).body[0]
        tr = py2coq.FunTranslator(fn, known_funs=plain, fresh_funs=fresh, strict_escape=True)
        text, params = tr.translate()
        if tr.attr_params or tr.method_params:
            raise Unsupported('%s: unexpected abstracted parameters' % fn.name)
        out.append(text)
        info[fn.name] = {'signature': params, 'rewrites': hnotes[fn.name], 'python': ast.unparse(fn)}
    for new, rel, fname, core_py, core_new, core_local, mode in WRAPPERS:
        prep = WrapperPreparer(repo, rel, fname, core_py, core_new, core_pyparams[core_new], core_local, mode,
                               helpers, srcs)
        fn = prep.prepare()
        fn.name = new
        tr = py2coq.FunTranslator(fn, known_funs=plain, known_sigs={core_new: core_specs[core_new]},
                                  fun_params=core_fun_params[core_new], fresh_funs=fresh, strict_escape=True,
                                  allow_listcomp=True)
        text, params = tr.translate()
        out.append(text)
        info[new] = {'source': rel, 'function': fname, 'signature': params, 'rewrites': prep.notes,
                     'dropped_validators': prep.dropped, 'kept_validators': prep.kept,
                     'tokenizer_mode': 'return_set=%s' % mode, 'python': ast.unparse(fn)}
    return '\n'.join(out), info
