"""Pair-level filter path: `filter_pair` of SizeFilter / PrefixFilter / PositionFilter /
OverlapFilter as pure functions over `pyval` (Gen/FilterPairGen.v).  Syntactic and fail-closed.

Each `Cls.filter_pair(self, lstring, rstring)` becomes (methods.extract_method)

    <cls>_filter_pair_gen(<attributes read through self, constructor order>, lstring, rstring)

  * `self.tokenizer`, `self.sim_measure_type`, `self.threshold`, `self.allow_empty`,
    `self.overlap_size`, `self.comp_op` must be constructor-argument attributes (`self.X = X`
    stored exactly once, in `__init__`); `self.allow_missing` is the constructor argument
    forwarded to `Filter.__init__`, which stores it (methods.inherited_attr_ok).
  * `filter_pair` may not store to ANY attribute of self (state = []): a memo cache kept on the
    filter object is rejected ("writes [...], expected []"), as is any other use of `self`.
  * `self.tokenizer.tokenize(s)` -> the function parameter `tokenizer_tokenize : pyval -> pyval`;
    `get_prefix_length(.., self.tokenizer)` -> the parameter `tokenizer_qval` (as in IndexGen).
  * `pd.isnull(x)` -> the primitive `py_isnull` of the prelude (None / float NaN; `pd` must be
    `import pandas as pd`).
  * `overlap(ltokens, rtokens)` (utils/simfunctions.py) is TRANSLATED (definition
    `simfunctions_overlap`), not parameterised: `isinstance(x, set)`, `set(x)`,
    `a.intersection(b)` are prelude primitives on insertion-ordered sets whose order is never
    observed (py2coq.check_set_order_unobserved).
  * `COMP_OP_MAP[self.comp_op](a, b)` -> lookup in the generated `comp_op_map` of HelperGen
    (`fp_comp_op_lookup`; KeyError for an unknown key).
  * the formulas, `gen_token_ordering_for_lists` and `order_using_token_ordering` are the
    generated definitions of FilterUtilsGen / TokenOrderingGen (imports checked).
Every free name of a method must be imported from the expected module (EXPECTED) and not be
shadowed by a module-level definition.
"""
import ast
import hashlib
import os

import py2coq
from py2coq import Unsupported
import methods

HEADER = '''(* GENERATED from %s by harness/translate -- do not edit.  sha256(sources)=%s
   The pair-level filter path: Cls.filter_pair as functions (see harness/translate/pairs.py).
   Attributes read through `self` are parameters (constructor order, then allow_missing of the
   base class Filter); no attribute may be written.  The tokenizer is the pair
   (tokenizer_qval, tokenizer_tokenize). *)
From Coq Require Import ZArith Bool List String.
From SSJ Require Import F64 PyNum FilterUtilsGen HelperGen TokenOrderingGen.
Import ListNotations.
Open Scope string_scope.
Open Scope Z_scope.

(* pd.isnull on a scalar cell: None and float NaN are missing.  (Containers are outside the
   model: pandas returns an array for them; they are mapped to ValueError here.) *)
Definition py_isnull (v : pyval) : pyval :=
  match v with
  | PExc _ => v
  | PNone => PBool true
  | PFloat f => PBool (f_is_nan f)
  | PList _ | PTuple _ | PDict _ => PExc "ValueError"
  | _ => PBool false
  end.

(* sets are modelled by their insertion-ordered element lists: a PDict whose values are PNone
   (as in IndexGen).  The translator guarantees that only len / intersection / isinstance / truth
   consume them, so the order is unobservable. *)
Definition py_set_add1 (s x : pyval) : pyval := py_setitem s x PNone.
Definition py_set_of (it : pyval) : pyval :=                    (* set(iterable) *)
  match py_iter it with inr e => e | inl xs => fold_left py_set_add1 xs (PDict []) end.
Definition py_isinstance_set (v : pyval) : pyval :=             (* isinstance(v, set) *)
  match v with PExc _ => v | PDict _ => PBool true | _ => PBool false end.
Definition py_set_inter (a b : pyval) : pyval :=                (* a.intersection(b) *)
  match a with
  | PExc _ => a
  | PDict xs =>
      match py_iter b with
      | inr e => e
      | inl ys => PDict (filter (fun kv => match kv with
                                           | PTuple (k :: _) => mem_pv k ys
                                           | _ => false end) xs)
      end
  | _ => PExc "AttributeError"
  end.

(* COMP_OP_MAP[op]: the generated comp_op_map; KeyError for an unknown key, TypeError for an
   unhashable one *)
Definition fp_comp_op_lookup (op : pyval) : (pyval -> pyval -> pyval) + pyval :=
  match op with
  | PExc _ => inr op
  | PStr s => match comp_op_map s with Some f => inl f | None => inr (PExc "KeyError") end
  | PList _ | PDict _ => inr (PExc "TypeError")
  | _ => inr (PExc "KeyError")
  end.

'''

FILTER_BASE = ('py_stringsimjoin/filter/filter.py', 'Filter')
# (generated name, file, class)
PAIR_METHODS = [
    ('size_filter_pair_gen', 'py_stringsimjoin/filter/size_filter.py', 'SizeFilter'),
    ('prefix_filter_pair_gen', 'py_stringsimjoin/filter/prefix_filter.py', 'PrefixFilter'),
    ('position_filter_pair_gen', 'py_stringsimjoin/filter/position_filter.py', 'PositionFilter'),
    ('overlap_filter_pair_gen', 'py_stringsimjoin/filter/overlap_filter.py', 'OverlapFilter'),
]
CALLEES = [('py_stringsimjoin/filter/filter_utils.py',
            ['get_size_lower_bound', 'get_size_upper_bound', 'get_prefix_length',
             'get_overlap_threshold']),
           ('py_stringsimjoin/utils/token_ordering.py',
            ['gen_token_ordering_for_lists', 'order_using_token_ordering'])]
SIMFUN = ('py_stringsimjoin/utils/simfunctions.py', 'overlap', 'simfunctions_overlap')

EXPECTED = {
    'get_size_lower_bound': 'py_stringsimjoin.filter.filter_utils',
    'get_size_upper_bound': 'py_stringsimjoin.filter.filter_utils',
    'get_prefix_length': 'py_stringsimjoin.filter.filter_utils',
    'get_overlap_threshold': 'py_stringsimjoin.filter.filter_utils',
    'gen_token_ordering_for_lists': 'py_stringsimjoin.utils.token_ordering',
    'order_using_token_ordering': 'py_stringsimjoin.utils.token_ordering',
    'overlap': 'py_stringsimjoin.utils.simfunctions',
    'COMP_OP_MAP': 'py_stringsimjoin.utils.generic_helper',
    'Filter': 'py_stringsimjoin.filter.filter',
}
BUILTINS = {'len', 'min', 'max', 'set', 'isinstance', 'True', 'False', 'None'}
MODULES = {'pd': 'pandas'}
EXT_CALLS = {('pd', 'isnull'): 'py_isnull'}


def check_free_names(tree, fn, what):
    """Every free name of fn is a builtin of the subset, `self`, the module alias pd = pandas, or
    imported under its own name from the expected module -- and not shadowed at module level."""
    names, mods = {}, {}
    for n in tree.body:
        if isinstance(n, ast.ImportFrom):
            if n.level:
                raise Unsupported('relative import')
            for a in n.names:
                names[a.asname or a.name] = (n.module, a.name)
        elif isinstance(n, ast.Import):
            for a in n.names:
                mods[a.asname or a.name] = a.name
    toplevel = set()
    for n in ast.walk(tree):
        # any rebinding of a global anywhere outside function bodies' own locals
        if isinstance(n, ast.Global):
            raise Unsupported('global statement in module')
    for n in tree.body:
        if isinstance(n, (ast.FunctionDef, ast.ClassDef)):
            toplevel.add(n.name)
        elif isinstance(n, (ast.Assign, ast.AugAssign, ast.AnnAssign)):
            for t in (n.targets if isinstance(n, ast.Assign) else [n.target]):
                for e in ast.walk(t):
                    if isinstance(e, ast.Name):
                        toplevel.add(e.id)
        elif not isinstance(n, (ast.Import, ast.ImportFrom, ast.Expr)):
            raise Unsupported('module-level statement %s' % type(n).__name__)
    bound = set(a.arg for a in fn.args.args)
    for n in ast.walk(fn):
        if isinstance(n, ast.Name) and isinstance(n.ctx, (ast.Store, ast.Del)):
            bound.add(n.id)
    for n in ast.walk(fn):
        if isinstance(n, ast.Name) and isinstance(n.ctx, ast.Load) and n.id not in bound:
            if n.id in toplevel:
                raise Unsupported('%s: %s is defined / rebound at module level' % (what, n.id))
            if n.id in BUILTINS or n.id == 'self':
                continue
            if n.id in mods:
                if MODULES.get(n.id) != mods[n.id]:
                    raise Unsupported('%s: module alias %s = %s' % (what, n.id, mods[n.id]))
                continue
            if n.id not in names:
                raise Unsupported('%s: free name %s is not imported' % (what, n.id))
            mod, orig = names[n.id]
            if orig != n.id or EXPECTED.get(n.id) != mod:
                raise Unsupported('%s: %s is imported from %s.%s' % (what, n.id, mod, orig))
    for b in BUILTINS:
        if b in toplevel or b in names or b in mods:
            raise Unsupported('%s: builtin %s is shadowed' % (what, b))


def gen_filter_pair(repo, preprocess):
    """FilterPairGen.v: (text, info)."""
    srcs = {}

    def read(rel):
        if rel not in srcs:
            srcs[rel] = open(os.path.join(repo, rel)).read()
        return srcs[rel]
    # how the callees abstracted their parameters (their text lives in the imported Gen files)
    specs = {}
    for rel, funs in CALLEES:
        py2coq.translate_functions(ast.unparse(preprocess(rel, read(rel))), funs, specs=specs)
    out, info = [], {}
    # utils.simfunctions.overlap
    rel, fname, newname = SIMFUN
    stree = ast.parse(read(rel))
    fns = [n for n in stree.body if isinstance(n, ast.FunctionDef) and n.name == fname]
    if len(fns) != 1 or fns[0].decorator_list or fns[0].args.defaults:
        raise Unsupported('%s: %s not found exactly once / decorated' % (rel, fname))
    check_free_names(stree, fns[0], '%s:%s' % (rel, fname))
    ofn = ast.parse(ast.unparse(fns[0])).body[0]
    ofn.name = newname
    text, sigs = py2coq.translate_fundefs([ofn], allow_sets=True)
    out.append(text)
    info[newname] = {'source': rel, 'function': fname, 'signature': sigs[newname]}
    specs_all = dict(specs)
    base_rel, base_cls = FILTER_BASE
    base_tree = ast.parse(read(base_rel))
    for new, rel, cls in PAIR_METHODS:
        tree = ast.parse(read(rel))
        c = methods.find_class(tree, cls)
        check_free_names(tree, methods.find_method(c, 'filter_pair'), '%s.filter_pair' % cls)
        fn, inf = methods.extract_method(tree, cls, 'filter_pair', new, [], {},
                                         inherited={'allow_missing': (base_tree, base_cls)})
        if inf['own_params'] != ['lstring', 'rstring']:
            raise Unsupported('%s.filter_pair signature %s' % (cls, inf['own_params']))
        text, sigs = py2coq.translate_fundefs(
            [fn], known_sigs=specs_all, allow_sets=True,
            fun_tables={'COMP_OP_MAP': 'fp_comp_op_lookup'}, ext_calls=EXT_CALLS,
            known_funs={'overlap'}, rename_calls={'overlap': newname})
        out.append(text)
        info[new] = dict(inf, source=rel, method='%s.filter_pair' % cls, signature=sigs[new])
    rels = sorted(srcs)
    sha = hashlib.sha256('\0'.join(srcs[r] for r in rels).encode()).hexdigest()
    return HEADER % (', '.join(rels), sha) + '\n'.join(out), {'sources': rels, 'sha256': sha, 'functions': info}
