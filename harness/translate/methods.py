"""Methods of index / filter classes as plain functions (syntactic, fail-closed).

`extract_method` rewrites  `class C: def m(self, a, b): ...`  into  `def new_name(<attrs read>, a, b)`:

  * every READ of `self.X` (X never written by the method) becomes a parameter named X.  X must be
    assigned exactly once in the whole class, in `__init__`, as `self.X = X` (so the parameter is
    "the constructor argument X"); any other store to it anywhere in the class is rejected.
  * every attribute WRITTEN by the method becomes a local variable X whose initial value is the
    right-hand side of the single `self.X = <None | int literal | maxsize>` in `__init__`; no
    other method of the class may store to it.  The method must end in its only `return E`, which
    becomes `return (X1, ..., Xn, E)` with X1..Xn the written attributes in `state` order.
    The function therefore describes the FIRST call of the method on a freshly constructed object.
  * a parameter that is an object of another class (`position_index`) may only be used through
    `obj.attr` for the listed attributes (each must be assigned in that class's `__init__`; they
    become parameters obj_attr in py2coq) or through listed one-line methods, which are inlined
    after checking that their body is a single `return <expr>`.
  * an INHERITED attribute (`self.allow_missing`, stored by the base class Filter) is accepted as
    a read-only parameter when (checked by `inherited_attr_ok`): the class has exactly the one
    base class named in `inherited`; the class' own `__init__` contains exactly one call
    `super(self.__class__, self).__init__(..., X, ...)` (a top-level expression statement) whose
    argument in the base constructor's position of X is the bare, never reassigned constructor
    parameter X; the base `__init__` stores `self.X = X` exactly once, and neither class stores
    to X anywhere else.
  * any other occurrence of `self`, a name clash between attributes and locals, decorators,
    nested functions, a second return ... raise Unsupported.
"""
import ast
import copy

from py2coq import Unsupported


def find_class(tree, name):
    for n in tree.body:
        if isinstance(n, ast.ClassDef) and n.name == name:
            return n
    raise Unsupported('class %s not found' % name)


def find_method(cls, name):
    found = [n for n in cls.body if isinstance(n, ast.FunctionDef) and n.name == name]
    if len(found) != 1:
        raise Unsupported('method %s.%s not found exactly once' % (cls.name, name))
    fn = found[0]
    if fn.decorator_list:
        raise Unsupported('decorated method %s.%s' % (cls.name, name))
    a = fn.args
    if a.vararg or a.kwarg or a.kwonlyargs or getattr(a, 'posonlyargs', None):
        raise Unsupported('method signature %s.%s' % (cls.name, name))
    if not a.args or a.args[0].arg != 'self':
        raise Unsupported('first parameter of %s.%s is not self' % (cls.name, name))
    return fn


def self_stores(cls):
    """attr -> list of (method name, value node or None) for every store to self.attr in the
    class.  Stores that are not plain `self.X = e` / `self.X op= e` statements are rejected."""
    out = {}
    for m in cls.body:
        if not isinstance(m, ast.FunctionDef):
            continue
        for n in ast.walk(m):
            if isinstance(n, ast.Attribute) and isinstance(n.value, ast.Name) and \
                    n.value.id == 'self' and isinstance(n.ctx, (ast.Store, ast.Del)):
                out.setdefault(n.attr, [])
        for n in ast.walk(m):
            if isinstance(n, ast.Assign):
                for t in n.targets:
                    for e in ast.walk(t):
                        if isinstance(e, ast.Attribute) and isinstance(e.value, ast.Name) and \
                                e.value.id == 'self' and isinstance(e.ctx, ast.Store):
                            if e is not t or len(n.targets) != 1:
                                raise Unsupported('store to self.%s inside a compound target' % e.attr)
                            out[e.attr].append((m.name, n.value))
            elif isinstance(n, (ast.AugAssign, ast.AnnAssign)):
                t = n.target
                if isinstance(t, ast.Attribute) and isinstance(t.value, ast.Name) and t.value.id == 'self':
                    out[t.attr].append((m.name, None))
            elif isinstance(n, (ast.For, ast.With, ast.Delete, ast.comprehension)):
                tg = []
                if isinstance(n, (ast.For, ast.comprehension)):
                    tg = [n.target]
                elif isinstance(n, ast.Delete):
                    tg = n.targets
                else:
                    tg = [i.optional_vars for i in n.items if i.optional_vars is not None]
                for t in tg:
                    for e in ast.walk(t):
                        if isinstance(e, ast.Attribute) and isinstance(e.value, ast.Name) and \
                                e.value.id == 'self':
                            raise Unsupported('self.%s bound by for/with/del' % e.attr)
    for k, v in out.items():
        if not v:
            raise Unsupported('unrecognised store to self.%s' % k)
    return out


def local_names(fn):
    names = set(a.arg for a in fn.args.args)
    for n in ast.walk(fn):
        if isinstance(n, ast.Name) and isinstance(n.ctx, (ast.Store, ast.Del)):
            names.add(n.id)
        if isinstance(n, (ast.FunctionDef, ast.Lambda, ast.ClassDef)) and n is not fn:
            raise Unsupported('nested def/lambda/class in ' + fn.name)
        if isinstance(n, (ast.Global, ast.Nonlocal)):
            raise Unsupported('global/nonlocal in ' + fn.name)
    return names


def init_value_ok(v):
    if isinstance(v, ast.Constant) and (v.value is None or
                                        (isinstance(v.value, int) and not isinstance(v.value, bool))):
        return True
    if isinstance(v, ast.Name) and v.id == 'maxsize':
        return True
    return False


def inline_expr_method(cls, name):
    """(params, expr) of a method whose body is `[docstring] return expr`."""
    fn = find_method(cls, name)
    body = list(fn.body)
    if body and isinstance(body[0], ast.Expr) and isinstance(body[0].value, ast.Constant) and \
            isinstance(body[0].value.value, str):
        body = body[1:]
    if len(body) != 1 or not isinstance(body[0], ast.Return) or body[0].value is None:
        raise Unsupported('%s.%s is not a single return' % (cls.name, name))
    if fn.args.defaults:
        raise Unsupported('%s.%s has default arguments' % (cls.name, name))
    params = [a.arg for a in fn.args.args[1:]]
    expr = body[0].value
    for n in ast.walk(expr):
        if isinstance(n, (ast.Lambda, ast.ListComp, ast.SetComp, ast.DictComp, ast.GeneratorExp,
                          ast.NamedExpr)):
            raise Unsupported('binder inside %s.%s' % (cls.name, name))
    return params, expr


def inherited_attr_ok(cls, attr, base_tree, base_name):
    """`self.attr` of an object of class `cls` is the constructor argument `attr`, stored by the
    base class' __init__ (see the module docstring).  Raises Unsupported otherwise."""
    if len(cls.bases) != 1 or not isinstance(cls.bases[0], ast.Name) or cls.bases[0].id != base_name \
            or cls.keywords:
        raise Unsupported('%s: base class is not exactly %s' % (cls.name, base_name))
    base = find_class(base_tree, base_name)
    if [b for b in base.bases if not (isinstance(b, ast.Name) and b.id == 'object')] or base.keywords:
        raise Unsupported('%s has base classes of its own' % base_name)
    if attr in self_stores(cls):
        raise Unsupported('self.%s is stored by %s itself' % (attr, cls.name))
    bst = self_stores(base).get(attr, [])
    if len(bst) != 1 or bst[0][0] != '__init__' or not isinstance(bst[0][1], ast.Name) or bst[0][1].id != attr:
        raise Unsupported('self.%s is not a constructor-argument attribute of %s' % (attr, base_name))
    binit = find_method(base, '__init__')
    for st in binit.body:
        if not isinstance(st, (ast.Assign, ast.Expr)):
            raise Unsupported('%s.__init__ is not straight-line' % base_name)
    bparams = [a.arg for a in binit.args.args[1:]]
    if attr not in bparams or any(isinstance(n, ast.Name) and n.id == attr and isinstance(n.ctx, ast.Store)
                                  for n in ast.walk(binit)):
        raise Unsupported('%s.__init__ does not take %s unchanged' % (base_name, attr))
    pos = bparams.index(attr)
    init = find_method(cls, '__init__')
    iparams = [a.arg for a in init.args.args[1:]]
    if attr not in iparams or any(isinstance(n, ast.Name) and n.id == attr and isinstance(n.ctx, ast.Store)
                                  for n in ast.walk(init)):
        raise Unsupported('%s.__init__ does not take %s unchanged' % (cls.name, attr))
    supers = [n for n in ast.walk(init) if isinstance(n, ast.Call) and isinstance(n.func, ast.Attribute) and
              n.func.attr == '__init__']
    tops = [st.value for st in init.body if isinstance(st, ast.Expr)]
    if len(supers) != 1 or supers[0] not in tops:
        raise Unsupported('%s.__init__: exactly one top-level super().__init__ call expected' % cls.name)
    c = supers[0]
    r = c.func.value
    ok_recv = isinstance(r, ast.Call) and isinstance(r.func, ast.Name) and r.func.id == 'super' and \
        not r.keywords and (
            not r.args or
            (len(r.args) == 2 and isinstance(r.args[1], ast.Name) and r.args[1].id == 'self' and
             ((isinstance(r.args[0], ast.Name) and r.args[0].id == cls.name) or
              (isinstance(r.args[0], ast.Attribute) and r.args[0].attr == '__class__' and
               isinstance(r.args[0].value, ast.Name) and r.args[0].value.id == 'self'))))
    if not ok_recv:
        raise Unsupported('%s.__init__: receiver of __init__ is not super(...)' % cls.name)
    arg = None
    if pos < len(c.args):
        arg = c.args[pos]
    for k in c.keywords:
        if k.arg is None:
            raise Unsupported('**kwargs in super().__init__')
        if k.arg == attr:
            if arg is not None:
                raise Unsupported('super().__init__: %s given twice' % attr)
            arg = k.value
    if any(isinstance(a, ast.Starred) for a in c.args):
        raise Unsupported('*args in super().__init__')
    if not (isinstance(arg, ast.Name) and arg.id == attr):
        raise Unsupported('%s.__init__ does not forward %s to %s.__init__' % (cls.name, attr, base_name))


def extract_method(tree, cls_name, meth, new_name, state=(), objects=None, inherited=None):
    """objects: {param: (class tree, class name, [attrs], [methods to inline])}
    inherited: {attr: (base class tree, base class name)}"""
    objects = objects or {}
    inherited = inherited or {}
    cls = find_class(tree, cls_name)
    fn = copy.deepcopy(find_method(cls, meth))
    stores = self_stores(cls)
    locs = local_names(fn)
    own_params = [a.arg for a in fn.args.args[1:]]

    # which attributes does the method read / write?
    written, read = [], []
    for n in ast.walk(fn):
        if isinstance(n, ast.Attribute) and isinstance(n.value, ast.Name) and n.value.id == 'self':
            if isinstance(n.ctx, ast.Store):
                if n.attr not in written:
                    written.append(n.attr)
    for n in ast.walk(fn):
        if isinstance(n, ast.Attribute) and isinstance(n.value, ast.Name) and n.value.id == 'self':
            if isinstance(n.ctx, ast.Load) and n.attr not in written and n.attr not in read:
                read.append(n.attr)
    # mutation through a method call on an attribute (self.X.append(..), self.X.get(k).append(..),
    # self.X[k] = ..) also makes X part of the state
    for n in ast.walk(fn):
        tgt = None
        if isinstance(n, ast.Expr) and isinstance(n.value, ast.Call) and \
                isinstance(n.value.func, ast.Attribute):
            r = n.value.func.value
            if isinstance(r, ast.Call) and isinstance(r.func, ast.Attribute) and r.func.attr == 'get':
                r = r.func.value
            tgt = r
        if isinstance(n, (ast.Assign, ast.AugAssign)):
            for t in (n.targets if isinstance(n, ast.Assign) else [n.target]):
                if isinstance(t, ast.Subscript):
                    tgt = t.value
        if isinstance(tgt, ast.Attribute) and isinstance(tgt.value, ast.Name) and \
                tgt.value.id == 'self' and tgt.attr in read:
            raise Unsupported('self.%s is mutated but never assigned by %s.%s' % (tgt.attr, cls_name, meth))
    # parameters in constructor order (stable under edits of the method body)
    init_order = []
    for n in ast.walk(find_method(cls, '__init__')):
        if isinstance(n, ast.Attribute) and isinstance(n.value, ast.Name) and n.value.id == 'self' and \
                isinstance(n.ctx, ast.Store) and n.attr not in init_order:
            init_order.append(n.attr)
    inh = []
    for a in read:
        if a not in init_order:
            if a in inherited:
                inherited_attr_ok(cls, a, *inherited[a])
                inh.append(a)
                continue
            raise Unsupported('self.%s is read but not initialised in %s.__init__' % (a, cls_name))
    read = sorted([a for a in read if a not in inh], key=init_order.index) + \
        sorted(inh, key=list(inherited).index)
    if sorted(written) != sorted(state):
        raise Unsupported('%s.%s writes %s, expected %s' % (cls_name, meth, sorted(written), sorted(state)))
    for a in list(read) + list(state):
        if a in locs:
            raise Unsupported('attribute %s clashes with a local name of %s.%s' % (a, cls_name, meth))
    # read attributes: exactly `self.X = X` in __init__ and no other store in the class
    for a in read:
        if a in inh:
            continue
        st = stores.get(a, [])
        if len(st) != 1 or st[0][0] != '__init__' or not isinstance(st[0][1], ast.Name) or \
                st[0][1].id != a:
            raise Unsupported('self.%s is not a constructor-argument attribute of %s' % (a, cls_name))
    prologue = []
    for a in state:
        st = stores.get(a, [])
        ini = [s for s in st if s[0] == '__init__']
        oth = [s for s in st if s[0] not in ('__init__', meth)]
        if len(ini) != 1 or oth or ini[0][1] is None or not init_value_ok(ini[0][1]):
            raise Unsupported('initial value / writers of self.%s in %s' % (a, cls_name))
        prologue.append(ast.Assign(targets=[ast.Name(id=a, ctx=ast.Store())],
                                   value=copy.deepcopy(ini[0][1])))
    # __init__ must be straight-line assignments (plus the super().__init__() call and calls for
    # their exceptions): no branching that could skip an initialisation
    init = find_method(cls, '__init__')
    for s in init.body:
        if not isinstance(s, (ast.Assign, ast.Expr)):
            raise Unsupported('%s.__init__ is not straight-line' % cls_name)

    # the only return is the last statement
    if state:
        rets = [n for n in ast.walk(fn) if isinstance(n, ast.Return)]
        if len(rets) != 1 or fn.body[-1] is not rets[0]:
            raise Unsupported('%s.%s: a state-changing method must end in its only return' % (cls_name, meth))
        val = rets[0].value if rets[0].value is not None else ast.Constant(value=None)
        rets[0].value = ast.Tuple(elts=[ast.Name(id=a, ctx=ast.Load()) for a in state] + [val],
                                  ctx=ast.Load())

    # inline one-line methods of parameter objects, check their attributes
    for obj, (otree, ocls_name, oattrs, omeths) in objects.items():
        if obj not in own_params or obj in [n.id for n in ast.walk(fn)
                                            if isinstance(n, ast.Name) and isinstance(n.ctx, ast.Store)]:
            raise Unsupported('%s is not an (unassigned) parameter of %s.%s' % (obj, cls_name, meth))
        ocls = find_class(otree, ocls_name)
        ostores = self_stores(ocls)
        for a in oattrs:
            if not any(s[0] == '__init__' for s in ostores.get(a, [])):
                raise Unsupported('%s.%s is not initialised in __init__' % (ocls_name, a))
        inl = {m: inline_expr_method(ocls, m) for m in omeths}

        class Inl(ast.NodeTransformer):
            def visit_Call(s, c):
                c = s.generic_visit(c)
                if isinstance(c.func, ast.Attribute) and isinstance(c.func.value, ast.Name) and \
                        c.func.value.id == obj and c.func.attr in inl:
                    params, expr = inl[c.func.attr]
                    if c.keywords or len(c.args) != len(params):
                        raise Unsupported('call of %s.%s' % (obj, c.func.attr))
                    sub = {}
                    for p_, a_ in zip(params, c.args):
                        uses = sum(1 for n in ast.walk(expr) if isinstance(n, ast.Name) and n.id == p_)
                        if uses > 1 and not isinstance(a_, (ast.Name, ast.Constant)):
                            raise Unsupported('inlining would duplicate an argument')
                        sub[p_] = a_
                    e = copy.deepcopy(expr)

                    class Sub(ast.NodeTransformer):
                        def visit_Name(s2, n):
                            if n.id == 'self':
                                return ast.Name(id=obj, ctx=ast.Load())
                            if n.id in sub:
                                return copy.deepcopy(sub[n.id])
                            return n
                    return Sub().visit(e)
                return c
        fn = Inl().visit(fn)
        for n in ast.walk(fn):
            if isinstance(n, ast.Attribute) and isinstance(n.value, ast.Name) and n.value.id == obj:
                if n.attr not in oattrs or not isinstance(n.ctx, ast.Load):
                    raise Unsupported('use of %s.%s' % (obj, n.attr))

    # self.X -> X
    class Self(ast.NodeTransformer):
        def visit_Attribute(s, n):
            if isinstance(n.value, ast.Name) and n.value.id == 'self':
                if n.attr in read or n.attr in state:
                    return ast.Name(id=n.attr, ctx=n.ctx)
                raise Unsupported('self.' + n.attr)
            return s.generic_visit(n)
    fn = Self().visit(fn)
    for n in ast.walk(fn):
        if isinstance(n, ast.Name) and n.id == 'self':
            raise Unsupported('bare use of self in %s.%s' % (cls_name, meth))
    fn.name = new_name
    fn.args.args = [ast.arg(arg=a) for a in read] + fn.args.args[1:]
    fn.args.defaults = []
    fn.body = prologue + fn.body
    ast.fix_missing_locations(fn)
    return fn, {'reads': read, 'state': list(state), 'own_params': own_params}
