"""Regenerate coq/Gen/*.v from /repo's working tree (write-if-changed).

Exit status 0: all Gen files are current.  Exit status 3: some source construct is not in the
supported subset (fail-closed) -- the caller treats this as a broken proof obligation.
Usage: gen.py [--repo /repo] [--out /verif/coq/Gen] [--only IndexGen.v | JoinGen.v | FilterPairGen.v | WrapperGen.v | MatcherGen.v | FilterWrapperGen.v | ProfilerGen.v]
(--only IndexGen.v writes just that file and gen_status_index.json; without it IndexGen.v is
generated together with the other targets and reported in gen_status.json.
 --only FilterPairGen.v writes just Gen/FilterPairGen.v and gen_status_pair.json;
 --only WrapperGen.v writes just Gen/WrapperGen.v and gen_status_wrapper.json;
 --only MatcherGen.v / FilterWrapperGen.v / ProfilerGen.v likewise write one file and gen_status_<x>.json)
"""
import argparse
import hashlib
import json
import os
import sys

sys.path.insert(0, os.path.dirname(os.path.abspath(__file__)))
import py2coq  # noqa: E402
import skeleton  # noqa: E402

HEADER = '''(* GENERATED from %s by harness/translate -- do not edit.  sha256(source)=%s *)
From Coq Require Import ZArith List String.
From SSJ Require Import F64 PyNum.
Import ListNotations.
Open Scope string_scope.
Open Scope Z_scope.

'''

TARGETS = [
    ('FilterUtilsGen.v', 'py_stringsimjoin/filter/filter_utils.py',
     ['get_size_lower_bound', 'get_size_upper_bound', 'get_prefix_length',
      'get_overlap_threshold']),
    ('HelperGen.v', 'py_stringsimjoin/utils/generic_helper.py',
     ['get_output_row_from_tables', 'get_output_header_from_tables',
      'find_output_attribute_indices', 'get_num_processes_to_launch_with_cpus',
      'remove_redundant_attrs', 'get_attrs_to_project', 'split_bounds']),
    ('TokenOrderingGen.v', 'py_stringsimjoin/utils/token_ordering.py',
     ['gen_token_ordering_for_lists', 'gen_token_ordering_for_tables',
      'order_using_token_ordering']),
    ('ValidationGen.v', 'py_stringsimjoin/utils/validation.py',
     ['validate_attr', 'validate_output_attrs', 'validate_threshold',
      'validate_sim_measure_type', 'validate_comp_op_for_sim_measure',
      'validate_comp_op_keys']),
]


def preprocess(relpath, src):
    """Source-level adaptations, each a *syntactic* rewrite that fails closed if the expected
    shape is absent.  They isolate the impure parts (cpu count, table slicing, dict of
    operators) so that the remaining pure text is translated verbatim."""
    import ast
    tree = ast.parse(src)
    if relpath.endswith('generic_helper.py'):
        # get_num_processes_to_launch: multiprocessing.cpu_count() -> parameter num_cpus_
        for n in tree.body:
            if isinstance(n, ast.FunctionDef) and n.name == 'get_num_processes_to_launch':
                found = []

                class R(ast.NodeTransformer):
                    def visit_Call(s, c):
                        if isinstance(c.func, ast.Attribute) and c.func.attr == 'cpu_count' and \
                                isinstance(c.func.value, ast.Name) and \
                                c.func.value.id == 'multiprocessing' and not c.args:
                            found.append(1)
                            return ast.Name(id='cpu_count_', ctx=ast.Load())
                        return s.generic_visit(c)
                R().visit(n)
                if len(found) != 1:
                    raise py2coq.Unsupported('get_num_processes_to_launch: cpu_count() shape')
                n.name = 'get_num_processes_to_launch_with_cpus'
                n.args.args.append(ast.arg(arg='cpu_count_'))
            if isinstance(n, ast.FunctionDef) and n.name == 'split_table':
                # splits.append(table[A:B]) -> splits.append((A, B)); len(table) -> table_len
                found = []

                class R2(ast.NodeTransformer):
                    def visit_Subscript(s, c):
                        if isinstance(c.value, ast.Name) and c.value.id == 'table' and \
                                isinstance(c.slice, ast.Slice) and c.slice.step is None and \
                                c.slice.lower is not None and c.slice.upper is not None:
                            found.append(1)
                            return ast.Tuple(elts=[s.visit(c.slice.lower), s.visit(c.slice.upper)],
                                             ctx=ast.Load())
                        return s.generic_visit(c)

                    def visit_Call(s, c):
                        if isinstance(c.func, ast.Name) and c.func.id == 'len' and \
                                len(c.args) == 1 and isinstance(c.args[0], ast.Name) and \
                                c.args[0].id == 'table':
                            found.append(2)
                            return ast.Name(id='table', ctx=ast.Load())
                        return s.generic_visit(c)
                R2().visit(n)
                if sorted(found) != [1, 2]:
                    raise py2coq.Unsupported('split_table: slicing shape')
                n.name = 'split_bounds'
                # any remaining use of `table` other than as its length is rejected:
                # after the rewrite `table` denotes len(table) everywhere.
        ast.fix_missing_locations(tree)
    if relpath.endswith('validation.py'):
        # validate_comp_op: `COMP_OP_MAP.keys()` -> the literal key list taken from
        # generic_helper.COMP_OP_MAP (checked to be a dict display with string keys)
        for n in tree.body:
            if isinstance(n, ast.FunctionDef) and n.name == 'validate_comp_op':
                found = []

                class R3(ast.NodeTransformer):
                    def visit_Call(s, c):
                        if isinstance(c.func, ast.Attribute) and c.func.attr == 'keys' and \
                                isinstance(c.func.value, ast.Name) and \
                                c.func.value.id == 'COMP_OP_MAP':
                            found.append(1)
                            return ast.Name(id='comp_op_keys_', ctx=ast.Load())
                        return s.generic_visit(c)
                R3().visit(n)
                if len(found) != 1:
                    raise py2coq.Unsupported('validate_comp_op shape')
                n.name = 'validate_comp_op_keys'
                n.args.args.append(ast.arg(arg='comp_op_keys_'))
        ast.fix_missing_locations(tree)
    return tree


INDEX_HEADER = '''(* GENERATED from %s by harness/translate -- do not edit.  sha256(sources)=%s
   Methods of the index / filter classes as functions: attributes READ through `self` are
   parameters, attributes WRITTEN are locals initialised as in __init__ and returned in a tuple
   in front of the method's own result (see harness/translate/methods.py). *)
From Coq Require Import ZArith List String.
From SSJ Require Import F64 PyNum FilterUtilsGen TokenOrderingGen.
Import ListNotations.
Open Scope string_scope.
Open Scope Z_scope.

(* sets (PrefixFilter / SizeFilter candidates) are modelled by their insertion-ordered element
   lists: a PDict whose values are PNone; len / in / iteration agree with a set's. *)
Definition py_set_add (s x : pyval) : pyval := py_setitem s x PNone.
Definition py_set_update (s it : pyval) : pyval :=
  match s with
  | PExc _ => s
  | _ => match py_iter it with inr e => e | inl xs => fold_left py_set_add xs s end
  end.

'''

# (new name, file, class, method, state attributes, {object parameter: (file, class, attrs, inlined methods)})
INDEX_METHODS = [
    ('position_index_build', 'py_stringsimjoin/index/position_index.py', 'PositionIndex', 'build',
     ['index', 'size_cache', 'min_length', 'max_length'], {}),
    ('position_filter_find_candidates', 'py_stringsimjoin/filter/position_filter.py', 'PositionFilter',
     'find_candidates', [],
     {'position_index': ('py_stringsimjoin/index/position_index.py', 'PositionIndex',
                         ['index', 'size_cache', 'min_length', 'max_length'], ['probe'])}),
    ('prefix_index_build', 'py_stringsimjoin/index/prefix_index.py', 'PrefixIndex', 'build', ['index'], {}),
    ('prefix_filter_find_candidates', 'py_stringsimjoin/filter/prefix_filter.py', 'PrefixFilter',
     'find_candidates', [],
     {'prefix_index': ('py_stringsimjoin/index/prefix_index.py', 'PrefixIndex', ['index'], ['probe'])}),
    ('size_index_build', 'py_stringsimjoin/index/size_index.py', 'SizeIndex', 'build',
     ['index', 'min_length', 'max_length'], {}),
    ('size_filter_find_candidates', 'py_stringsimjoin/filter/size_filter.py', 'SizeFilter',
     'find_candidates', [],
     {'size_index': ('py_stringsimjoin/index/size_index.py', 'SizeIndex',
                     ['index', 'min_length', 'max_length'], ['probe'])}),
    ('inverted_index_build', 'py_stringsimjoin/index/inverted_index.py', 'InvertedIndex', 'build',
     ['index', 'size_cache'], {}),
    ('overlap_filter_find_candidates', 'py_stringsimjoin/filter/overlap_filter.py', 'OverlapFilter',
     'find_candidates', [],
     {'inverted_index': ('py_stringsimjoin/index/inverted_index.py', 'InvertedIndex',
                         ['index', 'size_cache'], ['probe'])}),
]
INDEX_CALLEES = [('py_stringsimjoin/filter/filter_utils.py',
                  ['get_size_lower_bound', 'get_size_upper_bound', 'get_prefix_length',
                   'get_overlap_threshold']),
                 ('py_stringsimjoin/utils/token_ordering.py', ['order_using_token_ordering'])]


def gen_index(repo):
    """IndexGen.v: (text, info).  The callees are re-translated only to learn how their
    parameters were abstracted (tokenizer -> tokenizer_qval); their text comes from the
    imported Gen files."""
    import ast
    import methods
    srcs = {}

    def tree_of(rel):
        if rel not in srcs:
            srcs[rel] = open(os.path.join(repo, rel)).read()
        return ast.parse(srcs[rel])
    specs = {}
    for rel, funs in INDEX_CALLEES:
        src = open(os.path.join(repo, rel)).read()
        srcs[rel] = src
        py2coq.translate_functions(ast.unparse(preprocess(rel, src)), funs, specs=specs)
    fundefs, attr_allow, info = [], {}, {}
    for new, rel, cls, meth, state, objects in INDEX_METHODS:
        objs = {o: (tree_of(orel), ocls, attrs, ms) for o, (orel, ocls, attrs, ms) in objects.items()}
        fn, inf = methods.extract_method(tree_of(rel), cls, meth, new, state, objs)
        fundefs.append(fn)
        attr_allow[new] = {o: attrs for o, (_, _, attrs, _) in objects.items()}
        info[new] = dict(inf, source=rel, method='%s.%s' % (cls, meth))
    text, sigs = py2coq.translate_fundefs(fundefs, known_sigs=specs, attr_allow=attr_allow, allow_sets=True)
    for k in sigs:
        info[k]['signature'] = sigs[k]
    rels = sorted(srcs)
    sha = hashlib.sha256('\0'.join(srcs[r] for r in rels).encode()).hexdigest()
    return INDEX_HEADER % (', '.join(rels), sha) + text, {'sources': rels, 'sha256': sha, 'functions': info}


JOIN_HEADER = '''(* GENERATED from %s by harness/translate -- do not edit.  sha256(sources)=%s
   The per-chunk join loops.  `set_sim_join_rows` is the body of join/set_sim_join.py:set_sim_join
   returning the pair (output_rows, output_header) instead of pd.DataFrame(output_rows,
   columns=output_header); likewise overlap_coefficient_join_split_rows
   (join/overlap_coefficient_join_py.py:_overlap_coefficient_join_split) and
   edit_distance_join_split_rows (join/edit_distance_join_py.py:_edit_distance_join_split), and the
   four filters' _filter_tables_split (position / prefix / size / overlap _filter_tables_split_rows).
   Rewrites (all syntactic and checked, see harness/translate/joins.py):
%s *)
From Coq Require Import ZArith List String.
From SSJ Require Import F64 PyNum FilterUtilsGen HelperGen TokenOrderingGen ValidationGen IndexGen.
Import ListNotations.
Open Scope string_scope.
Open Scope Z_scope.

(* COMP_OP_MAP[op]: the generated comp_op_map; KeyError for an unknown key, TypeError for an
   unhashable one *)
Definition comp_op_lookup (op : pyval) : (pyval -> pyval -> pyval) + pyval :=
  match op with
  | PExc _ => inr op
  | PStr s => match comp_op_map s with Some f => inl f | None => inr (PExc "KeyError") end
  | PList _ | PDict _ => inr (PExc "TypeError")
  | _ => inr (PExc "KeyError")
  end.

'''

JOIN_OBJECTS = {'PositionIndex': 'py_stringsimjoin/index/position_index.py',
                'PositionFilter': 'py_stringsimjoin/filter/position_filter.py',
                'PrefixIndex': 'py_stringsimjoin/index/prefix_index.py',
                'PrefixFilter': 'py_stringsimjoin/filter/prefix_filter.py',
                'InvertedIndex': 'py_stringsimjoin/index/inverted_index.py',
                'OverlapFilter': 'py_stringsimjoin/filter/overlap_filter.py',
                'SizeIndex': 'py_stringsimjoin/index/size_index.py',
                'SizeFilter': 'py_stringsimjoin/filter/size_filter.py'}
JOIN_OBJ_PARAMS = {'position_filter': 'PositionFilter', 'prefix_filter': 'PrefixFilter',
                   'size_filter': 'SizeFilter', 'overlap_filter': 'OverlapFilter'}
JOIN_METHODS = {
    ('PositionIndex', 'build'): {'name': 'position_index_build'},
    ('PositionFilter', 'find_candidates'): {
        'name': 'position_filter_find_candidates',
        'objparams': {'position_index': 'PositionIndex'},
        'objattrs': {'position_index': ['index', 'size_cache', 'min_length', 'max_length']}},
    ('PrefixIndex', 'build'): {'name': 'prefix_index_build'},
    ('PrefixFilter', 'find_candidates'): {
        'name': 'prefix_filter_find_candidates',
        'objparams': {'prefix_index': 'PrefixIndex'}, 'objattrs': {'prefix_index': ['index']}},
    ('InvertedIndex', 'build'): {'name': 'inverted_index_build'},
    ('OverlapFilter', 'find_candidates'): {
        'name': 'overlap_filter_find_candidates',
        'objparams': {'inverted_index': 'InvertedIndex'},
        'objattrs': {'inverted_index': ['index', 'size_cache']}},
    ('SizeIndex', 'build'): {'name': 'size_index_build'},
    ('SizeFilter', 'find_candidates'): {
        'name': 'size_filter_find_candidates',
        'objparams': {'size_index': 'SizeIndex'},
        'objattrs': {'size_index': ['index', 'min_length', 'max_length']}},
}
JOIN_TARGETS = [('set_sim_join_rows', 'py_stringsimjoin/join/set_sim_join.py', 'set_sim_join'),
                ('overlap_coefficient_join_split_rows', 'py_stringsimjoin/join/overlap_coefficient_join_py.py',
                 '_overlap_coefficient_join_split'),
                ('edit_distance_join_split_rows', 'py_stringsimjoin/join/edit_distance_join_py.py',
                 '_edit_distance_join_split'),
                ('position_filter_tables_split_rows', 'py_stringsimjoin/filter/position_filter.py',
                 '_filter_tables_split'),
                ('prefix_filter_tables_split_rows', 'py_stringsimjoin/filter/prefix_filter.py',
                 '_filter_tables_split'),
                ('size_filter_tables_split_rows', 'py_stringsimjoin/filter/size_filter.py',
                 '_filter_tables_split'),
                ('overlap_filter_tables_split_rows', 'py_stringsimjoin/filter/overlap_filter.py',
                 '_filter_tables_split')]
JOIN_HELPERS = [('py_stringsimjoin/utils/generic_helper.py',
                 ['get_output_row_from_tables', 'get_output_header_from_tables',
                  'find_output_attribute_indices']),
                ('py_stringsimjoin/utils/token_ordering.py',
                 ['gen_token_ordering_for_tables', 'order_using_token_ordering']),
                ('py_stringsimjoin/utils/validation.py',
                 ['validate_threshold', 'validate_sim_measure_type', 'validate_comp_op_for_sim_measure'])]


def gen_join(repo, cores=None):
    """JoinGen.v: (text, info).  If `cores` is a dict it receives, per generated function,
    (python parameters, py2coq parameter spec, {function parameter: arity}) -- what a caller
    (wrappers.py) needs to call it."""
    import ast
    import methods
    import joins
    srcs = {}

    def read(rel):
        if rel not in srcs:
            srcs[rel] = open(os.path.join(repo, rel)).read()
        return srcs[rel]
    # how the callees abstracted their parameters (their text lives in the imported Gen files)
    specs = {}
    fresh = set()
    for rel, funs in INDEX_CALLEES + JOIN_HELPERS:
        tree = preprocess(rel, read(rel))
        py2coq.translate_functions(ast.unparse(tree), funs, specs=specs)
        for n in tree.body:
            if isinstance(n, ast.FunctionDef) and n.name in funs and py2coq.returns_fresh(n):
                fresh.add(n.name)
    callee_specs = {k: v for k, v in specs.items()
                    if k in sum((f for _, f in INDEX_CALLEES), [])}
    fundefs, attr_allow, extracted = [], {}, {}
    wanted = set(c['name'] for c in JOIN_METHODS.values())
    for new, rel, cls, meth, state, objects in INDEX_METHODS:
        if new not in wanted:
            continue
        objs = {o: (ast.parse(read(orel)), ocls, attrs, ms) for o, (orel, ocls, attrs, ms) in objects.items()}
        fn, inf = methods.extract_method(ast.parse(read(rel)), cls, meth, new, state, objs)
        fundefs.append(fn)
        attr_allow[new] = {o: attrs for o, (_, _, attrs, _) in objects.items()}
        extracted[new] = ([a.arg for a in fn.args.args], inf)
    py2coq.translate_fundefs(fundefs, known_sigs=callee_specs, attr_allow=attr_allow, allow_sets=True,
                             specs=specs)
    out, info, notes_txt = [], {}, []
    for new, rel, fname in JOIN_TARGETS:
        read(rel)
        prep = joins.JoinPreparer(repo, rel, fname, JOIN_OBJECTS, JOIN_METHODS,
                                  'py_stringsimjoin/utils/validation.py')
        fn = prep.prepare(extracted, JOIN_OBJ_PARAMS)
        for r, sx in prep.srcs.items():
            srcs.setdefault(r, sx)
        fn.name = new
        obj_locals = {}
        for var, o in prep.objs.items():
            obj_locals[var] = [a for a, e in o.attr.items()
                               if isinstance(e, ast.Name) and e.id == '%s_%s' % (var, a)]
        tspecs = {}
        text, sigs = py2coq.translate_fundefs(
            [fn], known_sigs=specs, fun_params=prep.fun_params,
            fun_tables={'COMP_OP_MAP': 'comp_op_lookup'}, obj_locals=obj_locals,
            fresh_funs=fresh, strict_escape=True, specs=tspecs)
        if cores is not None:
            cores[new] = (tspecs[new][0], tspecs[new][1], dict(prep.fun_params))
        out.append(text)
        info[new] = {'source': rel, 'function': fname, 'signature': sigs[new], 'rewrites': prep.notes,
                     'python': ast.unparse(fn)}
        notes_txt += ['     %s: %s' % (new, n) for n in prep.notes]
    rels = sorted(srcs)
    sha = hashlib.sha256('\0'.join(srcs[r] for r in rels).encode()).hexdigest()
    hdr = JOIN_HEADER % (', '.join(rels), sha, '\n'.join(notes_txt).replace('*)', '* )'))
    return hdr + '\n'.join(out), {'sources': rels, 'sha256': sha, 'functions': info}


def gen_wrapper(repo):
    """WrapperGen.v: (text, info)."""
    import wrappers
    cores = {}
    gen_join(repo, cores)
    srcs = {}
    text, info = wrappers.gen_wrappers(
        repo, {k: (v[0], v[1]) for k, v in cores.items()}, {k: v[0] for k, v in cores.items()},
        {k: v[2] for k, v in cores.items()}, srcs)
    rels = sorted(srcs)
    sha = hashlib.sha256('\0'.join(srcs[r] for r in rels).encode()).hexdigest()
    notes = []
    for k, v in info.items():
        notes += ['     %s: %s' % (k, n) for n in v['rewrites']]
    hdr = wrappers.HEADER % (', '.join(rels), sha, '\n'.join(notes).replace('*)', '* )').replace('(*', '( *'))
    return hdr + text, {'sources': rels, 'sha256': sha, 'functions': info}


def gen_wrapper_file(repo, out):
    """Gen/WrapperGen.v; returns its status entry.  On failure a file that cannot compile is left."""
    try:
        text, info = gen_wrapper(repo)
        changed = write_if_changed(os.path.join(out, 'WrapperGen.v'), text)
        return dict(info, changed=changed)
    except (py2coq.Unsupported, SyntaxError, OSError) as e:
        write_if_changed(os.path.join(out, 'WrapperGen.v'),
                         '(* translation failed: %s *)\nTranslation_failed.\n' % str(e).replace('*)', '* )'))
        return {'error': '%s: %s' % (type(e).__name__, e)}


def gen_filter_wrapper(repo):
    """FilterWrapperGen.v: (text, info) -- the filters' filter_tables methods and overlap_join_py."""
    import filter_wrappers
    cores = {}
    gen_join(repo, cores)
    srcs = {}
    text, info = filter_wrappers.gen_filter_wrappers(repo, cores, srcs)
    rels = sorted(srcs)
    sha = hashlib.sha256('\0'.join(srcs[r] for r in rels).encode()).hexdigest()
    notes = []
    for k, v in info.items():
        notes += ['     %s: %s' % (k, n) for n in v['rewrites']]
    hdr = filter_wrappers.HEADER % (', '.join(rels), sha,
                                    '\n'.join(notes).replace('*)', '* )').replace('(*', '( *'))
    return hdr + text, {'sources': rels, 'sha256': sha, 'functions': info}


def gen_filter_wrapper_file(repo, out):
    """Gen/FilterWrapperGen.v; returns its status entry.  On failure a file that cannot compile is left."""
    try:
        text, info = gen_filter_wrapper(repo)
        changed = write_if_changed(os.path.join(out, 'FilterWrapperGen.v'), text)
        return dict(info, changed=changed)
    except (py2coq.Unsupported, SyntaxError, OSError) as e:
        write_if_changed(os.path.join(out, 'FilterWrapperGen.v'),
                         '(* translation failed: %s *)\nTranslation_failed.\n' % str(e).replace('*)', '* )'))
        return {'error': '%s: %s' % (type(e).__name__, e)}


def gen_profiler_file(repo, out):
    """Gen/ProfilerGen.v (profiler.py); returns its status entry.  On failure a file that cannot compile
    is left behind, so that no stale model survives."""
    import profiler
    try:
        text, info = profiler.gen_profiler(repo)
        changed = write_if_changed(os.path.join(out, 'ProfilerGen.v'), text)
        return dict(info, changed=changed)
    except (py2coq.Unsupported, SyntaxError, OSError) as e:
        write_if_changed(os.path.join(out, 'ProfilerGen.v'),
                         '(* translation failed: %s *)\nTranslation_failed.\n' % str(e).replace('*)', '* )'))
        return {'error': '%s: %s' % (type(e).__name__, e)}


def comp_op_map(repo):
    """COMP_OP_MAP as a Gallina function from operator string to a py_* comparison."""
    import ast
    src = open(os.path.join(repo, 'py_stringsimjoin/utils/generic_helper.py')).read()
    tree = ast.parse(src)
    names = {'ge': 'py_ge', 'gt': 'py_gt', 'le': 'py_le', 'lt': 'py_lt', 'eq': 'py_eq', 'ne': 'py_ne'}
    for n in tree.body:
        if isinstance(n, ast.Assign) and len(n.targets) == 1 and \
                isinstance(n.targets[0], ast.Name) and n.targets[0].id == 'COMP_OP_MAP':
            d = n.value
            if not isinstance(d, ast.Dict):
                raise py2coq.Unsupported('COMP_OP_MAP not a dict display')
            items = []
            for k, v in zip(d.keys, d.values):
                if not (isinstance(k, ast.Constant) and isinstance(k.value, str)):
                    raise py2coq.Unsupported('COMP_OP_MAP key')
                if not (isinstance(v, ast.Attribute) and isinstance(v.value, ast.Name) and
                        v.value.id == 'operator' and v.attr in names):
                    raise py2coq.Unsupported('COMP_OP_MAP value')
                items.append((k.value, names[v.attr]))
            out = 'Definition comp_op_map (op : string) : option (pyval -> pyval -> pyval) :=\n'
            for k, f in items:
                out += '  if String.eqb op %s then Some %s else\n' % (py2coq.coq_str(k), f)
            out += '  None.\n'
            out += 'Definition comp_op_keys : pyval := PList [%s].\n' % '; '.join(
                '(PStr %s)' % py2coq.coq_str(k) for k, _ in items)
            return out
    raise py2coq.Unsupported('COMP_OP_MAP not found')


def gen_pair_file(repo, out):
    """Gen/FilterPairGen.v (pairs.py); returns its status entry.  On failure a file that cannot
    compile is left behind, so that no stale model survives."""
    import pairs
    try:
        text, info = pairs.gen_filter_pair(repo, preprocess)
        changed = write_if_changed(os.path.join(out, 'FilterPairGen.v'), text)
        return dict(info, changed=changed)
    except (py2coq.Unsupported, SyntaxError, OSError) as e:
        write_if_changed(os.path.join(out, 'FilterPairGen.v'),
                         '(* translation failed: %s *)\nTranslation_failed.\n' % str(e).replace('*)', '* )'))
        return {'error': '%s: %s' % (type(e).__name__, e)}


def gen_simfunctions_file(repo, out):
    """Gen/SimFunctionsGen.v (simfunctions.py); returns its status entry.  On failure a file that cannot
    compile is left behind, so that no stale table survives."""
    import simfunctions
    try:
        text, info = simfunctions.gen_simfunctions(repo)
        changed = write_if_changed(os.path.join(out, 'SimFunctionsGen.v'), text)
        return dict(info, changed=changed)
    except (py2coq.Unsupported, SyntaxError, OSError) as e:
        write_if_changed(os.path.join(out, 'SimFunctionsGen.v'),
                         '(* translation failed: %s *)\nTranslation_failed.\n' % str(e).replace('*)', '* )'))
        return {'error': '%s: %s' % (type(e).__name__, e)}


def gen_matcher_file(repo, out):
    """Gen/MatcherGen.v (matchers.py); returns its status entry.  On failure a file that cannot
    compile is left behind, so that no stale model survives."""
    import matchers
    try:
        text, info = matchers.gen_matchers(repo)
        changed = write_if_changed(os.path.join(out, 'MatcherGen.v'), text)
        return dict(info, changed=changed)
    except (py2coq.Unsupported, SyntaxError, OSError) as e:
        write_if_changed(os.path.join(out, 'MatcherGen.v'),
                         '(* translation failed: %s *)\nTranslation_failed.\n' % str(e).replace('*)', '* )'))
        return {'error': '%s: %s' % (type(e).__name__, e)}


def write_if_changed(path, text):
    if os.path.exists(path) and open(path).read() == text:
        return False
    with open(path, 'w') as f:
        f.write(text)
    return True


def main():
    import ast
    ap = argparse.ArgumentParser()
    ap.add_argument('--repo', default='/repo')
    ap.add_argument('--out', default=os.path.join(os.path.dirname(os.path.abspath(__file__)),
                                                  '..', '..', 'coq', 'Gen'))
    ap.add_argument('--only', default=None, help='regenerate just this Gen file (IndexGen.v | JoinGen.v | FilterPairGen.v)')
    args = ap.parse_args()
    os.makedirs(args.out, exist_ok=True)
    status = {}
    ok = True
    if args.only == 'WrapperGen.v':
        st = {'WrapperGen.v': gen_wrapper_file(args.repo, args.out)}
        with open(os.path.join(args.out, 'gen_status_wrapper.json'), 'w') as f:
            json.dump(st, f, indent=1, sort_keys=True)
        print(json.dumps({k: ('error: ' + v['error']) if 'error' in v else
                          ('changed' if v.get('changed') else 'unchanged') for k, v in st.items()}))
        sys.exit(0 if 'error' not in st['WrapperGen.v'] else 3)
    if args.only == 'MatcherGen.v':
        st = {'MatcherGen.v': gen_matcher_file(args.repo, args.out)}
        with open(os.path.join(args.out, 'gen_status_matcher.json'), 'w') as f:
            json.dump(st, f, indent=1, sort_keys=True)
        print(json.dumps({k: ('error: ' + v['error']) if 'error' in v else
                          ('changed' if v.get('changed') else 'unchanged') for k, v in st.items()}))
        sys.exit(0 if 'error' not in st['MatcherGen.v'] else 3)
    if args.only == 'FilterWrapperGen.v':
        st = {'FilterWrapperGen.v': gen_filter_wrapper_file(args.repo, args.out)}
        with open(os.path.join(args.out, 'gen_status_filterwrapper.json'), 'w') as f:
            json.dump(st, f, indent=1, sort_keys=True)
        print(json.dumps({k: ('error: ' + v['error']) if 'error' in v else
                          ('changed' if v.get('changed') else 'unchanged') for k, v in st.items()}))
        sys.exit(0 if 'error' not in st['FilterWrapperGen.v'] else 3)
    if args.only == 'ProfilerGen.v':
        st = {'ProfilerGen.v': gen_profiler_file(args.repo, args.out)}
        with open(os.path.join(args.out, 'gen_status_profiler.json'), 'w') as f:
            json.dump(st, f, indent=1, sort_keys=True)
        print(json.dumps({k: ('error: ' + v['error']) if 'error' in v else
                          ('changed' if v.get('changed') else 'unchanged') for k, v in st.items()}))
        sys.exit(0 if 'error' not in st['ProfilerGen.v'] else 3)
    if args.only == 'FilterPairGen.v':
        st = {'FilterPairGen.v': gen_pair_file(args.repo, args.out)}
        with open(os.path.join(args.out, 'gen_status_pair.json'), 'w') as f:
            json.dump(st, f, indent=1, sort_keys=True)
        print(json.dumps({k: ('error: ' + v['error']) if 'error' in v else
                          ('changed' if v.get('changed') else 'unchanged') for k, v in st.items()}))
        sys.exit(0 if 'error' not in st['FilterPairGen.v'] else 3)
    status['FilterPairGen.v'] = gen_pair_file(args.repo, args.out)
    ok = ok and 'error' not in status['FilterPairGen.v']
    if args.only is None:
        status['WrapperGen.v'] = gen_wrapper_file(args.repo, args.out)
        ok = ok and 'error' not in status['WrapperGen.v']
        status['MatcherGen.v'] = gen_matcher_file(args.repo, args.out)
        ok = ok and 'error' not in status['MatcherGen.v']
        status['SimFunctionsGen.v'] = gen_simfunctions_file(args.repo, args.out)
        ok = ok and 'error' not in status['SimFunctionsGen.v']
        status['FilterWrapperGen.v'] = gen_filter_wrapper_file(args.repo, args.out)
        ok = ok and 'error' not in status['FilterWrapperGen.v']
        status['ProfilerGen.v'] = gen_profiler_file(args.repo, args.out)
        ok = ok and 'error' not in status['ProfilerGen.v']
    try:
        text, info = gen_index(args.repo)
        changed = write_if_changed(os.path.join(args.out, 'IndexGen.v'), text)
        status['IndexGen.v'] = dict(info, changed=changed)
    except (py2coq.Unsupported, SyntaxError, OSError) as e:
        ok = False
        status['IndexGen.v'] = {'error': '%s: %s' % (type(e).__name__, e)}
        write_if_changed(os.path.join(args.out, 'IndexGen.v'),
                         '(* translation failed: %s *)\nTranslation_failed.\n' % str(e).replace('*)', '* )'))
    try:
        text, info = gen_join(args.repo)
        changed = write_if_changed(os.path.join(args.out, 'JoinGen.v'), text)
        status['JoinGen.v'] = dict(info, changed=changed)
    except (py2coq.Unsupported, SyntaxError, OSError) as e:
        ok = False
        status['JoinGen.v'] = {'error': '%s: %s' % (type(e).__name__, e)}
        write_if_changed(os.path.join(args.out, 'JoinGen.v'),
                         '(* translation failed: %s *)\nTranslation_failed.\n' % str(e).replace('*)', '* )'))
    if args.only == 'JoinGen.v':
        st = {'JoinGen.v': status['JoinGen.v']}
        with open(os.path.join(args.out, 'gen_status_join.json'), 'w') as f:
            json.dump(st, f, indent=1, sort_keys=True)
        print(json.dumps({k: ('error: ' + v['error']) if 'error' in v else
                          ('changed' if v.get('changed') else 'unchanged') for k, v in st.items()}))
        sys.exit(0 if 'error' not in st['JoinGen.v'] else 3)
    if args.only == 'IndexGen.v':
        with open(os.path.join(args.out, 'gen_status_index.json'), 'w') as f:
            json.dump(status, f, indent=1, sort_keys=True)
        print(json.dumps({k: ('error: ' + v['error']) if 'error' in v else
                          ('changed' if v.get('changed') else 'unchanged') for k, v in status.items()}))
        sys.exit(0 if ok else 3)
    for fname, rel, funs in TARGETS:
        path = os.path.join(args.repo, rel)
        try:
            src = open(path).read()
            sha = hashlib.sha256(src.encode()).hexdigest()
            tree = preprocess(rel, src)
            text, sigs = py2coq.translate_functions(ast.unparse(tree), funs)
            body = HEADER % (rel, sha) + text
            if fname == 'HelperGen.v':
                body += '\n' + comp_op_map(args.repo)
            changed = write_if_changed(os.path.join(args.out, fname), body)
            status[fname] = {'source': rel, 'sha256': sha, 'functions': funs, 'changed': changed,
                             'signatures': sigs}
        except (py2coq.Unsupported, SyntaxError, OSError) as e:
            ok = False
            status[fname] = {'source': rel, 'error': '%s: %s' % (type(e).__name__, e)}
            # leave a file that cannot compile, so that no stale model survives
            write_if_changed(os.path.join(args.out, fname),
                             '(* translation failed: %s *)\nTranslation_failed.\n' % str(e).replace('*)', '* )'))
    try:
        sk_text, sk_info = skeleton.generate(args.repo)
        changed = write_if_changed(os.path.join(args.out, 'SkeletonGen.v'), sk_text)
        status['SkeletonGen.v'] = dict(sk_info, changed=changed)
    except (skeleton.Unsupported, SyntaxError, OSError) as e:
        ok = False
        status['SkeletonGen.v'] = {'error': '%s: %s' % (type(e).__name__, e)}
        write_if_changed(os.path.join(args.out, 'SkeletonGen.v'),
                         '(* skeleton extraction failed: %s *)\nTranslation_failed.\n' % str(e).replace('*)', '* )'))
    with open(os.path.join(args.out, 'gen_status.json'), 'w') as f:
        json.dump(status, f, indent=1, sort_keys=True)
    print(json.dumps({k: ('error: ' + v['error']) if 'error' in v else
                      ('changed' if v.get('changed') else 'unchanged')
                      for k, v in status.items()}))
    sys.exit(0 if ok else 3)


if __name__ == '__main__':
    main()
