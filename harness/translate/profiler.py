"""profiler/profiler.py : profile_table_for_join as a pure function over `pyval` (Gen/ProfilerGen.v).
Syntactic and fail-closed, in the style of wrappers.py: every rewrite checks the shape it relies on and
raises Unsupported otherwise; everything that is not rewritten is translated verbatim by py2coq (no
typing, no simplification), so a change of the arithmetic, of the order of the two `if`s, of the rounding
digit or of a comment condition CHANGES THE GENERATED DEFINITION and thereby breaks the refinement proof
(Proofs/ProfilerRefine*.v).

Generated definitions (inside `Section WithStrFloat. Variable str_float : f64 -> string.`, so that after
the section both take str_float as their FIRST argument):
  _format_statistic             verbatim
  profile_table_for_join_rows   profile_table_for_join; returns the value of Model/ProfFrame.v's
                                frame_set_index: PTuple [index label; PList index entries; frame]

Rewrites of profile_table_for_join(input_table, profile_attrs):
 (a) VALIDATORS.  The first statement (after the docstring) must be the expression statement
     `validate_input_table(input_table, <string constant>)`.  It is DROPPED after checking that its
     definition in utils/validation.py only computes locals, raises, or returns True
     (wrappers.raises_or_returns_true) and that the name occurs nowhere else in the function: the generated
     function describes the calls on which it RETURNS, i.e. input_table is a DataFrame.  `validate_attr`
     (generated: ValidationGen.v) is KEPT wherever it is called, positional arguments only; any other
     `validate_*` name is rejected.
 (b) FRAMES (wrappers.FrameTyper, extended here).  input_table is a frame of Model/Frame.v:
       list(T.columns.values) / T.columns -> frame_columns     len(T) -> frame_len
       T[attr]            -> frame_col   (attr: a name bound ONLY as the target of `for attr in profile_attrs`)
       pd.isnull(T[attr]) -> series_isnull (a mask)            sum(<mask>) -> py_sum
       len(T[attr].dropna().unique()) -> series_nunique_present(frame_col ..)
                                             (exactly this nesting, no arguments: the number of distinct
                                              NON-missing cells; .unique() / .dropna() of a series anywhere
                                              else -- in particular len(T[attr].unique()), which counts None
                                              and NaN as two values, the repaired defect -- is rejected,
                                              and so is every other series method, e.g. .nunique())
       pd.DataFrame(records, columns=header) -> frame_of_records   (one positional + the keyword columns)
       F.set_index(<string constant>)        -> frame_set_index    (one positional argument, no keywords;
                                                                    F a local bound once to frame_of_records)
     A frame / series / mask may occur only where one is expected; the function must return an indexed
     frame (the result of set_index).
 (c) BUILTINS.  `str(e)` -> py_str str_float e  (ints: decimal digits exactly; floats: through the parameter
     str_float, which stands for CPython's shortest round-trip repr -- NOT modelled);  `<string constant>.join(e)`
     -> py_str_join;  float / round / len / list as everywhere (py2coq).  `str`, `sum`, `len`, `float`, `round`,
     `list` must not be shadowed (module-level definition, import, or local binding).
 (d) the default `profile_attrs=None` is dropped (every argument is explicit in the model).

The missing value is counted as ONE value by the source itself, verbatim (py2coq):
       missing_values = sum(pd.isnull(T[attr]))
       unique_values = len(T[attr].dropna().unique())
       if missing_values > 0: unique_values += 1
Shape / order mutants of these three statements (14, script kept with the task log as run_mutants.py; each is
either rejected here or changes the generated definition, and then Proofs/ProfilerRefine.v no longer compiles):
  len(T[attr].unique())  (also: the old source verbatim)  rejected  (.unique() without .dropna())
  T.dropna()[attr].unique()                                rejected  (.unique() without .dropna())
  T[attr].nunique() / T[attr].nunique(dropna=False)        rejected  (method of a series)
  sum(pd.isnull(T[attr].dropna()))                         rejected  (method of a series)
  present = T[attr].dropna(); len(present.unique())        rejected  (method of a series)
  T[attr].dropna(how='all').unique()                       rejected  (dropna() of a series with arguments)
  `unique_values += 1` unconditional / `if missing_values >= 0` / `+= 2` / the `if` dropped /
  `if unique_values > 0` / unique (and its `if`) before the isnull scan (missing_values read before it is
  bound)                                                   definition changes, refinement proof fails
"""
import ast
import copy
import hashlib
import os

import py2coq
from py2coq import Unsupported
import joins
import methods
import wrappers

PROFILER = 'py_stringsimjoin/profiler/profiler.py'
VALIDATION = wrappers.VALIDATION

HEADER = '''(* GENERATED from %s by harness/translate -- do not edit.  sha256(sources)=%s
   profile_table_for_join as a function from a frame value (Model/Frame.v) and the attribute list to the
   indexed frame value of Model/ProfFrame.v (frame_set_index).  See harness/translate/profiler.py; rewrites:
%s *)
From Coq Require Import ZArith Bool List String.
From SSJ Require Import F64 PyNum ValidationGen Frame ProfFrame.
Import ListNotations.
Open Scope string_scope.
Open Scope Z_scope.

Section WithStrFloat.
(* str(float): CPython's shortest round-trip repr is not modelled; every theorem holds for all str_float *)
Variable str_float : f64 -> string.

'''
FOOTER = '\nEnd WithStrFloat.\n'

EXPECTED = {'validate_attr': 'py_stringsimjoin.utils.validation',
            'validate_input_table': 'py_stringsimjoin.utils.validation'}
MODULES = {'pd': 'pandas'}
BUILTINS = {'len', 'round', 'float', 'list', 'str', 'sum', 'True', 'False', 'None'}
PRIMS = dict(wrappers.PRIMS)
PRIMS.update({'series_nunique_present': (['series'], 'val'), 'series_nunique': (['series'], 'val'),
              'py_sum': (['mask'], 'val'),
              'frame_of_records': (['val', 'val'], 'frame'), 'frame_set_index': (['frame', 'val'], 'iframe')})
RESERVED = set(PRIMS) | {'py_str', 'py_str_join', 'str_float'}


def check_imports(tree, fn, local_defs=()):
    """every free name of fn is a builtin that is not shadowed, the checked module alias pd, a module-level
    function listed in local_defs, or imported from the module it is expected to come from"""
    names, mods = joins.import_table(tree)
    bound = set(a.arg for a in fn.args.args)
    for n in ast.walk(fn):
        if isinstance(n, ast.Name) and isinstance(n.ctx, (ast.Store, ast.Del)):
            bound.add(n.id)
    toplevel = set()
    for n in tree.body:
        if isinstance(n, (ast.FunctionDef, ast.ClassDef)):
            toplevel.add(n.name)
        if isinstance(n, ast.Assign):
            for t in n.targets:
                for e in ast.walk(t):
                    if isinstance(e, ast.Name):
                        toplevel.add(e.id)
    for b in BUILTINS | set(MODULES):
        if b in bound:
            raise Unsupported('%s is bound inside %s' % (b, fn.name))
    for b in RESERVED:
        if b in bound or b in toplevel or b in names or b in mods:
            raise Unsupported('source uses the reserved name ' + b)
    for n in ast.walk(fn):
        if isinstance(n, ast.Name) and isinstance(n.ctx, ast.Load) and n.id not in bound:
            if n.id in BUILTINS:
                if n.id in names or n.id in toplevel or n.id in mods:
                    raise Unsupported('builtin %s is shadowed' % n.id)
                continue
            if n.id in mods:
                if MODULES.get(n.id) != mods[n.id]:
                    raise Unsupported('module alias %s = %s' % (n.id, mods[n.id]))
                continue
            if n.id in toplevel:
                if n.id in local_defs:
                    continue
                raise Unsupported('use of module-level definition %s' % n.id)
            if n.id not in names:
                raise Unsupported('free name %s is not imported' % n.id)
            mod, orig = names[n.id]
            if orig != n.id or EXPECTED.get(n.id) != mod:
                raise Unsupported('%s is imported from %s.%s' % (n.id, mod, orig))


class ProfTyper(wrappers.FrameTyper):
    """FrameTyper + the operations of the profiler (see (b) above); new type 'iframe' = indexed frame."""

    def __init__(self, fn, frame, attrs_param, helpers, notes):
        wrappers.FrameTyper.__init__(self, fn, [frame], [], [], helpers, notes)
        self.attrs_param = attrs_param
        # label names: bound only as the target of `for x in <attrs_param>` (an element of the list)
        targets, other = {}, set()
        for n in ast.walk(fn):
            if isinstance(n, ast.For):
                if isinstance(n.target, ast.Name) and isinstance(n.iter, ast.Name) and n.iter.id == attrs_param:
                    targets[n.target.id] = targets.get(n.target.id, 0) + 1
                else:
                    for e in ast.walk(n.target):
                        if isinstance(e, ast.Name):
                            other.add(e.id)
        stores = joins.assigned_anywhere(fn)
        for x, k in targets.items():
            if x not in other and stores.get(x) == k and x not in self.params:
                self.labels.add(x)
        self.unique_seen = 0

    def rw(self, e):
        if isinstance(e, ast.Attribute) and e.attr in ('unique', 'dropna', 'nunique', 'set_index'):
            raise Unsupported('%s outside the expected call shape' % e.attr)
        return wrappers.FrameTyper.rw(self, e)

    def rw_call(self, c):
        f = c.func
        if isinstance(f, ast.Name) and f.id in RESERVED:
            raise Unsupported('source uses the reserved name ' + f.id)
        # len(S.dropna().unique())
        if isinstance(f, ast.Name) and f.id == 'len' and len(c.args) == 1 and not c.keywords and \
                isinstance(c.args[0], ast.Call) and isinstance(c.args[0].func, ast.Attribute) and \
                c.args[0].func.attr == 'unique':
            u = c.args[0]
            if u.args or u.keywords:
                raise Unsupported('unique() with arguments')
            d = u.func.value
            if not (isinstance(d, ast.Call) and isinstance(d.func, ast.Attribute) and d.func.attr == 'dropna'):
                raise Unsupported('.unique() without .dropna(): None and NaN would be counted as two values')
            if d.args or d.keywords:
                raise Unsupported('dropna() of a series with arguments')
            s = self.want(d.func.value, 'series', 'receiver of .dropna().unique()')
            self.unique_seen += 1
            return wrappers.call('series_nunique_present', s), 'val'
        # sum(<mask>)
        if isinstance(f, ast.Name) and f.id == 'sum':
            if len(c.args) != 1 or c.keywords:
                raise Unsupported('sum shape: ' + ast.unparse(c))
            a, ta = self.rw(c.args[0])
            if ta not in ('mask', 'val'):
                raise Unsupported('sum of a ' + ta)
            return wrappers.call('py_sum', a), 'val'
        # pd.DataFrame(records, columns=header)
        if isinstance(f, ast.Attribute) and isinstance(f.value, ast.Name) and f.value.id == 'pd' and \
                'pd' not in self.params and f.attr == 'DataFrame':
            if len(c.args) != 1 or len(c.keywords) != 1 or c.keywords[0].arg != 'columns':
                raise Unsupported('pd.DataFrame shape: ' + ast.unparse(c)[:80])
            return wrappers.call('frame_of_records', self.val(c.args[0]), self.val(c.keywords[0].value)), 'frame'
        # F.set_index('label')
        if isinstance(f, ast.Attribute) and f.attr == 'set_index':
            if len(c.args) != 1 or c.keywords or not (isinstance(c.args[0], ast.Constant) and
                                                      isinstance(c.args[0].value, str)):
                raise Unsupported('set_index shape: ' + ast.unparse(c)[:80])
            b = self.want(f.value, 'frame', 'receiver of .set_index()')
            if not isinstance(b, ast.Name) or b.id in self.params or joins.assigned_anywhere(self.fn).get(b.id) != 1:
                raise Unsupported('set_index on something else than a local bound once')
            return wrappers.call('frame_set_index', b, c.args[0]), 'iframe'
        if isinstance(f, ast.Attribute) and f.attr == 'unique':
            raise Unsupported('.unique() outside len(..)')
        return wrappers.FrameTyper.rw_call(self, c)


class ProfFunTranslator(py2coq.FunTranslator):
    """py2coq + str(e) and '<const>'.join(e) (see (c) above)."""

    def call(self, n):
        f = n.func
        if isinstance(f, ast.Name) and f.id == 'str' and 'str' not in self.bound:
            if len(n.args) != 1 or n.keywords:
                raise Unsupported('str shape')
            return '(py_str str_float %s)' % self.expr(n.args[0])
        if isinstance(f, ast.Attribute) and f.attr == 'join' and isinstance(f.value, ast.Constant) and \
                isinstance(f.value.value, str):
            if len(n.args) != 1 or n.keywords:
                raise Unsupported('join shape')
            return '(py_str_join %s %s)' % (self.expr(f.value), self.expr(n.args[0]))
        return py2coq.FunTranslator.call(self, n)


def gen_profiler(repo):
    """ProfilerGen.v: (text, info)."""
    srcs = {}
    for rel in (PROFILER, VALIDATION):
        srcs[rel] = open(os.path.join(repo, rel)).read()
    tree = ast.parse(srcs[PROFILER])
    vtree = ast.parse(srcs[VALIDATION])
    notes = []

    # ---- _format_statistic: verbatim
    fmt = wrappers.find_fun(tree, '_format_statistic', PROFILER)
    check_imports(tree, fmt)
    if fmt.args.defaults:
        raise Unsupported('_format_statistic signature')
    fmt_orig = copy.deepcopy(fmt)
    wrappers.strip_docstring(fmt)

    # ---- profile_table_for_join
    fn = wrappers.find_fun(tree, 'profile_table_for_join', PROFILER)
    check_imports(tree, fn, local_defs=['_format_statistic'])
    wrappers.strip_docstring(fn)
    params = [a.arg for a in fn.args.args]
    if params != ['input_table', 'profile_attrs']:
        raise Unsupported('signature of profile_table_for_join: ' + ', '.join(params))
    d = fn.args.defaults
    if len(d) > 1 or (d and not (isinstance(d[0], ast.Constant) and d[0].value is None)):
        raise Unsupported('defaults of profile_table_for_join')
    if d:
        notes.append('parameter default dropped (all arguments explicit): profile_attrs=None')
    fn.args.defaults = []
    # (a) validators
    s0 = fn.body[0] if fn.body else None
    if not (isinstance(s0, ast.Expr) and isinstance(s0.value, ast.Call) and isinstance(s0.value.func, ast.Name) and
            s0.value.func.id == 'validate_input_table' and len(s0.value.args) == 2 and not s0.value.keywords and
            isinstance(s0.value.args[0], ast.Name) and s0.value.args[0].id == 'input_table' and
            isinstance(s0.value.args[1], ast.Constant) and isinstance(s0.value.args[1].value, str)):
        raise Unsupported('profile_table_for_join does not start with validate_input_table(input_table, <label>)')
    wrappers.raises_or_returns_true(vtree, 'validate_input_table')
    dropped = [ast.unparse(s0.value)]
    fn.body = fn.body[1:]
    kept = []
    for n in ast.walk(fn):
        if isinstance(n, ast.Name) and n.id.startswith('validate_') and n.id != 'validate_attr':
            raise Unsupported('%s is used after the leading validation' % n.id)
    for n in ast.walk(fn):
        if isinstance(n, ast.Call) and isinstance(n.func, ast.Name) and n.func.id == 'validate_attr':
            if n.keywords:
                raise Unsupported('keyword arguments of validate_attr')
            kept.append(ast.unparse(n))
    ncalls = sum(1 for n in ast.walk(fn) if isinstance(n, ast.Name) and n.id == 'validate_attr')
    if ncalls != len(kept):
        raise Unsupported('validate_attr is used other than by calling it')
    notes.append('dropped (pandas-dependent, first statement, raise-or-return-True): ' + '; '.join(dropped))
    notes.append('kept (ValidationGen): ' + '; '.join(kept))
    # (b) frames
    vf = wrappers.find_fun(vtree, 'validate_attr', VALIDATION)
    helpers = {
        'validate_attr': dict(new='validate_attr', fn=vf, params=[x.arg for x in vf.args.args], types={}, ret='val'),
        '_format_statistic': dict(new='_format_statistic', fn=fmt_orig, params=[x.arg for x in fmt_orig.args.args],
                                  types={}, ret='val'),
    }
    ft = ProfTyper(fn, 'input_table', 'profile_attrs', helpers, notes)
    ty = ft.run()
    if ty != 'iframe':
        raise Unsupported('profile_table_for_join does not return the result of set_index (found a %s)' % ty)
    for n in ast.walk(fn):
        if isinstance(n, ast.Attribute) and n.attr not in ('append', 'join'):
            raise Unsupported('attribute %s survives the frame rewriting' % ast.unparse(n)[:60])
    notes.append('input_table: frame; labels: %s (elements of profile_attrs); returns frame_set_index(..)'
                 % ', '.join(sorted(ft.labels)))
    notes.append('str(e) -> py_str str_float e; <const>.join(e) -> py_str_join; sum(pd.isnull(T[a])) -> '
                 'py_sum (series_isnull (frame_col T a)); len(T[a].dropna().unique()) -> '
                 'series_nunique_present (frame_col T a)')
    fn.name = 'profile_table_for_join_rows'
    ast.fix_missing_locations(fn)

    plain = set(PRIMS) | {'validate_attr', '_format_statistic'}
    out, info = [], {}
    for f_, src_name in ((fmt, '_format_statistic'), (fn, 'profile_table_for_join')):
        f2 = ast.parse(ast.unparse(f_)).body[0]
        tr = ProfFunTranslator(f2, known_funs=plain, strict_escape=True)
        text, sig = tr.translate()
        if tr.attr_params or tr.method_params:
            raise Unsupported('%s: unexpected abstracted parameters' % f2.name)
        out.append(text)
        info[f2.name] = {'source': PROFILER, 'function': src_name, 'signature': ['str_float'] + sig,
                         'python': ast.unparse(f2)}
    info['profile_table_for_join_rows'].update(rewrites=notes, dropped_validators=dropped, kept_validators=kept)
    info['_format_statistic']['rewrites'] = ['verbatim; str(e) -> py_str str_float e']
    rels = sorted(srcs)
    sha = hashlib.sha256('\0'.join(srcs[r] for r in rels).encode()).hexdigest()
    ntxt = '\n'.join('     profile_table_for_join_rows: %s' % n for n in notes)
    hdr = HEADER % (', '.join(rels), sha, ntxt.replace('*)', '* )').replace('(*', '( *'))
    return hdr + '\n'.join(out) + FOOTER, {'sources': rels, 'sha256': sha, 'functions': info}
