"""utils/simfunctions.py -> Gen/SimFunctionsGen.v: WHICH function verifies a candidate for each measure.

get_sim_function must be an if/elif chain on `sim_measure_type == '<NAME>'` whose branches return either
`<Class>().get_raw_score` with <Class> imported from py_stringmatching.similarity_measure.<module>, or the
local function `overlap`, whose body must be the known one (coerce both arguments to sets, return the size
of the intersection).  The generated table names, per measure, the library method (or "local:overlap");
a locally re-implemented measure shows up as "local:<name>" and the closing theorem
(Properties/C02.v sim_functions_of_source_are_library_measures) no longer holds.  Fail-closed."""
import ast
import hashlib
import os

from py2coq import Unsupported

HEADER = '''(* GENERATED from py_stringsimjoin/utils/simfunctions.py by harness/translate -- do not edit.  sha256(source)=%s *)
From Coq Require Import String List.
Import ListNotations.
Open Scope string_scope.

(* measure name -> the function the joins use to verify a candidate pair *)
Definition sim_function_table : list (string * string) :=
  [%s].
'''

OVERLAP_BODY = ("[If(test=UnaryOp(op=Not(), operand=Call(func=Name(id='isinstance', ctx=Load()), args=[Name(id='set1', ctx=Load()), "
                "Name(id='set', ctx=Load())], keywords=[])), body=[Assign(targets=[Name(id='set1', ctx=Store())], "
                "value=Call(func=Name(id='set', ctx=Load()), args=[Name(id='set1', ctx=Load())], keywords=[]))], orelse=[]), "
                "If(test=UnaryOp(op=Not(), operand=Call(func=Name(id='isinstance', ctx=Load()), args=[Name(id='set2', ctx=Load()), "
                "Name(id='set', ctx=Load())], keywords=[])), body=[Assign(targets=[Name(id='set2', ctx=Store())], "
                "value=Call(func=Name(id='set', ctx=Load()), args=[Name(id='set2', ctx=Load())], keywords=[]))], orelse=[]), "
                "Return(value=Call(func=Name(id='len', ctx=Load()), args=[Call(func=Attribute(value=Name(id='set1', ctx=Load()), "
                "attr='intersection', ctx=Load()), args=[Name(id='set2', ctx=Load())], keywords=[])], keywords=[]))]")


def _nodoc(body):
    if body and isinstance(body[0], ast.Expr) and isinstance(getattr(body[0], 'value', None), ast.Constant) \
            and isinstance(body[0].value.value, str):
        return body[1:]
    return body


def gen_simfunctions(repo):
    rel = 'py_stringsimjoin/utils/simfunctions.py'
    src = open(os.path.join(repo, rel)).read()
    mod = ast.parse(src)
    imports, funcs = {}, {}
    for st in _nodoc(mod.body):
        if isinstance(st, ast.ImportFrom) and st.level == 0:
            for a in st.names:
                imports[a.asname or a.name] = '%s.%s' % (st.module, a.name)
        elif isinstance(st, ast.FunctionDef):
            funcs[st.name] = st
        else:
            raise Unsupported('simfunctions.py: unexpected top-level statement %s' % type(st).__name__)
    if 'get_sim_function' not in funcs:
        raise Unsupported('simfunctions.py: get_sim_function not found')
    g = funcs['get_sim_function']
    body = _nodoc(g.body)
    if len(body) != 1 or not isinstance(body[0], ast.If):
        raise Unsupported('get_sim_function: expected a single if/elif chain')
    table = []
    node = body[0]
    param = g.args.args[0].arg
    while True:
        t = node.test
        if not (isinstance(t, ast.Compare) and isinstance(t.left, ast.Name) and t.left.id == param and len(t.ops) == 1
                and isinstance(t.ops[0], ast.Eq) and isinstance(t.comparators[0], ast.Constant)
                and isinstance(t.comparators[0].value, str)):
            raise Unsupported('get_sim_function: unexpected test')
        name = t.comparators[0].value
        if len(node.body) != 1 or not isinstance(node.body[0], ast.Return):
            raise Unsupported('get_sim_function: branch %s is not a single return' % name)
        v = node.body[0].value
        if isinstance(v, ast.Attribute) and isinstance(v.value, ast.Call) and isinstance(v.value.func, ast.Name) \
                and not v.value.args and not v.value.keywords and v.value.func.id in imports:
            full = imports[v.value.func.id]
            if not full.startswith('py_stringmatching.similarity_measure.'):
                raise Unsupported('get_sim_function: %s comes from %s' % (v.value.func.id, full))
            table.append((name, '%s.%s' % (full, v.attr)))
        elif isinstance(v, ast.Name) and v.id in funcs:
            if v.id == 'overlap':
                if ast.dump(ast.Module(body=_nodoc(funcs['overlap'].body), type_ignores=[]))[len('Module(body='):-len(', type_ignores=[])')] != OVERLAP_BODY \
                        or [a.arg for a in funcs['overlap'].args.args] != ['set1', 'set2']:
                    raise Unsupported('simfunctions.overlap: body differs from the known one')
            table.append((name, 'local:%s' % v.id))
        else:
            raise Unsupported('get_sim_function: branch %s returns an unexpected expression' % name)
        if len(node.orelse) == 1 and isinstance(node.orelse[0], ast.If):
            node = node.orelse[0]
        elif not node.orelse:
            break
        else:
            raise Unsupported('get_sim_function: unexpected else branch')
    sha = hashlib.sha256(src.encode()).hexdigest()
    rows = ';\n   '.join('("%s", "%s")' % (a, b) for a, b in table)
    return HEADER % (sha, rows), {'sources': [rel], 'sha256': sha, 'table': dict(table)}
