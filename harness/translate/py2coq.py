"""Fail-closed translator: a small pure subset of Python (ast) -> shallow Gallina over `pyval`.

The translator does NO typing and NO simplification: every Python operator becomes the
corresponding `py_*` function of coq/Num/PyNum.v, which carries CPython's dynamic semantics
(int/float coercion, exceptions as values, truthiness).  Control flow:

  * `return e`                      -> e
  * `raise C(...)`                  -> PExc "C"
  * `x = e` / `x += e`              -> bind (exception in e aborts the function / loop)
  * `if/elif/else`                  -> `match` on the condition via py_if-like test; the
                                       continuation is duplicated into the branches (CPS)
  * `for x in it: body`             -> `py_for` (a fold_left) over a state tuple made of the
                                       variables the body assigns; `continue` ends an iteration
  * `xs.append(e)`, `d[k] = v`, `xs.insert(0, e)` on a *local name* -> functional update
  * `d.get(k).append(e)` on a local dict of fresh, unshared lists -> d[k] := d.get(k) + [e]
    (check_fresh_list_dict); any in-place mutation of a name that was bound to a value read out
    of another variable/container is rejected (check_no_aliased_mutation)
  * `{'a': x, 'b': y}` with distinct constant string keys -> PDict display
  * calls of already translated functions whose parameter was abstracted (tokenizer ->
    tokenizer_qval / tokenizer_tokenize) pass the caller's own p_qval / p_tokenize parameter
    (known_sigs); `obj.attr` for a configured set of attributes of a parameter object becomes
    the parameter obj_attr (attr_allow)
  * `set()`, `s.add(x)`, `s.update(it)` on names bound only to `set()` -> py_set_* of the
    prelude of Gen/IndexGen.v (allow_sets; sets are dicts with PNone values)
  Methods are turned into functions beforehand by methods.py (self.X reads -> parameters,
  self.X writes -> returned state).
  * `return e` inside a (single, non-nested) `for` loop: the loop state carries an extra
    `option pyval` component; once it is `Some r` the remaining iterations are skipped (like a
    raised exception) and the function returns r after the loop (loop_return)
  * `set(e)`, `a.intersection(b)`, `isinstance(x, set)` (allow_sets; py_set_of / py_set_inter /
    py_isinstance_set of the prelude of Gen/FilterPairGen.v).  Sets are insertion-ordered lists
    in the model, so a set built this way may only flow into len(..), .intersection(..),
    isinstance(.., set) or a name used only in those positions (check_set_order_unobserved):
    its iteration order is never observable
  * `TABLE[k](a, b)` for a configured table of binary functions (fun_tables) in expression
    position; `M.f(x)` for a configured module function (ext_calls: pd.isnull -> py_isnull)

  * `[e for x in it]` (allow_listcomp; one generator, no condition, x used nowhere else) ->
    py_listcomp of the prelude of Gen/WrapperGen.v; a callee's function-valued parameter (sim_fn of
    set_sim_join_rows) is passed on from the caller's function parameter of the same name (spec entry
    ('fun', name, arity)); the free name `py_nan` (np.NaN, rewritten by wrappers.py) -> py_nan
  The public wrappers (DataFrames as values of Model/Frame.v) are prepared by wrappers.py.

Anything else raises Unsupported, and the caller treats that as a broken tie (never silence).
"""
import ast
import warnings
warnings.filterwarnings("ignore")

COQ_KEYWORDS = set()


class Unsupported(Exception):
    pass


def coq_str(s):
    for ch in s:
        if not (32 <= ord(ch) < 127):
            raise Unsupported('non-ascii string literal %r' % s)
    return '"' + s.replace('"', '""') + '"'


def coq_int(n):
    return '(PInt %d)' % n if n >= 0 else '(PInt (%d))' % n


def coq_float(x):
    import math
    if math.isnan(x) or math.isinf(x):
        raise Unsupported('non-finite float literal')
    m, e = x.hex().split('p')  # e.g. 0x1.8000000000000p+1
    sign = m.startswith('-')
    m = m.lstrip('-')
    assert m.startswith('0x')
    ip, _, fp = m[2:].partition('.')
    mant = int(ip + fp, 16)
    exp = int(e) - 4 * len(fp)
    if sign:
        mant = -mant
    return '(PFloat (mkF (%d) (%d)))' % (mant, exp)


BINOPS = {ast.Add: 'py_add', ast.Sub: 'py_sub', ast.Mult: 'py_mul', ast.Div: 'py_truediv'}
CMPOPS = {ast.Eq: 'py_eq', ast.NotEq: 'py_ne', ast.Lt: 'py_lt', ast.LtE: 'py_le',
          ast.Gt: 'py_gt', ast.GtE: 'py_ge', ast.In: 'py_in', ast.NotIn: 'py_not_in'}
BUILTIN1 = {'int': 'py_int', 'float': 'py_float', 'ceil': 'py_ceil', 'floor': 'py_floor',
            'sqrt': 'py_sqrt', 'len': 'py_len', 'list': 'py_list', 'str': 'py_str'}
GLOBAL_CONSTS = {'maxsize': 'py_maxsize', 'py_nan': 'py_nan'}   # py_nan: np.NaN (wrappers.py rewrites the attribute)


def assigned_names(stmts):
    """Names (re)bound by a statement list, in first-occurrence order."""
    out = []

    def add(n):
        if n not in out:
            out.append(n)

    def tgt(t):
        if isinstance(t, ast.Name):
            add(t.id)
        elif isinstance(t, (ast.Tuple, ast.List)):
            for e in t.elts:
                tgt(e)
        elif isinstance(t, ast.Subscript) and isinstance(t.value, ast.Name):
            add(t.value.id)
        else:
            raise Unsupported('assignment target ' + ast.dump(t))

    def walk(ss):
        for s in ss:
            if isinstance(s, ast.Assign):
                for t in s.targets:
                    tgt(t)
            elif isinstance(s, ast.AugAssign):
                tgt(s.target)
            elif isinstance(s, ast.For):
                tgt(s.target)
                walk(s.body)
                if s.orelse:
                    raise Unsupported('for-else')
            elif isinstance(s, ast.If):
                walk(s.body)
                walk(s.orelse)
            elif isinstance(s, ast.Expr) and isinstance(s.value, ast.Call) and \
                    isinstance(s.value.func, ast.Attribute) and \
                    isinstance(s.value.func.value, ast.Name) and \
                    s.value.func.attr in ('append', 'insert', 'sort', 'add', 'update'):
                add(s.value.func.value.id)
    walk(stmts)
    return out


def has_escape(stmts):
    """Does the block contain return / continue / raise (at any depth, not inside nested defs)?"""
    for s in stmts:
        for n in ast.walk(s):
            if isinstance(n, (ast.Return, ast.Continue, ast.Raise, ast.Break)):
                return True
    return False


class FunTranslator:
    def __init__(self, fn, known_funs=(), attr_params=None, method_params=None,
                 known_sigs=None, attr_allow=None, allow_sets=False,
                 fun_params=None, fun_tables=None, obj_locals=None, fresh_funs=(),
                 strict_escape=False, ext_calls=None, rename_calls=None, allow_listcomp=False):
        self.fn = fn
        self.allow_listcomp = allow_listcomp
        # ext_calls: (module alias, function) -> Coq primitive of one argument (pd.isnull ->
        # py_isnull); the caller has checked the import.  rename_calls: python function name ->
        # name of its generated definition (overlap -> simfunctions_overlap)
        self.ext_calls = dict(ext_calls or {})
        self.rename_calls = dict(rename_calls or {})
        self.loop_ret = None
        # function-valued names (JoinGen): fun_params are PARAMETERS of the generated definition
        # (name -> arity, type pyval -> ... -> pyval); fun_tables maps a global dict of functions
        # (COMP_OP_MAP) to the generated lookup `tbl : pyval -> (pyval -> pyval -> pyval) + pyval`;
        # a local bound by `g = TABLE[e]` is a function-valued local.  Such names may only be called.
        self.fun_params = dict(fun_params or {})
        self.fun_tables = dict(fun_tables or {})
        self.fun_locals = {}
        # obj_locals: variable -> attributes held in the locals <variable>_<attribute> (an inlined
        # object, see joins.py); it may be passed where a callee abstracted a parameter into attributes
        self.obj_locals = dict(obj_locals or {})
        # known functions whose result is a fresh, unshared list (checked by returns_fresh)
        self.fresh_funs = set(fresh_funs)
        self.strict_escape = strict_escape
        # sets (only where the generated file carries the py_set_* prelude): a name bound to
        # `set()` -- and to nothing else -- supports .add(x) / .update(iterable)
        self.allow_sets = allow_sets
        self.set_names = set()
        if allow_sets:
            cand, other = set(), set()
            for n in ast.walk(fn):
                if isinstance(n, ast.Assign):
                    isset = isinstance(n.value, ast.Call) and isinstance(n.value.func, ast.Name) and \
                        n.value.func.id == 'set' and not n.value.args and not n.value.keywords
                    for t in n.targets:
                        for e in ast.walk(t):
                            if isinstance(e, ast.Name):
                                (cand if isset and e is t else other).add(e.id)
                elif isinstance(n, (ast.AugAssign, ast.For)):
                    for e in ast.walk(n.target):
                        if isinstance(e, ast.Name):
                            other.add(e.id)
            self.set_names = cand - other - set(a.arg for a in fn.args.args)
        self.known_funs = set(known_funs)
        # known_sigs: name -> (python parameter names, spec) where spec lists the Coq parameters
        # in order as ('plain', p) | ('attr', p, a) | ('method', p, m)
        self.known_sigs = dict(known_sigs or {})
        # attr_allow: parameter -> attributes that may be read (they become parameters p_a);
        # `.qval` is allowed on every parameter (as before)
        self.attr_allow = dict(attr_allow or {})
        self.abstracted_args = set()   # id() of Name nodes passed where the callee wants p.attr
        self.params = [a.arg for a in fn.args.args]
        if fn.args.vararg or fn.args.kwarg or fn.args.kwonlyargs:
            raise Unsupported('varargs')
        # attribute reads on parameters become extra parameters: tokenizer.qval -> tokenizer_qval
        self.attr_params = []      # list of (param, attr)
        self.method_params = []    # list of (param, method)  (higher-order: pyval -> pyval)
        self.scan_attrs()
        self.bound = set()

    # ---- parameter attribute scan
    def scan_attrs(self):
        for n in ast.walk(self.fn):
            if isinstance(n, ast.Call) and isinstance(n.func, ast.Attribute) and \
                    isinstance(n.func.value, ast.Name) and n.func.value.id in self.params and \
                    n.func.attr in ('tokenize',):
                key = (n.func.value.id, n.func.attr)
                if key not in self.method_params:
                    self.method_params.append(key)
        for n in ast.walk(self.fn):
            if isinstance(n, ast.Attribute) and isinstance(n.value, ast.Name) and \
                    n.value.id in self.params and isinstance(n.ctx, ast.Load):
                key = (n.value.id, n.attr)
                if key in self.method_params:
                    continue
                if (n.attr in ('qval',) or n.attr in self.attr_allow.get(n.value.id, ())) and \
                        key not in self.attr_params:
                    self.attr_params.append(key)
        orig = list(self.attr_params)
        self.attr_params.sort(key=lambda pa: (0, self.params.index(pa[0]), list(self.attr_allow[pa[0]]).index(pa[1]))
                              if pa[1] in self.attr_allow.get(pa[0], ()) else (1, orig.index(pa), 0))
        # arguments handed to already translated functions that abstracted a parameter into
        # p.attr / p.method: the argument must be one of OUR parameters, never reassigned
        rebound = set(assigned_names(self.fn.body)) if self.known_sigs else set()
        for n in ast.walk(self.fn):
            if isinstance(n, ast.Call) and isinstance(n.func, ast.Name) and n.func.id in self.known_sigs:
                pyparams, spec = self.known_sigs[n.func.id]
                if n.keywords or len(n.args) != len(pyparams):
                    raise Unsupported('call of %s: positional arguments only' % n.func.id)
                for sp in spec:
                    if sp[0] in ('plain', 'fun'):
                        continue
                    a = n.args[pyparams.index(sp[1])]
                    if sp[0] == 'attr' and isinstance(a, ast.Name) and a.id in self.obj_locals and \
                            sp[2] in self.obj_locals[a.id] and a.id not in rebound:
                        # an inlined object: its attribute lives in the local <a>_<attr>
                        self.abstracted_args.add(id(a))
                        self.obj_attr_args = getattr(self, 'obj_attr_args', set()) | {id(a)}
                        continue
                    if not (isinstance(a, ast.Name) and a.id in self.params and a.id not in rebound):
                        raise Unsupported('argument %s of %s must be a parameter' % (sp[1], n.func.id))
                    key = (a.id, sp[2])
                    self.abstracted_args.add(id(a))
                    if sp[0] == 'attr' and key not in self.attr_params:
                        self.attr_params.append(key)
                    if sp[0] == 'method' and key not in self.method_params:
                        self.method_params.append(key)

    def v(self, name):
        return 'v_' + name

    # ---- expressions
    def expr(self, n):
        if isinstance(n, ast.Constant):
            c = n.value
            if c is None:
                return 'PNone'
            if c is True:
                return '(PBool true)'
            if c is False:
                return '(PBool false)'
            if isinstance(c, int):
                return coq_int(c)
            if isinstance(c, float):
                return coq_float(c)
            if isinstance(c, str):
                return '(PStr %s)' % coq_str(c)
            raise Unsupported('constant %r' % (c,))
        if isinstance(n, ast.Name):
            if n.id in self.bound:
                return self.v(n.id)
            if n.id in GLOBAL_CONSTS:
                return GLOBAL_CONSTS[n.id]
            if n.id in ('True', 'False', 'None'):
                return {'True': '(PBool true)', 'False': '(PBool false)', 'None': 'PNone'}[n.id]
            raise Unsupported('free name ' + n.id)
        if isinstance(n, ast.BinOp):
            if type(n.op) not in BINOPS:
                raise Unsupported('binop ' + type(n.op).__name__)
            return '(%s %s %s)' % (BINOPS[type(n.op)], self.expr(n.left), self.expr(n.right))
        if isinstance(n, ast.UnaryOp):
            if isinstance(n.op, ast.Not):
                return '(py_not %s)' % self.expr(n.operand)
            if isinstance(n.op, ast.USub):
                if isinstance(n.operand, ast.Constant) and isinstance(n.operand.value, int):
                    return coq_int(-n.operand.value)
                return '(py_neg %s)' % self.expr(n.operand)
            raise Unsupported('unaryop')
        if isinstance(n, ast.BoolOp):
            f = 'py_and' if isinstance(n.op, ast.And) else 'py_or'
            vals = [self.expr(x) for x in n.values]
            out = vals[-1]
            for x in reversed(vals[:-1]):
                out = '(%s %s %s)' % (f, x, out)
            return out
        if isinstance(n, ast.Compare):
            parts = []
            left = n.left
            for op, right in zip(n.ops, n.comparators):
                if isinstance(op, (ast.Is, ast.IsNot)):
                    if not (isinstance(right, ast.Constant) and right.value is None):
                        raise Unsupported('is <non-None>')
                    f = 'py_is_none' if isinstance(op, ast.Is) else 'py_is_not_none'
                    parts.append('(%s %s)' % (f, self.expr(left)))
                else:
                    if type(op) not in CMPOPS:
                        raise Unsupported('cmpop')
                    parts.append('(%s %s %s)' % (CMPOPS[type(op)], self.expr(left), self.expr(right)))
                left = right
            out = parts[-1]
            for x in reversed(parts[:-1]):
                out = '(py_and %s %s)' % (x, out)
            return out
        if isinstance(n, ast.IfExp):
            return '(py_if %s %s %s)' % (self.expr(n.test), self.expr(n.body), self.expr(n.orelse))
        if isinstance(n, ast.List):
            return '(PList [%s])' % '; '.join(self.expr(e) for e in n.elts)
        if isinstance(n, ast.Tuple):
            return '(PTuple [%s])' % '; '.join(self.expr(e) for e in n.elts)
        if isinstance(n, ast.Dict):
            if n.keys:
                # display with distinct constant string keys (insertion order = textual order)
                ks = []
                for k in n.keys:
                    if not (isinstance(k, ast.Constant) and isinstance(k.value, str)) or k.value in ks:
                        raise Unsupported('dict literal key')
                    ks.append(k.value)
                return '(PDict [%s])' % '; '.join(
                    'PTuple [(PStr %s); %s]' % (coq_str(k), self.expr(v)) for k, v in zip(ks, n.values))
            return '(PDict [])'
        if isinstance(n, ast.Subscript):
            if isinstance(n.value, ast.Name) and n.value.id in self.set_names:
                raise Unsupported('subscript of a set')
            if isinstance(n.slice, ast.Slice):
                if n.slice.step is not None:
                    raise Unsupported('slice step')
                lo = self.expr(n.slice.lower) if n.slice.lower is not None else '(PInt 0)'
                if n.slice.upper is None:
                    raise Unsupported('open slice')
                return '(py_slice %s %s %s)' % (self.expr(n.value), lo, self.expr(n.slice.upper))
            return '(py_getitem %s %s)' % (self.expr(n.value), self.expr(n.slice))
        if isinstance(n, ast.Attribute):
            if isinstance(n.value, ast.Name) and (n.value.id, n.attr) in self.attr_params:
                return self.v(n.value.id + '_' + n.attr)
            raise Unsupported('attribute ' + ast.dump(n))
        if isinstance(n, ast.Call):
            return self.call(n)
        if isinstance(n, ast.ListComp):
            # [e for x in it]: one generator, no condition; x is a name that occurs nowhere else in
            # the function (a comprehension has its own scope in Python 3).  py_listcomp (prelude of
            # Gen/WrapperGen.v) evaluates left to right and yields the first exception.
            if not self.allow_listcomp or len(n.generators) != 1:
                raise Unsupported('list comprehension')
            g = n.generators[0]
            if g.ifs or g.is_async or not isinstance(g.target, ast.Name):
                raise Unsupported('list comprehension shape')
            x = g.target.id
            inside = set(id(m_) for m_ in ast.walk(n))
            for m_ in ast.walk(self.fn):
                if isinstance(m_, ast.Name) and m_.id == x and id(m_) not in inside:
                    raise Unsupported('comprehension variable %s is used elsewhere' % x)
            if x in self.params or x in self.bound:
                raise Unsupported('comprehension variable %s shadows a name' % x)
            it = self.expr(g.iter)
            self.bound.add(x)
            body = self.expr(n.elt)
            self.bound.discard(x)
            return '(py_listcomp (fun %s => %s) %s)' % (self.v(x), body, it)
        raise Unsupported('expr ' + type(n).__name__)

    def call(self, n):
        if n.keywords and not (isinstance(n.func, ast.Name) and n.func.id == 'sorted'):
            raise Unsupported('keyword args')
        args = n.args
        if isinstance(n.func, ast.Name):
            f = n.func.id
            if f in self.fun_params or f in self.fun_locals:
                ar = self.fun_params.get(f, self.fun_locals.get(f))
                if len(args) != ar:
                    raise Unsupported('arity of ' + f)
                return '(%s %s)' % (self.v(f), ' '.join(self.expr(a) for a in args))
            if f in self.bound:
                raise Unsupported('call of local ' + f)
            if f == 'iteritems' and len(args) == 1 and self.strict_escape:
                # six.iteritems(d): the (key, value) pairs in insertion order (import checked by joins.py)
                return '(py_items %s)' % self.expr(args[0])
            if f == 'set' and not args and self.allow_sets:
                return '(PDict [])'
            if f == 'set' and len(args) == 1 and self.allow_sets:
                return '(py_set_of %s)' % self.expr(args[0])
            if f == 'isinstance' and len(args) == 2 and self.allow_sets and \
                    isinstance(args[1], ast.Name) and args[1].id == 'set' and 'set' not in self.bound:
                return '(py_isinstance_set %s)' % self.expr(args[0])
            if f in BUILTIN1 and len(args) == 1:
                return '(%s %s)' % (BUILTIN1[f], self.expr(args[0]))
            if f == 'round' and len(args) == 2:
                return '(py_round2 %s %s)' % (self.expr(args[0]), self.expr(args[1]))
            if f == 'round' and len(args) == 1:
                return '(py_round1 %s)' % self.expr(args[0])
            if f in ('min', 'max') and len(args) == 2:
                return '(py_%s %s %s)' % (f, self.expr(args[0]), self.expr(args[1]))
            if f in ('range', 'xrange') and len(args) == 1:
                return '(py_range (PInt 0) %s)' % self.expr(args[0])
            if f in ('range', 'xrange') and len(args) == 2:
                return '(py_range %s %s)' % (self.expr(args[0]), self.expr(args[1]))
            if f == 'sorted' and len(args) == 1 and len(n.keywords) == 1 and \
                    n.keywords[0].arg == 'key':
                k = n.keywords[0].value
                if isinstance(k, ast.Call) and isinstance(k.func, ast.Name) and \
                        k.func.id == 'itemgetter' and len(k.args) == 1 and \
                        isinstance(k.args[0], ast.Constant) and isinstance(k.args[0].value, int):
                    return '(py_sorted_item %d %s)' % (k.args[0].value, self.expr(args[0]))
                raise Unsupported('sorted key')
            if f in self.known_sigs:
                pyparams, spec = self.known_sigs[f]
                out = []
                for sp in spec:
                    if sp[0] == 'fun':
                        # the callee's function-valued parameter (sim_fn): the caller must have a
                        # function parameter of the same name and arity, which is passed on
                        if self.fun_params.get(sp[1]) != sp[2]:
                            raise Unsupported('%s needs the function parameter %s' % (f, sp[1]))
                        out.append(self.v(sp[1]))
                        continue
                    a = args[pyparams.index(sp[1])]
                    if sp[0] == 'plain':
                        out.append(self.expr(a))
                    else:
                        if id(a) not in self.abstracted_args:
                            raise Unsupported('argument %s of %s' % (sp[1], f))
                        if id(a) in getattr(self, 'obj_attr_args', ()) and (a.id + '_' + sp[2]) not in self.bound:
                            raise Unsupported('%s.%s is not bound here' % (a.id, sp[2]))
                        out.append(self.v(a.id + '_' + sp[2]))
                return '(%s %s)' % (f, ' '.join(out))
            if f in self.known_funs:
                return '(%s %s)' % (self.rename_calls.get(f, f), ' '.join(self.expr(a) for a in args))
            raise Unsupported('call ' + f)
        if isinstance(n.func, ast.Subscript) and isinstance(n.func.value, ast.Name) and \
                n.func.value.id in self.fun_tables and n.func.value.id not in self.bound:
            # TABLE[k](a, b): the lookup is evaluated first, then the arguments, then the call
            # (arguments are required to be exception-free names/constants so the order is moot)
            if len(args) != 2 or not all(self.is_safe(a) for a in args):
                raise Unsupported('function table call shape')
            return '(match %s %s with inr x_ => x_ | inl f_ => f_ %s %s end)' % (
                self.fun_tables[n.func.value.id], self.expr(n.func.slice),
                self.expr(args[0]), self.expr(args[1]))
        if isinstance(n.func, ast.Attribute):
            m = n.func.attr
            if isinstance(n.func.value, ast.Name) and (n.func.value.id, m) in self.ext_calls and \
                    n.func.value.id not in self.bound:
                if len(args) != 1:
                    raise Unsupported('arity of %s.%s' % (n.func.value.id, m))
                return '(%s %s)' % (self.ext_calls[(n.func.value.id, m)], self.expr(args[0]))
            if isinstance(n.func.value, ast.Name) and (n.func.value.id, m) in self.method_params:
                return '(%s %s)' % (self.v(n.func.value.id + '_' + m),
                                    ' '.join(self.expr(a) for a in args))
            if isinstance(n.func.value, ast.Name) and n.func.value.id in self.set_names:
                raise Unsupported('method %s of a set' % m)
            obj = self.expr(n.func.value)
            if m == 'intersection' and len(args) == 1 and self.allow_sets:
                return '(py_set_inter %s %s)' % (obj, self.expr(args[0]))
            if m == 'get' and len(args) == 1:
                return '(py_dict_get2 %s %s)' % (obj, self.expr(args[0]))
            if m == 'get' and len(args) == 2:
                return '(py_dict_get3 %s %s %s)' % (obj, self.expr(args[0]), self.expr(args[1]))
            if m == 'index' and len(args) == 1:
                return '(py_index %s %s)' % (obj, self.expr(args[0]))
            if m == 'upper' and not args:
                return '(py_upper %s)' % obj
            if m == 'items' and not args:
                return '(py_items %s)' % obj
            if m == 'keys' and not args:
                return '(py_keys %s)' % obj
            raise Unsupported('method ' + m)
        raise Unsupported('call shape')

    # ---- statements (CPS).  `k` : () -> str builds the continuation; `fail` : str -> str.
    def block(self, stmts, k, fail, in_loop):
        if not stmts:
            return k()
        s, rest = stmts[0], stmts[1:]
        saved = set(self.bound)

        def cont():
            return self.block(rest, k, fail, in_loop)

        if isinstance(s, ast.Expr) and isinstance(s.value, ast.Constant) and \
                isinstance(s.value.value, str):
            return cont()                                         # docstring
        if isinstance(s, ast.Pass):
            return cont()
        if isinstance(s, ast.Return):
            if in_loop:
                if self.loop_ret is None:
                    raise Unsupported('return inside loop')
                out = self.loop_ret(self.expr(s.value) if s.value is not None else 'PNone')
                self.bound = saved
                return out
            out = self.expr(s.value) if s.value is not None else 'PNone'
            self.bound = saved
            return out
        if isinstance(s, ast.Raise):
            exc = s.exc
            if isinstance(exc, ast.Call):
                exc = exc.func
            if not isinstance(exc, ast.Name):
                raise Unsupported('raise shape')
            return fail('(PExc %s)' % coq_str(exc.id))
        if isinstance(s, ast.Continue):
            if not in_loop:
                raise Unsupported('continue outside loop')
            return in_loop()
        if isinstance(s, ast.Assign) and isinstance(s.value, ast.Subscript) and \
                isinstance(s.value.value, ast.Name) and s.value.value.id in self.fun_tables and \
                s.value.value.id not in self.bound:
            # g = TABLE[e]: g is a function-valued local
            if len(s.targets) != 1 or not isinstance(s.targets[0], ast.Name) or in_loop:
                raise Unsupported('function table lookup shape')
            g = s.targets[0].id
            if g in self.bound or g in self.fun_locals or g in self.fun_params or \
                    sum(1 for n in ast.walk(self.fn) if isinstance(n, ast.Name) and n.id == g and
                        isinstance(n.ctx, ast.Store)) != 1:
                raise Unsupported('function-valued local %s is rebound' % g)
            key = self.expr(s.value.slice)
            self.fun_locals[g] = 2
            r = cont()
            return '(match %s %s with inr x_ => %s | inl %s =>\n %s end)' % (
                self.fun_tables[s.value.value.id], key, fail('x_'), self.v(g), r)
        if isinstance(s, ast.Assign):
            if len(s.targets) != 1:
                raise Unsupported('multi-target assign')
            return self.assign(s.targets[0], self.expr(s.value), cont, fail,
                               safe=self.is_safe(s.value))
        if isinstance(s, ast.AugAssign):
            if not isinstance(s.target, ast.Name) or type(s.op) not in BINOPS:
                raise Unsupported('augassign')
            e = '(%s %s %s)' % (BINOPS[type(s.op)], self.expr(s.target), self.expr(s.value))
            return self.assign(s.target, e, cont, fail)
        if isinstance(s, ast.Expr) and isinstance(s.value, ast.Call) and \
                isinstance(s.value.func, ast.Attribute) and \
                isinstance(s.value.func.value, ast.Name):
            c = s.value
            name = c.func.value.id
            if name not in self.bound:
                raise Unsupported('method on free name')
            tgt = ast.Name(id=name, ctx=ast.Store())
            if c.func.attr == 'append' and len(c.args) == 1:
                return self.assign(tgt, '(py_append %s %s)' % (self.v(name), self.expr(c.args[0])),
                                   cont, fail)
            if c.func.attr == 'insert' and len(c.args) == 2 and \
                    isinstance(c.args[0], ast.Constant) and c.args[0].value == 0:
                return self.assign(tgt, '(py_insert0 %s %s)' % (self.v(name), self.expr(c.args[1])),
                                   cont, fail)
            if c.func.attr in ('add', 'update') and len(c.args) == 1 and name in self.set_names:
                return self.assign(tgt, '(py_set_%s %s %s)' % (c.func.attr, self.v(name), self.expr(c.args[0])),
                                   cont, fail)
            if c.func.attr == 'sort' and not c.args:
                return self.assign(tgt, '(py_sort %s)' % self.v(name), cont, fail)
            raise Unsupported('statement call ' + c.func.attr)
        if isinstance(s, ast.Expr) and self.is_get_append(s.value):
            # d.get(k).append(e) on a local dict whose values are fresh, unshared lists (checked
            # by check_fresh_list_dict): the same as d[k] = d.get(k) + [e], k evaluated once.
            # (None.append raises AttributeError in CPython; py_append gives TypeError.)
            c = s.value
            g = c.func.value
            name = g.func.value.id
            if name not in self.bound:
                raise Unsupported('method on free name')
            self.check_fresh_list_dict(name)
            tgt = ast.Name(id=name, ctx=ast.Store())
            ke = self.expr(g.args[0])
            return ('(bindx %s (fun x_ => %s) (fun k_ =>\n %s))' % (
                ke, fail('x_'),
                self.assign(tgt, '(py_setitem %s k_ (py_append (py_dict_get2 %s k_) %s))' % (
                    self.v(name), self.v(name), self.expr(c.args[0])), cont, fail)))
        if isinstance(s, ast.Expr) and isinstance(s.value, ast.Call) and \
                isinstance(s.value.func, ast.Name) and \
                (s.value.func.id in self.known_funs or s.value.func.id in self.known_sigs):
            # a call for its exception only (validate_*): bind to a dummy
            e = self.expr(s.value)
            return '(bindx %s (fun x_ => %s) (fun _ => %s))' % (e, fail('x_'), cont())
        if isinstance(s, ast.If):
            c = self.expr(s.test)
            if not has_escape(s.body) and not has_escape(s.orelse):
                # state-tuple form (no duplication of the continuation)
                names = [n for n in assigned_names([s])]
                for n in names:
                    if n not in self.bound:
                        # conditionally bound variable: unbound on the other path
                        pass
                tup = self.tuple_of(names, unbound_ok=True)
                pat = self.pattern_of(names)
                b1 = self.block(s.body, lambda: self.ok_state(names), self.wrap_fail_state(names), None)
                self.bound = set(saved)
                b2 = self.block(s.orelse, lambda: self.ok_state(names), self.wrap_fail_state(names), None)
                self.bound = set(saved) | set(names)
                r = cont()
                self.bound = saved
                return ('(bindx %s (fun x_ => %s) (fun c_ =>\n let \'(e_, %s) := if py_truth c_ then %s else %s in\n'
                        ' bindx e_ (fun e_ => %s) (fun _ => %s)))'
                        % (c, fail('x_'), pat, b1, b2, fail('e_'), r)) if names else \
                       ('(bindx %s (fun x_ => %s) (fun _ => %s))' % (c, fail('x_'), r))
            b1 = self.block(s.body + rest, k, fail, in_loop)
            self.bound = set(saved)
            b2 = self.block(s.orelse + rest, k, fail, in_loop)
            self.bound = saved
            return '(bindx %s (fun x_ => %s) (fun c_ =>\n if py_truth c_ then %s\n else %s))' % (
                c, fail('x_'), b1, b2)
        if isinstance(s, ast.For):
            it = self.expr(s.iter)
            names = assigned_names(s.body)
            if isinstance(s.iter, ast.Call) and isinstance(s.iter.func, ast.Name) and s.iter.func.id == 'iteritems':
                d = s.iter.args[0]
                if not isinstance(d, ast.Name) or d.id in names:
                    raise Unsupported('iteritems() of a dict that changes inside the loop')
            tnames = assigned_names([ast.Assign(targets=[s.target], value=None)])
            names = [n for n in names if n not in tnames]
            tup0 = self.tuple_of(names, unbound_ok=True)
            pat = self.pattern_of(names)
            inner_saved = set(self.bound)
            self.bound |= set(names)
            rets = [n for b in s.body for n in ast.walk(b) if isinstance(n, ast.Return)]
            if rets:
                # early return: only from a loop that is not nested in / does not contain another
                # loop with a return, at function level (the value after the loop IS the result)
                if in_loop is not None or self.loop_ret is not None:
                    raise Unsupported('return inside a nested loop')
                for b in s.body:
                    for n in ast.walk(b):
                        if isinstance(n, ast.For) and any(isinstance(m_, ast.Return) for m_ in ast.walk(n)):
                            raise Unsupported('return inside a nested loop')
                fail_in = lambda e: '(%s, (None, %s))' % (e, self.tuple_of(names))
                ok_in = lambda: '(PNone, (None, %s))' % self.tuple_of(names)
                self.loop_ret = lambda e: '(bindx %s (fun x_ => %s) (fun r_ => (PNone, (Some r_, %s))))' % (
                    e, fail_in('x_'), self.tuple_of(names))
                body = self.assign(s.target, 'x_it',
                                   lambda: self.block(s.body, ok_in, fail_in, ok_in), fail_in)
                self.loop_ret = None
                self.bound = inner_saved | set(names)
                r = cont()
                self.bound = saved
                return ('(let \'(e_, (ro_, %s)) := py_for %s (fun s_ => is_exc (fst s_) || '
                        'match fst (snd s_) with Some _ => true | None => false end)%%bool '
                        '(fun x_ => (x_, (None, %s)))\n'
                        '  (fun s_ x_it => let \'(_, (_, %s)) := s_ in %s) (PNone, (None, %s)) in\n'
                        ' bindx e_ (fun e_ => %s) (fun _ => match ro_ with Some r_ => r_ | None => %s end))'
                        % (pat, it, tup0, pat, body, tup0, fail('e_'), r))
            fail_in = lambda e: '(%s, %s)' % (e, self.tuple_of(names))
            ok_in = lambda: '(PNone, %s)' % self.tuple_of(names)
            body = self.assign(s.target, 'x_it',
                               lambda: self.block(s.body, ok_in, fail_in, ok_in), fail_in)
            self.bound = inner_saved | set(names)
            r = cont()
            self.bound = saved
            return ('(let \'(e_, %s) := py_for %s (fun s_ => is_exc (fst s_)) (fun x_ => (x_, %s))\n'
                    '  (fun s_ x_it => let \'(_, %s) := s_ in %s) (PNone, %s) in\n'
                    ' bindx e_ (fun e_ => %s) (fun _ => %s))'
                    % (pat, it, tup0, pat, body, tup0, fail('e_'), r))
        raise Unsupported('statement ' + type(s).__name__)

    @staticmethod
    def is_get_append(c):
        return (isinstance(c, ast.Call) and isinstance(c.func, ast.Attribute) and
                c.func.attr == 'append' and len(c.args) == 1 and not c.keywords and
                isinstance(c.func.value, ast.Call) and not c.func.value.keywords and
                isinstance(c.func.value.func, ast.Attribute) and
                c.func.value.func.attr == 'get' and len(c.func.value.args) == 1 and
                isinstance(c.func.value.func.value, ast.Name))

    def check_fresh_list_dict(self, name):
        """`name` is a local dict of lists that are never shared: every store is
        `name = {}` / `name = None` / `name[k] = []`, and every read of `name` is
        `name.get(k) is [not] None`, `name.get(k).append(e)`, `not name`, `len(name)`, or the
        returned value (the function ends there)."""
        if name in self.params:
            raise Unsupported('get/append on parameter ' + name)
        ok_loads = set()
        for n in ast.walk(self.fn):
            if isinstance(n, ast.Assign):
                for t in n.targets:
                    if isinstance(t, ast.Name) and t.id == name:
                        v = n.value
                        if not ((isinstance(v, ast.Dict) and not v.keys) or
                                (isinstance(v, ast.Constant) and v.value is None)):
                            raise Unsupported('store to list-dict ' + name)
                    if isinstance(t, ast.Subscript) and isinstance(t.value, ast.Name) and \
                            t.value.id == name:
                        if not (isinstance(n.value, ast.List) and not n.value.elts) or len(n.targets) != 1:
                            raise Unsupported('store into list-dict ' + name)
                        ok_loads.add(id(t.value))
            if isinstance(n, ast.Compare) and len(n.ops) == 1 and isinstance(n.ops[0], (ast.Is, ast.IsNot)) \
                    and isinstance(n.comparators[0], ast.Constant) and n.comparators[0].value is None:
                l = n.left
                if isinstance(l, ast.Call) and isinstance(l.func, ast.Attribute) and l.func.attr == 'get' \
                        and len(l.args) == 1 and isinstance(l.func.value, ast.Name) and l.func.value.id == name:
                    ok_loads.add(id(l.func.value))
            if isinstance(n, ast.Expr) and self.is_get_append(n.value) and \
                    n.value.func.value.func.value.id == name:
                ok_loads.add(id(n.value.func.value.func.value))
            if isinstance(n, ast.UnaryOp) and isinstance(n.op, ast.Not) and \
                    isinstance(n.operand, ast.Name) and n.operand.id == name:
                ok_loads.add(id(n.operand))
            if isinstance(n, ast.Call) and isinstance(n.func, ast.Name) and n.func.id == 'len' and \
                    len(n.args) == 1 and isinstance(n.args[0], ast.Name) and n.args[0].id == name:
                ok_loads.add(id(n.args[0]))
        last = self.fn.body[-1]
        if isinstance(last, ast.Return) and last.value is not None:
            v = last.value
            for e in ([v] + (list(v.elts) if isinstance(v, ast.Tuple) else [])):
                if isinstance(e, ast.Name) and e.id == name:
                    ok_loads.add(id(e))
        for n in ast.walk(self.fn):
            if isinstance(n, ast.Name) and n.id == name and isinstance(n.ctx, ast.Load) and \
                    id(n) not in ok_loads:
                raise Unsupported('list-dict %s escapes' % name)
            if isinstance(n, (ast.AugAssign, ast.For)) and isinstance(n.target, ast.Name) and \
                    n.target.id == name:
                raise Unsupported('list-dict %s rebound' % name)

    def is_safe(self, n):
        """Syntactically cannot be an exception value: literals, empty displays, bound names."""
        if isinstance(n, ast.Constant):
            return True
        if isinstance(n, (ast.List, ast.Tuple)):
            return all(self.is_safe(e) for e in n.elts)
        if isinstance(n, ast.Dict):
            return not n.keys
        if isinstance(n, ast.Name):
            return n.id in self.bound or n.id in GLOBAL_CONSTS
        return False

    def tuple_of(self, names, unbound_ok=False):
        if not names:
            return 'tt'
        parts = []
        for n in names:
            if n in self.bound:
                parts.append(self.v(n))
            elif unbound_ok:
                parts.append('(PExc "UnboundLocalError")')
            else:
                raise Unsupported('unbound ' + n)
        out = parts[-1]
        for p in reversed(parts[:-1]):
            out = '(%s, %s)' % (p, out)
        return out

    def pattern_of(self, names):
        if not names:
            return '_'
        parts = [self.v(n) for n in names]
        out = parts[-1]
        for p in reversed(parts[:-1]):
            out = '(%s, %s)' % (p, out)
        return out

    def ok_state(self, names):
        return '(PNone, %s)' % self.tuple_of(names, unbound_ok=True)

    def wrap_fail_state(self, names):
        return lambda e: '(%s, %s)' % (e, self.tuple_of(names, unbound_ok=True))

    def assign(self, target, e, cont, fail, safe=False):
        if isinstance(target, ast.Name):
            f = fail('x_')
            self.bound.add(target.id)
            r = cont()
            if safe:
                return '(let %s := %s in\n %s)' % (self.v(target.id), e, r)
            return '(bindx %s (fun x_ => %s) (fun %s =>\n %s))' % (
                e, f, self.v(target.id), r)
        if isinstance(target, (ast.Tuple, ast.List)):
            names = []
            for el in target.elts:
                if not isinstance(el, ast.Name):
                    raise Unsupported('nested tuple target')
                names.append(el.id)
            out_open = '(bindx %s (fun x_ => %s) (fun t_ =>\n' % (e, fail('x_'))
            closes = '))'
            for i, nme in enumerate(names):
                f = fail('x_')
                self.bound.add(nme)
                out_open += ' bindx (py_getitem t_ (PInt %d)) (fun x_ => %s) (fun %s =>\n' % (
                    i, f, self.v(nme))
                closes = ')' + closes
            return out_open + cont() + closes
        if isinstance(target, ast.Subscript) and isinstance(target.value, ast.Name):
            name = target.value.id
            if name not in self.bound:
                raise Unsupported('subscript-assign on free name')
            if name in self.set_names:
                raise Unsupported('subscript-assign on a set')
            e2 = '(py_setitem %s %s %s)' % (self.v(name), self.expr(target.slice), e)
            return self.assign(ast.Name(id=name, ctx=ast.Store()), e2, cont, fail)
        raise Unsupported('assign target')

    def check_no_aliased_mutation(self):
        """In-place mutation (x.append / x.insert / x.sort / x[k] = v / x.get(k).append) is
        translated as a functional update of the NAME x.  That is only faithful if the object
        is reachable through x alone: every assignment to such a name must bind a fresh object
        (a display, None, or list()/sorted() of something), never a value read out of another
        variable or container (`lst = d.get(k); lst.append(e)` would silently lose the update)."""
        mutated = set()
        for n in ast.walk(self.fn):
            if isinstance(n, ast.Expr) and isinstance(n.value, ast.Call) and \
                    isinstance(n.value.func, ast.Attribute):
                r = n.value.func.value
                if isinstance(r, ast.Name) and n.value.func.attr in ('append', 'insert', 'sort', 'add', 'update'):
                    mutated.add(r.id)
                if self.is_get_append(n.value):
                    mutated.add(n.value.func.value.func.value.id)
            if isinstance(n, (ast.Assign, ast.AugAssign)):
                for t in (n.targets if isinstance(n, ast.Assign) else [n.target]):
                    if isinstance(t, ast.Subscript) and isinstance(t.value, ast.Name):
                        mutated.add(t.value.id)

        def fresh(v):
            if isinstance(v, (ast.List, ast.Dict, ast.Tuple)):
                return True
            if isinstance(v, ast.Constant):
                return True
            if isinstance(v, ast.Call) and isinstance(v.func, ast.Name) and \
                    v.func.id in ('list', 'sorted', 'range', 'xrange', 'set'):
                return True
            if isinstance(v, ast.Call) and isinstance(v.func, ast.Name) and v.func.id in self.fresh_funs:
                return True
            return False
        for p_ in self.params:
            if self.strict_escape and p_ in mutated:
                raise Unsupported('in-place mutation of parameter ' + p_)
        for n in ast.walk(self.fn):
            if isinstance(n, ast.Assign):
                for t in n.targets:
                    if isinstance(t, ast.Name) and t.id in mutated and not fresh(n.value):
                        raise Unsupported('in-place mutation of %s, which is bound to a shared value' % t.id)
                    if isinstance(t, (ast.Tuple, ast.List)):
                        for e in t.elts:
                            if isinstance(e, ast.Name) and e.id in mutated:
                                raise Unsupported('in-place mutation of unpacked name ' + e.id)
            if isinstance(n, ast.For):
                for e in ast.walk(n.target):
                    if isinstance(e, ast.Name) and e.id in mutated:
                        raise Unsupported('in-place mutation of loop variable ' + e.id)

    def check_no_mutation_after_escape(self):
        """Flow-sensitive companion of check_no_aliased_mutation: once the object held by a
        mutated name x has been stored somewhere else (appended to a list, put into a display or a
        dict, bound to another name, passed to a function), x may not be mutated again before it is
        rebound to a fresh object -- the functional update of x would not reach the stored copy.
        Loop bodies are analysed twice (back edge); branches are joined by union."""
        MUT = ('append', 'insert', 'sort', 'add', 'update')
        mutated = set()
        for n in ast.walk(self.fn):
            if isinstance(n, ast.Expr) and isinstance(n.value, ast.Call) and isinstance(n.value.func, ast.Attribute):
                r = n.value.func.value
                if isinstance(r, ast.Name) and n.value.func.attr in MUT:
                    mutated.add(r.id)
                if self.is_get_append(n.value):
                    mutated.add(n.value.func.value.func.value.id)
            if isinstance(n, (ast.Assign, ast.AugAssign)):
                for t in (n.targets if isinstance(n, ast.Assign) else [n.target]):
                    if isinstance(t, ast.Subscript) and isinstance(t.value, ast.Name):
                        mutated.add(t.value.id)

        def escaping(e, acc):
            """names whose OBJECT flows out of expression e (conservative: any bare occurrence that
            is not the receiver of a read-only operation)"""
            if isinstance(e, ast.Name):
                if e.id in mutated:
                    acc.add(e.id)
            elif isinstance(e, ast.Call):
                if isinstance(e.func, ast.Name) and e.func.id in ('len',):
                    return
                if isinstance(e.func, ast.Attribute):
                    # receiver of a method: reading through it does not store it
                    if not isinstance(e.func.value, ast.Name):
                        escaping(e.func.value, acc)
                for a in e.args:
                    escaping(a, acc)
                for k in e.keywords:
                    escaping(k.value, acc)
            elif isinstance(e, ast.Subscript):
                # x[i] reads an element; the element may itself be shared but x is not stored
                if not isinstance(e.value, ast.Name):
                    escaping(e.value, acc)
                escaping(e.slice, acc)
            elif isinstance(e, (ast.Compare, ast.BoolOp, ast.UnaryOp, ast.BinOp)):
                for c in ast.iter_child_nodes(e):
                    if isinstance(c, ast.expr):
                        if isinstance(e, (ast.Compare, ast.UnaryOp)) and isinstance(c, ast.Name):
                            continue          # comparisons / not / truth tests do not store
                        escaping(c, acc)
            elif isinstance(e, ast.AST):
                for c in ast.iter_child_nodes(e):
                    if isinstance(c, ast.expr):
                        escaping(c, acc)

        def block(ss, esc):
            esc = set(esc)
            for s in ss:
                if isinstance(s, ast.Expr) and isinstance(s.value, ast.Call) and \
                        isinstance(s.value.func, ast.Attribute) and isinstance(s.value.func.value, ast.Name) and \
                        s.value.func.attr in MUT:
                    x = s.value.func.value.id
                    if x in esc:
                        raise Unsupported('%s is mutated after it was stored elsewhere' % x)
                    for a in s.value.args:
                        escaping(a, esc)
                elif isinstance(s, ast.Expr) and self.is_get_append(s.value):
                    x = s.value.func.value.func.value.id
                    if x in esc:
                        raise Unsupported('%s is mutated after it was stored elsewhere' % x)
                    for a in s.value.args:
                        escaping(a, esc)
                elif isinstance(s, (ast.Assign, ast.AugAssign)):
                    tg = s.targets if isinstance(s, ast.Assign) else [s.target]
                    escaping(s.value, esc)
                    for t in tg:
                        if isinstance(t, ast.Subscript) and isinstance(t.value, ast.Name) and t.value.id in esc:
                            raise Unsupported('%s is mutated after it was stored elsewhere' % t.value.id)
                        for e in ast.walk(t):
                            if isinstance(e, ast.Name) and isinstance(e.ctx, ast.Store):
                                esc.discard(e.id)      # rebound (freshness is check_no_aliased_mutation's job)
                elif isinstance(s, ast.If):
                    escaping(s.test, esc)
                    esc = block(s.body, esc) | block(s.orelse, esc)
                elif isinstance(s, ast.For):
                    escaping(s.iter, esc)
                    e1 = block(s.body, esc)
                    esc = esc | e1 | block(s.body, esc | e1)
                elif isinstance(s, ast.Return):
                    if s.value is not None:
                        escaping(s.value, esc)
                elif isinstance(s, ast.Expr):
                    escaping(s.value, esc)
            return esc
        block(self.fn.body, set())

    def check_set_order_unobserved(self):
        """Sets made by set(e) / .intersection are insertion-ordered lists in the model; CPython's
        iteration order differs.  So such a value may only be consumed by len(..), by
        .intersection(..) (as receiver or argument), by isinstance(.., set), by `not` / a truth
        test, or be bound to a name all of whose reads are of that kind."""
        parent = {}
        for n in ast.walk(self.fn):
            for c in ast.iter_child_nodes(n):
                parent[id(c)] = n

        def is_setval(n):
            if isinstance(n, ast.Call) and isinstance(n.func, ast.Name) and n.func.id == 'set' and n.args:
                return True
            return isinstance(n, ast.Call) and isinstance(n.func, ast.Attribute) and \
                n.func.attr == 'intersection'

        def consumed_ok(n):
            """is the occurrence n (an expression) in an order-blind position?"""
            p_ = parent.get(id(n))
            if isinstance(p_, ast.Call) and isinstance(p_.func, ast.Name) and n in p_.args:
                if p_.func.id in ('len', 'set') and len(p_.args) == 1:
                    return True       # set(<set>) is again a set value and is checked itself
                if p_.func.id == 'isinstance' and len(p_.args) == 2 and p_.args[0] is n and \
                        isinstance(p_.args[1], ast.Name) and p_.args[1].id == 'set':
                    return True
                return False
            if isinstance(p_, ast.Call) and isinstance(p_.func, ast.Attribute) and \
                    p_.func.attr == 'intersection' and n in p_.args:
                return True
            if isinstance(p_, ast.Attribute) and p_.attr == 'intersection' and p_.value is n and \
                    isinstance(parent.get(id(p_)), ast.Call) and parent[id(p_)].func is p_:
                return True
            if isinstance(p_, ast.UnaryOp) and isinstance(p_.op, ast.Not):
                return True
            if isinstance(p_, (ast.If, ast.IfExp)) and p_.test is n:
                return True
            return False
        set_vars = set()
        for n in ast.walk(self.fn):
            if is_setval(n) and not consumed_ok(n):
                p_ = parent.get(id(n))
                if isinstance(p_, ast.Assign) and p_.value is n and len(p_.targets) == 1 and \
                        isinstance(p_.targets[0], ast.Name):
                    set_vars.add(p_.targets[0].id)
                elif isinstance(p_, ast.Return) and self.allow_set_return:
                    pass
                else:
                    raise Unsupported('a set value flows into an order-sensitive position')
        for n in ast.walk(self.fn):
            if isinstance(n, ast.Name) and n.id in set_vars and isinstance(n.ctx, ast.Load) and \
                    not consumed_ok(n):
                raise Unsupported('set-valued name %s is used in an order-sensitive position' % n.id)

    allow_set_return = False
    allow_listcomp = False

    def translate(self):
        self.check_no_aliased_mutation()
        if self.allow_sets:
            self.check_set_order_unobserved()
        if self.strict_escape:
            self.check_no_mutation_after_escape()
        for f_ in self.fun_params:
            if f_ in self.params or any(isinstance(n, ast.Name) and n.id == f_ and
                                        isinstance(n.ctx, ast.Store) for n in ast.walk(self.fn)):
                raise Unsupported('function parameter %s is bound' % f_)
        self.bound = set(self.params)
        body = self.block(self.fn.body, lambda: 'PNone', lambda e: e, None)
        plist = []
        for p in self.params:
            if any(a[0] == p for a in self.attr_params + self.method_params) and \
                    not self.param_used_plain(p):
                continue
            plist.append(('v_' + p, 'pyval'))
        for (p, a) in self.attr_params:
            plist.append(('v_%s_%s' % (p, a), 'pyval'))
        for (p, m) in self.method_params:
            plist.append(('v_%s_%s' % (p, m), 'pyval -> pyval'))
        for f_, ar in self.fun_params.items():
            plist.append(('v_' + f_, ' -> '.join(['pyval'] * (ar + 1))))
        self.spec = []
        for p in self.params:
            if ('v_' + p, 'pyval') in plist:
                self.spec.append(('plain', p))
        self.spec += [('attr', p, a) for (p, a) in self.attr_params]
        self.spec += [('method', p, m) for (p, m) in self.method_params]
        self.spec += [('fun', f_, ar) for f_, ar in self.fun_params.items()]
        sig = ' '.join('(%s : %s)' % pt for pt in plist)
        return 'Definition %s %s : pyval :=\n%s.\n' % (self.fn.name, sig, body), [p for p, _ in plist]

    def param_used_plain(self, p):
        """Is parameter p used other than through an attribute/method we abstracted?"""
        class V(ast.NodeVisitor):
            def __init__(s):
                s.plain = False
            def visit_Attribute(s, n):
                if isinstance(n.value, ast.Name) and n.value.id == p and \
                        ((p, n.attr) in self.attr_params or (p, n.attr) in self.method_params):
                    return
                s.generic_visit(n)
            def visit_Name(s, n):
                if n.id == p and id(n) not in self.abstracted_args:
                    s.plain = True
        v = V()
        for st in self.fn.body:
            v.visit(st)
        return v.plain


def returns_fresh(fn):
    """Does every call of fn return a fresh list that nothing else refers to?  Syntactic: the only
    return is `return x` with x a local (not a parameter) that is bound only to displays /
    constants / list()/sorted() results, and x occurs otherwise only as the receiver of
    x.append / x.insert / x.sort, in len(x), or as a test."""
    params = set(a.arg for a in fn.args.args)
    rets = [n for n in ast.walk(fn) if isinstance(n, ast.Return)]
    if len(rets) != 1 or not isinstance(rets[0].value, ast.Name):
        return False
    x = rets[0].value.id
    if x in params:
        return False
    ok = {id(rets[0].value)}
    for n in ast.walk(fn):
        if isinstance(n, ast.Assign):
            for t in n.targets:
                for e in ast.walk(t):
                    if isinstance(e, ast.Name) and e.id == x:
                        if e is not t or len(n.targets) != 1:
                            return False
                        v = n.value
                        if not (isinstance(v, (ast.List, ast.Dict)) or
                                (isinstance(v, ast.Call) and isinstance(v.func, ast.Name) and
                                 v.func.id in ('list', 'sorted'))):
                            return False
        if isinstance(n, (ast.AugAssign, ast.For)):
            for e in ast.walk(n.target):
                if isinstance(e, ast.Name) and e.id == x:
                    return False
        if isinstance(n, ast.Expr) and isinstance(n.value, ast.Call) and \
                isinstance(n.value.func, ast.Attribute) and isinstance(n.value.func.value, ast.Name) and \
                n.value.func.value.id == x and n.value.func.attr in ('append', 'insert', 'sort'):
            ok.add(id(n.value.func.value))
        if isinstance(n, ast.Call) and isinstance(n.func, ast.Name) and n.func.id == 'len' and \
                len(n.args) == 1 and isinstance(n.args[0], ast.Name) and n.args[0].id == x:
            ok.add(id(n.args[0]))
    for n in ast.walk(fn):
        if isinstance(n, ast.Name) and n.id == x and isinstance(n.ctx, ast.Load) and id(n) not in ok:
            return False
    return True


def translate_functions(src, names, known=(), specs=None):
    """Translate the named top-level functions of module source `src` (in the given order).
    If `specs` is a dict it receives name -> (python parameters, Coq parameter spec)."""
    tree = ast.parse(src)
    funs = {n.name: n for n in tree.body if isinstance(n, ast.FunctionDef)}
    out = []
    sigs = {}
    known = set(known)
    for name in names:
        if name not in funs:
            raise Unsupported('function %s not found' % name)
        tr = FunTranslator(funs[name], known_funs=known)
        text, params = tr.translate()
        out.append(text)
        sigs[name] = params
        if specs is not None:
            specs[name] = ([a.arg for a in funs[name].args.args], tr.spec)
        known.add(name)
    return '\n'.join(out), sigs


def translate_fundefs(fundefs, known_sigs=None, attr_allow=None, allow_sets=False, specs=None, **kw):
    """Translate already extracted ast.FunctionDef nodes (methods turned into functions).
    attr_allow: function name -> {parameter: [attributes]}.  If `specs` is a dict it receives
    name -> (python parameters, Coq parameter spec), as translate_functions does."""
    out, sigs = [], {}
    for fn in fundefs:
        fn = ast.parse(ast.unparse(fn)).body[0]       # normalise (fresh node identities)
        tr = FunTranslator(fn, known_sigs=known_sigs, attr_allow=(attr_allow or {}).get(fn.name),
                           allow_sets=allow_sets, **kw)
        text, params = tr.translate()
        out.append(text)
        sigs[fn.name] = params
        if specs is not None:
            specs[fn.name] = ([a.arg for a in fn.args.args], tr.spec)
    return '\n'.join(out), sigs
