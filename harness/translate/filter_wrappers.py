"""The filters' public `filter_tables` METHODS and `overlap_join_py` as pure functions over `pyval`
(Gen/FilterWrapperGen.v).  Syntactic and fail-closed like wrappers.py, whose machinery (validators,
tokenizer flag, Parallel, FrameTyper) is reused; the helper definitions py_listcomp,
convert_dataframe_to_array, split_table, get_pairs_with_missing_value are those of Gen/WrapperGen.v
(imported, not re-emitted; their source is re-checked here only to learn their signatures).

Generated definitions
  size_filter_tables_rows      filter/size_filter.py      SizeFilter.filter_tables
  prefix_filter_tables_rows    filter/prefix_filter.py    PrefixFilter.filter_tables
  position_filter_tables_rows  filter/position_filter.py  PositionFilter.filter_tables
  overlap_filter_tables_rows   filter/overlap_filter.py   OverlapFilter.filter_tables
  overlap_join_rows            join/overlap_join_py.py    overlap_join_py

Rewrites of a method `C.filter_tables(self, ltable, rtable, ...)` (in addition to (a), (c)-(g) of
wrappers.py, which apply unchanged; the label parameters are l_filter_attr / r_filter_attr):
 (s) SELF.  The object was constructed by the caller, so nothing is inlined.  A READ `self.A` of an
     attribute A that the constructor chain of C stores (`self.A = ...` in C.__init__ / Filter.__init__)
     becomes the plain parameter `self_A` ("the value of the attribute at the call").  `self` itself may
     occur in exactly one other position: as the filter-object argument of the per-chunk core
         _filter_tables_split(.., self, ..)        (directly or under delayed(..))
     at the position of the core's object parameter (size_filter / prefix_filter / position_filter /
     overlap_filter).  There it is expanded into the attributes the generated core of Gen/JoinGen.v takes in
     place of that parameter (gen_join reports them: <obj>_tokenizer, <obj>_sim_measure_type, ...), i.e.
     into self_tokenizer, self_sim_measure_type, ...; py2coq then turns self_tokenizer, which is used for
     nothing else, into the function parameter self_tokenizer_tokenize (+ self_tokenizer_qval where the
     core reads it).  Everything else -- a store to self.A, a method call self.m(..), `self.tokenizer` read
     separately, self passed anywhere else, an attribute the constructor chain does not store -- is rejected.
     Parameter order: the method's own parameters without self, cpu_count_, the self_A in the order in
     which the constructor chain stores them, then (py2coq) self_tokenizer_qval / self_tokenizer_tokenize.
 (t) NO TOKENIZER FLAG.  filter_tables does not touch the tokenizer's return_set flag (checked: no
     get_return_set / set_return_set, no try statement); `self_tokenizer_tokenize` therefore stands for
     tokenization in WHATEVER MODE the filter's tokenizer is in at the call.

Rewrites of `overlap_join_py(ltable, rtable, ..., tokenizer, threshold, ...)`:
 (a), (b) of wrappers.py: the leading validate_tokenizer(tokenizer) is dropped under the three checks;
     the flag flip (mode True) + try/finally frame is dropped after the shape check, the try body -- the
     OverlapFilter construction and the filter_tables call -- is spliced in.  tokenizer_tokenize is
     tokenization with return_set=True.
 (o) `x = OverlapFilter(args)`: the constructor is INLINED as in joins.py (JoinPreparer.inline_init):
     validate_tokenizer(tokenizer) dropped (isinstance checks only, raises or returns True),
     validate_threshold(overlap_size, 'OVERLAP') and validate_comp_op_for_sim_measure(comp_op, 'OVERLAP')
     KEPT in source order, `self.A = e` recorded in the attribute environment of x (an alias of the
     wrapper's never-rebound parameter where e is one), super(self.__class__, self).__init__(allow_missing)
     -> Filter.__init__ inlined the same way.
 (m) `t = x.filter_tables(args)` -> `t = overlap_filter_tables_rows(args.., cpu_count_, <self_A from the
     attribute environment>)`: the arguments are bound against the method's signature (keywords resolved,
     defaults filled only if constant); an attribute the method reads but the constructor did not store is
     rejected.  x may be used for nothing else; `tokenizer` may occur nowhere but as the constructor
     argument that becomes x.tokenizer.
"""
import ast
import copy
import os

import py2coq
from py2coq import Unsupported
import joins
import methods
import wrappers

HEADER = '''(* GENERATED from %s by harness/translate -- do not edit.  sha256(sources)=%s
   The filters' public filter_tables methods and overlap_join_py as functions from frame values
   (Model/Frame.v) to a frame value.  See harness/translate/filter_wrappers.py for the rewrites; per function:
%s *)
From Coq Require Import ZArith Bool List String.
From SSJ Require Import F64 PyNum FilterUtilsGen HelperGen TokenOrderingGen ValidationGen IndexGen JoinGen Frame WrapperGen.
Import ListNotations.
Open Scope string_scope.
Open Scope Z_scope.

'''

FILTER_BASE = 'py_stringsimjoin/filter/filter.py'
OVERLAP_JOIN = 'py_stringsimjoin/join/overlap_join_py.py'

# (generated name, file, class, method, per-chunk core, generated core, the core's object parameter)
FILTER_METHODS = [
    ('size_filter_tables_rows', 'py_stringsimjoin/filter/size_filter.py', 'SizeFilter', 'filter_tables',
     '_filter_tables_split', 'size_filter_tables_split_rows', 'size_filter'),
    ('prefix_filter_tables_rows', 'py_stringsimjoin/filter/prefix_filter.py', 'PrefixFilter', 'filter_tables',
     '_filter_tables_split', 'prefix_filter_tables_split_rows', 'prefix_filter'),
    ('position_filter_tables_rows', 'py_stringsimjoin/filter/position_filter.py', 'PositionFilter',
     'filter_tables', '_filter_tables_split', 'position_filter_tables_split_rows', 'position_filter'),
    ('overlap_filter_tables_rows', 'py_stringsimjoin/filter/overlap_filter.py', 'OverlapFilter', 'filter_tables',
     '_filter_tables_split', 'overlap_filter_tables_split_rows', 'overlap_filter'),
]
LABELS = ('l_filter_attr', 'r_filter_attr')

JOIN_EXPECTED = dict(wrappers.EXPECTED)
JOIN_EXPECTED['OverlapFilter'] = 'py_stringsimjoin.filter.overlap_filter'


class Chain(joins.JoinPreparer):
    """the constructor-chain machinery of joins.JoinPreparer (init_attrs, inline_init, inline_objects)
    on a function that somebody else prepared"""

    def __init__(self, repo, srcs, fn, params, objects):
        self.repo = repo
        self.srcs = srcs
        self.fn = fn
        self.params = list(params)
        self.objects = objects
        self.methods_cfg = {}
        self.validation_rel = wrappers.VALIDATION
        self.objs = {}
        self.fun_params = {}
        self.notes = []


def funcdef_stub(name, params):
    return ast.FunctionDef(name=name, args=ast.arguments(
        posonlyargs=[], args=[ast.arg(arg=p) for p in params], vararg=None, kwonlyargs=[],
        kw_defaults=[], kwarg=None, defaults=[]), body=[ast.Pass()], decorator_list=[])


# --------------------------------------------------------------------------- filter_tables methods
class FilterTablesPreparer(wrappers.WrapperPreparer):
    labels = LABELS

    def __init__(self, repo, rel, cls_name, meth, core_py, core_new, core_params, obj_param, helpers, srcs):
        self.repo, self.rel, self.fname = repo, rel, '%s.%s' % (cls_name, meth)
        self.cls_name, self.obj_param = cls_name, obj_param
        self.core_py, self.core_new, self.core_params = core_py, core_new, list(core_params)
        self.mode = None
        self.helpers = helpers
        self.notes, self.dropped, self.kept = [], [], []
        if rel not in srcs:
            srcs[rel] = open(os.path.join(repo, rel)).read()
        self.srcs = srcs
        self.tree = ast.parse(srcs[rel])
        cls = methods.find_class(self.tree, cls_name)
        self.fn = copy.deepcopy(methods.find_method(cls, meth))      # undecorated, plain signature, first param self
        methods.local_names(self.fn)                                 # no nested defs / lambdas / global
        wrappers.check_imports(self.tree, self.fn, local_defs=[core_py])
        wrappers.strip_docstring(self.fn)
        self.params = [a.arg for a in self.fn.args.args]
        # the per-chunk core as written in the module (to locate its object parameter)
        self.core_src = wrappers.find_fun(self.tree, core_py, rel)
        if self.core_src.args.defaults:
            raise Unsupported('defaults of ' + core_py)

    def tokenizer_flag(self):
        """(t) and (s): called by WrapperPreparer.prepare between the validators and Parallel(..)"""
        for n in ast.walk(self.fn):
            if isinstance(n, ast.Attribute) and n.attr in ('get_return_set', 'set_return_set'):
                raise Unsupported('%s touches the tokenizer flag (%s)' % (self.fname, n.attr))
            if isinstance(n, (ast.Try, getattr(ast, 'TryStar', ast.Try), ast.With)):
                raise Unsupported('%s inside %s' % (type(n).__name__, self.fname))
        wrappers.drop_progress(self.fn, self.notes)
        self.self_rewrite()

    def self_rewrite(self):
        prep = self
        fn = self.fn
        if 'self' in joins.assigned_anywhere(fn):
            raise Unsupported('self is rebound in ' + self.fname)
        src_params = [a.arg for a in self.core_src.args.args]
        if src_params.count(self.obj_param) != 1:
            raise Unsupported('%s has no object parameter %s' % (self.core_py, self.obj_param))
        pos = src_params.index(self.obj_param)
        nexp = len(self.core_params) - len(src_params) + 1
        expansion = self.core_params[pos:pos + nexp]
        if nexp < 0 or self.core_params != src_params[:pos] + expansion + src_params[pos + 1:]:
            raise Unsupported('parameters of the generated %s do not come from %s by expanding %s'
                              % (self.core_new, self.core_py, self.obj_param))
        chain = Chain(self.repo, self.srcs, fn, self.params, {})
        stored = chain.init_attrs(self.rel, self.cls_name)       # attributes the constructor chain stores, in order
        exp_attrs = []
        for e in expansion:
            if not e.startswith(self.obj_param + '_') or e[len(self.obj_param) + 1:] not in stored:
                raise Unsupported('%s of %s is not an attribute stored by %s.__init__' % (e, self.core_new, self.cls_name))
            exp_attrs.append(e[len(self.obj_param) + 1:])
        used, direct = [], []

        def use(a, how=None):
            if a not in used:
                used.append(a)
            if how is not None and a not in how:
                how.append(a)
            return wrappers.name('self_' + a)

        def is_self(e):
            return isinstance(e, ast.Name) and e.id == 'self'

        def core_call(c):
            f = c.func
            if isinstance(f, ast.Name) and f.id == prep.core_py:
                return True
            return isinstance(f, ast.Call) and isinstance(f.func, ast.Name) and f.func.id == 'delayed' and \
                len(f.args) == 1 and not f.keywords and isinstance(f.args[0], ast.Name) and f.args[0].id == prep.core_py
        calls = []

        class R(ast.NodeTransformer):
            def visit_Call(s, c):
                if core_call(c):
                    if c.keywords or len(c.args) != len(src_params) or any(isinstance(a, ast.Starred) for a in c.args):
                        raise Unsupported('call of %s: %d positional arguments expected' % (prep.core_py, len(src_params)))
                    if not is_self(c.args[pos]):
                        raise Unsupported('argument %s of %s is not `self`' % (prep.obj_param, prep.core_py))
                    args = [s.visit(a) for a in c.args[:pos]] + [use(a) for a in exp_attrs] + \
                           [s.visit(a) for a in c.args[pos + 1:]]
                    calls.append(1)
                    return ast.Call(func=c.func, args=args, keywords=[])
                if isinstance(c.func, ast.Attribute) and is_self(c.func.value):
                    raise Unsupported('method call self.%s(..) in %s' % (c.func.attr, prep.fname))
                return s.generic_visit(c)

            def visit_Attribute(s, n):
                if is_self(n.value):
                    if not isinstance(n.ctx, ast.Load):
                        raise Unsupported('assignment to self.%s in %s' % (n.attr, prep.fname))
                    if n.attr == 'tokenizer':
                        raise Unsupported('self.tokenizer is used separately in %s (the tokenizer may only be passed '
                                          'inside `self` to %s)' % (prep.fname, prep.core_py))
                    if n.attr not in stored:
                        raise Unsupported('self.%s is read in %s but not stored by the constructor chain of %s'
                                          % (n.attr, prep.fname, prep.cls_name))
                    return use(n.attr, direct)
                return s.generic_visit(n)

            def visit_Name(s, n):
                if n.id == 'self':
                    raise Unsupported('self is used in %s other than as self.<attribute> or as the %s argument of %s'
                                      % (prep.fname, prep.obj_param, prep.core_py))
                return n
        if not (fn.args.args and fn.args.args[0].arg == 'self'):
            raise Unsupported('first parameter of %s is not self' % self.fname)
        fn.body = [R().visit(s) for s in fn.body]
        if not calls:
            raise Unsupported('%s does not pass self to %s' % (self.fname, self.core_py))
        fn.args.args = fn.args.args[1:]
        self.params = self.params[1:]
        locs = methods.local_names(fn)
        for a in stored:
            if 'self_' + a in locs:
                raise Unsupported('name clash self_' + a)
        self.extra_params = ['self_' + a for a in stored if a in used]
        self.self_attrs = [a for a in stored if a in used]
        for n in ast.walk(fn):
            if isinstance(n, ast.Name) and n.id == 'self':
                raise Unsupported('self survives in ' + self.fname)
        self.notes.append('self.A read -> parameter self_A (A: %s); `self` as the %s argument of %s -> %s'
                          % (', '.join(direct) or '-', self.obj_param, self.core_py,
                             ', '.join('self_' + a for a in exp_attrs)))
        self.notes.append('no tokenizer flag statements: self_tokenizer_tokenize is tokenization in whatever mode '
                          'the filter\'s tokenizer is in at the call')


# --------------------------------------------------------------------------- overlap_join_py
class OverlapJoinPreparer(wrappers.WrapperPreparer):
    def __init__(self, repo, rel, fname, cls_name, cls_rel, meth, callee_new, callee_params, callee_self_attrs,
                 srcs):
        self.repo, self.rel, self.fname = repo, rel, fname
        self.cls_name, self.cls_rel, self.meth = cls_name, cls_rel, meth
        self.callee_new, self.callee_params, self.callee_self_attrs = callee_new, list(callee_params), list(callee_self_attrs)
        self.mode = True
        self.notes, self.dropped, self.kept = [], [], []
        if rel not in srcs:
            srcs[rel] = open(os.path.join(repo, rel)).read()
        self.srcs = srcs
        self.tree = ast.parse(srcs[rel])
        self.fn = wrappers.find_fun(self.tree, fname, rel)
        wrappers.check_imports(self.tree, self.fn, expected=JOIN_EXPECTED)
        wrappers.strip_docstring(self.fn)
        self.params = [a.arg for a in self.fn.args.args]

    def inline_constructor(self):
        chain = Chain(self.repo, self.srcs, self.fn, self.params, {self.cls_name: self.cls_rel})
        vtree = chain.tree_of(wrappers.VALIDATION)
        for v in joins.ISINSTANCE_ONLY:
            wrappers.raises_or_returns_true(vtree, v)
        chain.inline_objects()          # top-level `x = Cls(args)`; rejects Cls anywhere else
        if len(chain.objs) != 1:
            raise Unsupported('%s must construct exactly one %s' % (self.fname, self.cls_name))
        self.fn = chain.fn
        self.notes += chain.notes
        (self.var, self.obj), = chain.objs.items()
        for s in self.fn.body:
            if isinstance(s, ast.Expr) and isinstance(s.value, ast.Call) and isinstance(s.value.func, ast.Name) and \
                    s.value.func.id.startswith('validate_'):
                self.kept.append(ast.unparse(s.value))
        self.notes.append('kept from %s.__init__ (ValidationGen): %s' % (self.cls_name, '; '.join(self.kept)))

    def method_call(self):
        var, obj = self.var, self.obj
        cls = methods.find_class(ast.parse(self.srcs[self.cls_rel]), self.cls_name)
        mdef = methods.find_method(cls, self.meth)
        own = [a.arg for a in mdef.args.args][1:]
        if self.callee_params != own + ['cpu_count_'] + ['self_' + a for a in self.callee_self_attrs]:
            raise Unsupported('signature of generated %s' % self.callee_new)
        found = []
        out = []
        for s in self.fn.body:
            c = s.value if isinstance(s, ast.Assign) else None
            if isinstance(c, ast.Call) and isinstance(c.func, ast.Attribute) and isinstance(c.func.value, ast.Name) and \
                    c.func.value.id == var:
                if c.func.attr != self.meth:
                    raise Unsupported('method %s.%s is not configured (the object %s may only be used as %s.%s(..))'
                                      % (self.cls_name, c.func.attr, var, var, self.meth))
                if len(s.targets) != 1 or not isinstance(s.targets[0], ast.Name):
                    raise Unsupported('target of %s.%s(..)' % (var, self.meth))
                _, amap = joins.bind_args(mdef, c, '%s.%s' % (self.cls_name, self.meth))
                args = [amap[p] for p in own] + [wrappers.name('cpu_count_')]
                for a in self.callee_self_attrs:
                    if a not in obj.attr:
                        raise Unsupported('%s.%s is read by %s.%s but not stored by the constructor'
                                          % (var, a, self.cls_name, self.meth))
                    args.append(copy.deepcopy(obj.attr[a]))
                found.append(1)
                out.append(ast.Assign(targets=s.targets, value=wrappers.call(self.callee_new, *args)))
                continue
            out.append(s)
        if len(found) != 1:
            raise Unsupported('%s must call %s.%s(..) exactly once, as a top-level assignment' % (self.fname, var, self.meth))
        self.fn.body = out
        for n in ast.walk(self.fn):
            if isinstance(n, ast.Attribute) and isinstance(n.value, ast.Name) and n.value.id == var:
                raise Unsupported('use of %s.%s (the object %s may only be used as %s.%s(..), once)'
                                  % (var, n.attr, var, var, self.meth))
        for n in ast.walk(self.fn):
            if isinstance(n, ast.Name) and n.id == var:
                raise Unsupported('object %s is used other than as %s.%s(..)' % (var, var, self.meth))
        # tokenizer: only as the argument that supplies self_tokenizer
        tpos = self.callee_params.index('self_tokenizer') if 'self_tokenizer' in self.callee_params else None
        ok = set()
        for n in ast.walk(self.fn):
            if isinstance(n, ast.Call) and isinstance(n.func, ast.Name) and n.func.id == self.callee_new and \
                    tpos is not None:
                ok.add(id(n.args[tpos]))
        for n in ast.walk(self.fn):
            if isinstance(n, ast.Name) and n.id == 'tokenizer' and id(n) not in ok:
                raise Unsupported('tokenizer is used other than as the tokenizer of the %s' % self.cls_name)
        self.notes.append('%s.%s(..) -> %s(.., cpu_count_, %s)' % (var, self.meth, self.callee_new, ', '.join(
            '%s=%s' % ('self_' + a, ast.unparse(obj.attr[a])) for a in self.callee_self_attrs)))

    def prepare(self):
        a = self.fn.args
        if not all(isinstance(d, ast.Constant) for d in a.defaults):
            raise Unsupported('defaults of ' + self.fname)
        if a.defaults:
            self.notes.append('parameter defaults dropped (all arguments explicit): ' + ', '.join(
                '%s=%s' % (p.arg, ast.unparse(d)) for p, d in zip(a.args[len(a.args) - len(a.defaults):], a.defaults)))
        a.defaults = []
        self.validators()
        self.tokenizer_flag()
        wrappers.drop_progress(self.fn, self.notes)
        if 'cpu_count_' in methods.local_names(self.fn) or 'cpu_count_' in self.params:
            raise Unsupported('name clash cpu_count_')
        self.inline_constructor()
        self.method_call()
        helpers = {}
        vtree = ast.parse(self.srcs[wrappers.VALIDATION])
        for v in wrappers.KEPT_VALIDATORS:
            vf = wrappers.find_fun(vtree, v, wrappers.VALIDATION)
            helpers[v] = dict(new=v, fn=vf, params=[x.arg for x in vf.args.args], types={}, ret='val')
        helpers[self.callee_new] = dict(new=self.callee_new, fn=funcdef_stub(self.callee_new, self.callee_params),
                                        params=list(self.callee_params), types={'ltable': 'frame', 'rtable': 'frame'},
                                        ret='frame')
        ft = wrappers.FrameTyper(self.fn, ['ltable', 'rtable'], [], [], helpers, self.notes)
        if ft.run() != 'frame':
            raise Unsupported('%s does not return a frame' % self.fname)
        self.fn.args.args.append(ast.arg(arg='cpu_count_'))
        self.notes.append('cpu_count_ (multiprocessing.cpu_count(), read inside filter_tables) is the last plain parameter')
        ast.fix_missing_locations(self.fn)
        return ast.parse(ast.unparse(self.fn)).body[0]


# --------------------------------------------------------------------------- driver
def gen_filter_wrappers(repo, cores, srcs):
    """cores: what gen.gen_join reports per generated core: (python parameters, py2coq spec, function
    parameters).  Returns (text, info)."""
    # the helpers live in WrapperGen.v; re-check their sources for the signatures FrameTyper needs
    _, helpers, _ = wrappers.gen_helpers(repo, srcs)
    fresh = {'get_output_row_from_tables', 'get_output_header_from_tables', 'find_output_attribute_indices'}
    plain = set(wrappers.PRIMS) | {
        'convert_dataframe_to_array', 'split_table', 'get_pairs_with_missing_value', 'remove_redundant_attrs',
        'get_attrs_to_project', 'get_num_processes_to_launch_with_cpus', 'find_output_attribute_indices',
        'get_output_header_from_tables', 'get_output_row_from_tables'} | set(wrappers.KEPT_VALIDATORS)
    out, info, sigs = [], {}, {}
    for new, rel, cls_name, meth, core_py, core_new, obj_param in FILTER_METHODS:
        if core_new not in cores:
            raise Unsupported('gen_join does not report ' + core_new)
        pyparams, spec, funs = cores[core_new]
        if funs:
            raise Unsupported('%s has function parameters' % core_new)
        prep = FilterTablesPreparer(repo, rel, cls_name, meth, core_py, core_new, pyparams, obj_param, helpers, srcs)
        fn = prep.prepare()
        fn.name = new
        tr = py2coq.FunTranslator(fn, known_funs=plain, known_sigs={core_new: (pyparams, spec)},
                                  fresh_funs=fresh, strict_escape=True, allow_listcomp=True)
        text, params = tr.translate()
        for p, a in tr.attr_params + tr.method_params:
            if p != 'self_tokenizer':
                raise Unsupported('%s: unexpected abstracted parameter %s.%s' % (new, p, a))
        out.append(text)
        sigs[new] = ([a.arg for a in fn.args.args], tr.spec, prep.self_attrs)
        info[new] = {'source': rel, 'method': '%s.%s' % (cls_name, meth), 'signature': params,
                     'rewrites': prep.notes, 'dropped_validators': prep.dropped, 'kept_validators': prep.kept,
                     'self_attributes': prep.self_attrs, 'core': core_new,
                     'tokenizer_mode': 'as the filter\'s tokenizer is at the call', 'python': ast.unparse(fn)}
    callee = 'overlap_filter_tables_rows'
    cparams, cspec, cattrs = sigs[callee]
    prep = OverlapJoinPreparer(repo, OVERLAP_JOIN, 'overlap_join_py', 'OverlapFilter',
                               'py_stringsimjoin/filter/overlap_filter.py', 'filter_tables', callee, cparams, cattrs,
                               srcs)
    fn = prep.prepare()
    fn.name = 'overlap_join_rows'
    tr = py2coq.FunTranslator(fn, known_funs=plain, known_sigs={callee: (cparams, cspec)}, fresh_funs=fresh,
                              strict_escape=True, allow_listcomp=True)
    text, params = tr.translate()
    if tr.attr_params + tr.method_params != [('tokenizer', 'tokenize')]:
        raise Unsupported('overlap_join_rows: unexpected abstracted parameters %r' % (tr.attr_params + tr.method_params,))
    out.append(text)
    info['overlap_join_rows'] = {'source': OVERLAP_JOIN, 'function': 'overlap_join_py', 'signature': params,
                                 'rewrites': prep.notes, 'dropped_validators': prep.dropped,
                                 'kept_validators': prep.kept, 'tokenizer_mode': 'return_set=True',
                                 'callee': callee, 'python': ast.unparse(fn)}
    return '\n'.join(out), info
