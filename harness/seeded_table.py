"""Prints the markdown table of DESIGN.md section 15 from /verif/seeded/*/meta.json."""
import glob, json, os, re
V = os.path.dirname(os.path.dirname(os.path.abspath(__file__)))
print('| seeded change | property | what (short) | needs | confirmed | caught by | how it surfaced |')
print('|---|---|---|---|---|---|---|')
for d in sorted(glob.glob(os.path.join(V, 'seeded', '*'))):
    m = json.load(open(os.path.join(d, 'meta.json')))
    what = re.sub(r'\s+', ' ', m.get('what', ''))[:150].replace('|', '/')
    needs = re.sub(r'\s+', ' ', m.get('needs', ''))[:120].replace('|', '/')
    how = []
    for c, v in (m.get('checks') or {}).items():
        for l in v.get('lines', []):
            if l.startswith('VIOLATION'):
                how.append('replay' + (' (no-failing-input-found)' if 'no-failing-input-found' in l else ''))
                break
    caught = ', '.join(m.get('detected_by') or []) or '**missed**'
    print('| `%s` | %s | %s | %s | %s | %s | %s |' % (os.path.basename(d), m.get('property'), what, needs,
          'yes' if m.get('confirmed') else 'NO', caught, '; '.join(sorted(set(how))) or '-'))
