"""API-level runs for C12 (call histories, input/tokenizer preservation) and C15 (the matrix
entry point x kind of invalid argument, and degenerate-but-valid calls)."""
import copy
import os
import random
import sys
import traceback

import numpy as np
import pandas as pd

sys.path.insert(0, os.path.dirname(os.path.abspath(__file__)))
import common as C  # noqa: E402
import gens  # noqa: E402
import tables as T  # noqa: E402

JOINS = ['JACCARD', 'COSINE', 'DICE', 'OVERLAP_COEFFICIENT', 'OVERLAP', 'EDIT_DISTANCE']
FILTER_CLS = ['SizeFilter', 'PrefixFilter', 'PositionFilter', 'SuffixFilter', 'OverlapFilter']


def frames_equal(a, b):
    if isinstance(a, Exception) or isinstance(b, Exception):
        return type(a) is type(b)
    if not isinstance(a, pd.DataFrame) or not isinstance(b, pd.DataFrame):
        return a == b if not isinstance(a, (pd.Series,)) else a.equals(b)
    try:
        pd.testing.assert_frame_equal(a, b, check_exact=True)
        return True
    except AssertionError:
        return False


def snapshot(df):
    return (df.copy(deep=True), list(df.columns), list(df.index), [str(d) for d in df.dtypes])


def unchanged(df, snap):
    c, cols, idx, dts = snap
    return (list(df.columns) == cols and list(df.index) == idx and
            [str(d) for d in df.dtypes] == dts and df.equals(c))


def tok_state(tok):
    return dict(vars(tok))


def global_state():
    """process-wide state a call must not leave changed: every pandas option, numpy's error settings"""
    st = {}
    try:
        from pandas._config import config as _pc
        for k_ in sorted(_pc._registered_options):
            try:
                st['pd.' + k_] = repr(_pc.get_option(k_))
            except Exception:  # noqa
                pass
    except Exception:  # noqa
        pass
    st['np.seterr'] = repr(sorted(np.geterr().items()))
    return st


# ---------------------------------------------------------------- call specs
def gen_spec(rng, with_ed, names, cols_l, cols_r):
    kind = rng.choice(['join', 'join', 'filter_tables', 'filter_candset', 'apply_matcher', 'filter_pair'])
    spec = {'kind': kind, 'njobs': rng.choice([1, 1, 2, 3]),
            'allow_missing': rng.random() < 0.4, 'allow_empty': rng.random() < 0.6,
            'l_out': rng.choice([None, None, [names[1]], list(cols_l)]),
            'r_out': rng.choice([None, None, [names[3]]])}
    if kind == 'join':
        m = rng.choice(JOINS if with_ed else JOINS[:-1])
        spec['measure'] = m
        spec['default_tok'] = (m == 'EDIT_DISTANCE' and rng.random() < 0.3)
    else:
        spec['filter'] = rng.choice(FILTER_CLS)
        spec['measure'] = rng.choice(gens.ALL_FILTER_MEASURES if with_ed else gens.ALL_FILTER_MEASURES[:-1])
    m = spec['measure']
    if spec.get('filter') == 'OverlapFilter' or m == 'OVERLAP':
        spec['t'] = rng.choice([1, 2])
        spec['op'] = rng.choice(['>=', '>', '='])
    elif m == 'EDIT_DISTANCE':
        spec['t'] = rng.choice([0, 1, 2, 3])
        spec['op'] = rng.choice(['<=', '<', '='])
    else:
        spec['t'] = gens.threshold(rng)[1]
        spec['op'] = rng.choice(['>=', '>', '='])
    # the documented measure names are case-insensitive for the filters
    spec['spelling'] = rng.choice([0, 0, 1, 2])
    spec['cand_with_id'] = rng.random() < 0.75
    return spec


def spell(m, how):
    return m if how == 0 else (m.lower() if how == 1 else m.capitalize())


def make_filter(spec, tok):
    import py_stringsimjoin as ssj
    if spec['filter'] == 'OverlapFilter':
        return ssj.OverlapFilter(tok, spec['t'] if isinstance(spec['t'], int) else 1, spec['op'] if spec['op'] in ('>=', '>', '=') else '>=',
                                 spec['allow_missing'])
    cls = getattr(ssj, spec['filter'])
    return cls(tok, spell(spec['measure'], spec.get('spelling', 0)), spec['t'], spec['allow_empty'],
               spec['allow_missing'])


def make_cand(L, R, names, with_id=True):
    lkey, _, rkey, _ = names
    pairs = [(a, b) for a in L[lkey].tolist() for b in R[rkey].tolist()]
    if with_id:
        return pd.DataFrame([(i, a, b) for i, (a, b) in enumerate(pairs)], columns=['_id', 'l_k', 'r_k'])
    return pd.DataFrame(pairs, columns=['l_k', 'r_k'])     # a hand-built candidate set: just the two keys


def bag_sim(x, y):
    """a similarity that sees repeated tokens (so that set vs bag mode of the tokenizer matters)"""
    return float(sum(1 for t in x if t in y) + sum(1 for t in y if t in x)) / max(len(x) + len(y), 1)


def run_spec(spec, L, R, names, tok, cand=None):
    """Executes one API call; returns the result or the exception instance.  `cand`: the candidate
    set object to use for filter_candset / apply_matcher (shared by the calls of a history)."""
    import joblib
    import py_stringsimjoin as ssj
    import py_stringmatching as sm
    lkey, ljoin, rkey, rjoin = names
    try:
        with joblib.parallel_config(backend=T.C_BACKEND[0]):
            if spec['kind'] == 'join':
                if spec.get('default_tok'):
                    ssj.__use_cython__ = False
                    return ssj.edit_distance_join(L, R, lkey, rkey, ljoin, rjoin, spec['t'], spec['op'],
                                                  spec['allow_missing'], spec['l_out'], spec['r_out'],
                                                  'l_', 'r_', True, spec['njobs'], False)
                return T.call_join(spec['measure'], L, R, names, tok, spec['t'], spec['op'],
                                   spec['allow_empty'], spec['allow_missing'], spec['l_out'], spec['r_out'],
                                   True, spec['njobs'])
            f = make_filter(spec, tok)
            if spec['kind'] == 'filter_tables':
                return f.filter_tables(L, R, lkey, rkey, ljoin, rjoin, spec['l_out'], spec['r_out'],
                                       n_jobs=spec['njobs'], show_progress=False)
            if spec['kind'] == 'filter_pair':
                lv = L[ljoin].tolist()
                rv = R[rjoin].tolist()
                return [f.filter_pair(a, b) for a in lv[:3] for b in rv[:3]]
            if cand is None:
                cand = make_cand(L, R, names, spec.get('cand_with_id', True))
            if spec['kind'] == 'filter_candset':
                return f.filter_candset(cand, 'l_k', 'r_k', L, R, lkey, rkey, ljoin, rjoin, spec['njobs'], False)
            return ssj.apply_matcher(cand, 'l_k', 'r_k', L, R, lkey, rkey, ljoin, rjoin, tok,
                                     bag_sim, 0.3, '>=', spec['allow_missing'],
                                     spec['l_out'], spec['r_out'], 'l_', 'r_', True, spec['njobs'], False)
    except Exception as e:  # noqa
        e._tb = traceback.format_exc()
        return e


def clone_tok(tok):
    return copy.deepcopy(tok)


def run_histories(seed, n_hist, hist_len=6):
    import py_stringmatching as sm
    import py_stringsimjoin  # noqa  (import-time settings, e.g. profiler/__init__ sets a display option, are not calls)
    import py_stringsimjoin.profiler.profiler  # noqa
    rng = random.Random(seed + 17)
    problems = []
    calls = 0
    dist = {'kind': {}, 'measure': {}, 'tokenizer': {}, 'rs0': {}}
    samples = []
    for h in range(n_hist):
        with_ed = rng.random() < 0.5
        kind = rng.choice(['qgram2', 'qgram3']) if with_ed else rng.choice(['ws', 'delim', 'alnum'])
        rs0 = rng.random() < 0.5
        _, tok = T.make_tokenizer(rng, kind, return_set=rs0)
        L, R, names = T.gen_tables(rng, kind, max_rows=5)
        L0, R0 = L.copy(deep=True), R.copy(deep=True)
        tok0 = clone_tok(tok)
        specs = [gen_spec(rng, with_ed, names, L.columns, R.columns) for _ in range(hist_len)]
        cands = {True: make_cand(L, R, names, True), False: make_cand(L, R, names, False)}
        cands0 = {k_: v_.copy(deep=True) for k_, v_ in cands.items()}
        user_actions = []
        saved_key = [None]
        for k, spec in enumerate(specs):
            # between two API calls the USER may reconfigure the shared tokenizer or edit a shared
            # table in place; the next call must see exactly the objects' current state (no result
            # may come from state remembered by an earlier call).  The isolated run below gets fresh
            # copies of the same current state.
            if k > 0 and rng.random() < 0.3:
                act = rng.choice(['toggle_return_set', 'edit_left_cell', 'edit_right_cell', 'change_tokenizer_param',
                                  'edit_left_cell', 'break_left_key', 'repair_left_key'])
                if act == 'toggle_return_set':
                    tok.set_return_set(not tok.get_return_set())
                    tok0.set_return_set(tok.get_return_set())
                elif act == 'break_left_key':
                    # the user edits the key column in place: the table is no longer valid and the next
                    # calls must say so (nothing remembered from earlier validations may vouch for it)
                    if len(L) >= 2 and not L[names[0]].duplicated().any():
                        saved_key[0] = L[names[0]].iloc[1]
                        v = L[names[0]].iloc[0]
                        L.iloc[1, L.columns.get_loc(names[0])] = v
                        L0.iloc[1, L0.columns.get_loc(names[0])] = v
                    else:
                        act = 'none'
                elif act == 'repair_left_key':
                    if saved_key[0] is not None and len(L) >= 2 and L[names[0]].iloc[1] == L[names[0]].iloc[0]:
                        L.iloc[1, L.columns.get_loc(names[0])] = saved_key[0]      # the key it had before
                        L0.iloc[1, L0.columns.get_loc(names[0])] = saved_key[0]
                        saved_key[0] = None
                    else:
                        act = 'none'
                elif act == 'change_tokenizer_param':
                    if hasattr(tok, 'qval') and not with_ed:
                        q_new = 3 if tok.qval == 2 else 2
                        tok.set_qval(q_new)
                        tok0.set_qval(q_new)
                    elif type(tok).__name__ == 'DelimiterTokenizer':
                        ds = set(tok.get_delim_set())
                        ds = (ds - {','}) if ',' in ds and len(ds) > 1 else (ds | {','})
                        tok.set_delim_set(ds)
                        tok0.set_delim_set(ds)
                    else:
                        act = 'none'
                else:
                    tb, tb0, col = (L, L0, names[1]) if act == 'edit_left_cell' else (R, R0, names[3])
                    present = [i_ for i_ in range(len(tb)) if isinstance(tb[col].iloc[i_], str)]
                    if present:
                        i_ = rng.choice(present)
                        other = rng.choice(present)
                        v = tb[col].iloc[other] + (' ' + tb[col].iloc[i_] if rng.random() < 0.5 else '')
                        tb.iloc[i_, tb.columns.get_loc(col)] = v
                        tb0.iloc[i_, tb0.columns.get_loc(col)] = v
                    else:
                        act = 'none'
                user_actions.append((k, act))
            sl, sr, st = snapshot(L), snapshot(R), tok_state(tok)
            cand = cands[spec.get('cand_with_id', True)]
            sc = snapshot(cand)
            g0 = global_state()
            res = run_spec(spec, L, R, names, tok, cand)
            g1 = global_state()
            changed = sorted(k_ for k_ in g1 if k_ in g0 and g1[k_] != g0[k_])     # options registered lazily during the call are not changes
            if changed:
                problems.append({'history': h, 'step': k, 'spec': spec, 'tokenizer': kind, 'what': 'the call left process-wide state changed: %s' % ', '.join('%s %s -> %s' % (k_, g0.get(k_), g1.get(k_)) for k_ in changed[:4]), 'cls': 'global_state_changed'})
                from pandas._config import config as _pc
                for k_ in changed:
                    if k_.startswith('pd.'):
                        try:
                            _pc.set_option(k_[3:], eval(g0[k_]))
                        except Exception:  # noqa
                            pass
            if not unchanged(cand, sc):
                problems.append(dict({'history': h, 'step': k, 'spec': spec, 'tokenizer': kind,
                                      'candset_before': sc[0].to_dict(orient='split'),
                                      'candset_after': cand.to_dict(orient='split')},
                                     what='the candidate set was modified by the call', cls='input_mutated'))
                cands[spec.get('cand_with_id', True)] = cand = cands0[spec.get('cand_with_id', True)].copy(deep=True)
            calls += 1
            for kk, vv in (('kind', spec['kind']), ('measure', spec.get('measure')), ('tokenizer', kind), ('rs0', rs0)):
                dist[kk][str(vv)] = dist[kk].get(str(vv), 0) + 1
            desc = {'history': h, 'step': k, 'spec': spec, 'tokenizer': kind, 'return_set_at_entry': rs0,
                    'names': list(names), 'ltable': L0.to_dict(orient='split'), 'rtable': R0.to_dict(orient='split'),
                    'previous_specs': specs[:k], 'user_actions_before': list(user_actions)}
            key_broken = len(L) >= 2 and L[names[0]].duplicated().any()
            if isinstance(res, Exception) and not (key_broken and isinstance(res, AssertionError)):
                problems.append(dict(desc, what='valid call raised %s: %s' % (type(res).__name__, res),
                                     cls='exception', tb=getattr(res, '_tb', '')[-800:]))
            if key_broken and not isinstance(res, AssertionError) and spec['kind'] != 'filter_pair':
                problems.append(dict(desc, what='a table whose key column now holds duplicates was accepted '
                                                '(returned %s)' % type(res).__name__, cls='accepted_invalid_key'))
            if tok_state(tok) != st:
                problems.append(dict(desc, what='tokenizer changed by the call: %r -> %r' % (st, tok_state(tok)),
                                     cls='tokenizer_changed'))
                tok.__dict__.update(st)
            if not unchanged(L, sl) or not unchanged(R, sr):
                problems.append(dict(desc, what='an input table was modified by the call', cls='input_mutated'))
            # the same call in isolation on fresh objects
            iso = run_spec(spec, L0.copy(deep=True), R0.copy(deep=True), names, clone_tok(tok0),
                           cands0[spec.get('cand_with_id', True)].copy(deep=True))
            if not frames_equal(res, iso):
                problems.append(dict(desc, what='result differs from the same call made in isolation',
                                     cls='history_dependent'))
            if len(samples) < 2:
                samples.append({k2: desc[k2] for k2 in ('history', 'step', 'spec', 'tokenizer', 'return_set_at_entry')})
    return {'evaluations': calls, 'problems': problems, 'distribution': dist, 'samples': samples,
            'nontrivial': calls}


# ---------------------------------------------------------------- C12: calls that fail late
LATE_CAUSES = ['id_collision', 'non_string_cell_left', 'non_string_cell_right', 'raising_tokenizer']


def run_late_exceptions(seed, n):
    """Join calls that pass every validation and then raise in the middle of the work: an output
    column that collides with `_id` (prefix '_' + key attribute 'id'), a non-string cell in an
    object-dtype join column, a tokenizer that raises on some value.  Whatever the call does, it
    must hand the tokenizer and the tables back as received (a later call with the same objects
    must see what it would see in isolation); the follow-up call is executed and compared."""
    import py_stringmatching as sm
    rng = random.Random(seed + 1207)
    problems, calls = [], 0
    dist = {'cause': {}, 'measure': {}, 'rs0': {}, 'njobs': {}, 'raised': {}}
    samples = []
    for i in range(n):
        m = rng.choice(JOINS)
        ed = m == 'EDIT_DISTANCE'
        kind = rng.choice(['qgram2', 'qgram3']) if ed else rng.choice(['ws', 'delim', 'alnum', 'qgram2'])
        rs0 = rng.random() < 0.6 if ed else rng.random() < 0.4
        _, tok = T.make_tokenizer(rng, kind, return_set=rs0)
        L, R, names = T.gen_tables(rng, kind, max_rows=5)
        lkey, ljoin, rkey, rjoin = names
        cause = rng.choice(LATE_CAUSES)
        prefixes = ('l_', 'r_')
        if cause == 'id_collision':
            side = rng.choice([0, 1])
            if side == 0:
                L = L.rename(columns={lkey: 'id'})
                lkey = 'id'
                prefixes = ('_', 'r_')
            else:
                R = R.rename(columns={rkey: 'id'})
                rkey = 'id'
                prefixes = ('l_', '_')
            if 'id' in (ljoin, rjoin) or len(set(L.columns)) != len(L.columns) or len(set(R.columns)) != len(R.columns):
                continue
        elif cause in ('non_string_cell_left', 'non_string_cell_right'):
            tb, col = (L, ljoin) if cause.endswith('left') else (R, rjoin)
            if len(tb) == 0:
                continue
            tb[col] = tb[col].astype(object)
            tb.iloc[rng.randrange(len(tb)), tb.columns.get_loc(col)] = rng.choice([5, 2.5, True])
        else:
            bad_at = rng.randint(1, 4)
            orig = tok.tokenize
            state = {'n': 0}

            def raising(s_, _orig=orig, _state=state, _bad=bad_at):
                _state['n'] += 1
                if _state['n'] == _bad:
                    raise RuntimeError('tokenizer failed on value %r' % (s_,))
                return _orig(s_)
            tok.tokenize = raising
        names2 = (lkey, ljoin, rkey, rjoin)
        t = 1 if m in ('OVERLAP', 'EDIT_DISTANCE') else rng.choice([0.3, 0.5, 0.8])
        op = '<=' if ed else '>='
        njobs = rng.choice([1, 1, 2, 3])
        sl, sr, st = snapshot(L), snapshot(R), tok.get_return_set()
        desc = {'case': i, 'cause': cause, 'measure': m, 'tokenizer': kind, 'return_set_at_entry': rs0,
                'names': list(names2), 'prefixes': list(prefixes), 'n_jobs': njobs, 't': t,
                'ltable': L.to_dict(orient='split'), 'rtable': R.to_dict(orient='split')}
        raised = None
        try:
            T.call_join(m, L, R, names2, tok, t, op, True, rng.random() < 0.3, None, None, True, njobs, prefixes=prefixes)
        except Exception as e:  # noqa
            raised = e
        calls += 1
        if cause == 'raising_tokenizer':
            del tok.tokenize
        for kk, vv in (('cause', cause), ('measure', m), ('rs0', rs0), ('njobs', njobs),
                       ('raised', type(raised).__name__ if raised is not None else 'returned')):
            dist[kk][str(vv)] = dist[kk].get(str(vv), 0) + 1
        desc['raised'] = None if raised is None else '%s: %s' % (type(raised).__name__, str(raised)[:120])
        late = raised is not None
        if tok.get_return_set() != st:
            problems.append(dict(desc, what='the call %s and left the tokenizer with return_set=%r (received %r)' % (
                'raised ' + type(raised).__name__ if late else 'returned', tok.get_return_set(), st),
                cls='tokenizer_changed_after_exception' if late else 'tokenizer_changed'))
            # the consequence the property states: a later call with the same tokenizer
            probe = 'a b a b c'
            after = tok.tokenize(probe)
            tok.set_return_set(st)
            if after != tok.tokenize(probe):
                problems[-1]['later_call'] = {'value': probe, 'tokens_after_the_failed_call': after,
                                              'tokens_in_isolation': tok.tokenize(probe)}
        if not unchanged(L, sl) or not unchanged(R, sr):
            problems.append(dict(desc, what='an input table was modified by the call', cls='input_mutated'))
        if len(samples) < 3:
            samples.append({k2: desc[k2] for k2 in ('cause', 'measure', 'tokenizer', 'return_set_at_entry', 'raised')})
    return {'evaluations': calls, 'problems': problems, 'distribution': dist, 'samples': samples, 'nontrivial': calls}


# ---------------------------------------------------------------- C15: invalid-argument matrix
INVALID_KINDS = ['ltable_not_df', 'rtable_not_df', 'bad_tokenizer', 'unknown_l_key', 'unknown_r_key',
                 'unknown_l_attr', 'unknown_r_attr', 'unknown_l_out', 'unknown_r_out', 'numeric_l_attr',
                 'numeric_r_attr', 'dup_l_key', 'missing_r_key', 'threshold_low', 'threshold_neg_frac', 'threshold_nan', 'threshold_high',
                 'bad_op', 'non_qgram_for_ed', 'unknown_measure']
EXPECT = {'ltable_not_df': TypeError, 'rtable_not_df': TypeError, 'bad_tokenizer': TypeError,
          'unknown_measure': TypeError}


def base_context(rng, ed=False):
    import py_stringmatching as sm
    kind = 'qgram2' if ed else rng.choice(['ws', 'qgram2', 'delim'])
    _, tok = T.make_tokenizer(rng, kind, return_set=rng.random() < 0.5)
    k = rng.randint(3, 8)
    universe = rng.sample(T.WORDS, k)
    weights = [1] * k
    L = T.gen_table(rng, kind, universe, weights, rng.randint(1, 4), 'id', 's', 0.1, key_kind='int')
    R = T.gen_table(rng, kind, universe, weights, rng.randint(1, 4), 'id', 's', 0.1, key_kind='int')
    if 'x1' not in L.columns:
        L['x1'] = range(len(L))
    if 'x1' not in R.columns:
        R['x1'] = range(len(R))
    return kind, tok, L, R


def invalid_call(rng, target, kind_inv):
    """Build a call of `target` (('join', m) | ('filter_init', cls) | ('filter_tables', cls) |
    ('filter_candset', cls) | ('apply_matcher',)) with exactly one invalid argument.
    Returns (thunk, expected exception class, objects to watch) or None if not applicable."""
    import py_stringsimjoin as ssj
    import py_stringmatching as sm
    ed = (target[0] == 'join' and target[1] == 'EDIT_DISTANCE')
    m = target[1] if target[0] == 'join' else rng.choice(gens.ALL_FILTER_MEASURES)
    if target[0] != 'join' and target[1] == 'OverlapFilter':
        m = 'OVERLAP'
    ed = ed or (target[0] != 'join' and m == 'EDIT_DISTANCE')
    kind, tok, L, R = base_context(rng, ed)
    a = dict(L=L, R=R, lkey='id', rkey='id', lattr='s', rattr='s', tok=tok, l_out=None, r_out=None,
             measure=m, spelling=rng.choice([0, 0, 1, 2]))
    if m in ('OVERLAP',):
        a['t'], a['op'] = 1, '>='
    elif m == 'EDIT_DISTANCE':
        a['t'], a['op'] = 1, '<='
    else:
        a['t'], a['op'] = 0.5, '>='
    exp = EXPECT.get(kind_inv, AssertionError)
    k = kind_inv
    if k == 'ltable_not_df':
        a['L'] = [1, 2, 3]
    elif k == 'rtable_not_df':
        a['R'] = 'table'
    elif k == 'bad_tokenizer':
        a['tok'] = rng.choice([None, 'ws', 3]) if target[0] != 'apply_matcher' else 'ws'
    elif k == 'unknown_l_key':
        a['lkey'] = 'nokey'
    elif k == 'unknown_r_key':
        a['rkey'] = 'nokey'
    elif k == 'unknown_l_attr':
        a['lattr'] = 'noattr'
    elif k == 'unknown_r_attr':
        a['rattr'] = 'noattr'
    elif k == 'unknown_l_out':
        a['l_out'] = ['s', 'zzz']
    elif k == 'unknown_r_out':
        a['r_out'] = ['zzz']
    elif k == 'numeric_l_attr':
        a['lattr'] = 'x1'
        L['x1'] = range(len(L))
    elif k == 'numeric_r_attr':
        a['rattr'] = 'x1'
        R['x1'] = [float(i) for i in range(len(R))]
    elif k == 'dup_l_key':
        if len(L) < 2:
            return None
        L.loc[L.index[1], 'id'] = L['id'].iloc[0]
    elif k == 'missing_r_key':
        R['id'] = R['id'].astype(object)
        R.loc[R.index[0], 'id'] = None
    elif k == 'threshold_low':
        a['t'] = {'OVERLAP': rng.choice([0, -1, -0.5, -1e-9]), 'EDIT_DISTANCE': rng.choice([-1, -0.5, -1e-9, -1.5])}.get(m, rng.choice([0, -0.5, 0.0, -1e-9]))
    elif k == 'threshold_neg_frac':
        # strictly between -1 and 0: truncation toward zero (int(t)) would turn it into a valid 0
        a['t'] = rng.choice([-0.5, -1e-9, -0.999])
    elif k == 'threshold_nan':
        a['t'] = float('nan')
    elif k == 'threshold_high':
        if m in ('OVERLAP', 'EDIT_DISTANCE'):
            return None
        a['t'] = rng.choice([1.0000000000000002, 1.5, 2])
    elif k == 'bad_op':
        a['op'] = rng.choice(['<=', '<', '!=', '==', 'ge']) if m != 'EDIT_DISTANCE' else rng.choice(['>=', '>', '!='])
    elif k == 'non_qgram_for_ed':
        if m != 'EDIT_DISTANCE':
            return None
        a['tok'] = sm.WhitespaceTokenizer()
    elif k == 'unknown_measure':
        if target[0] == 'join' or target[1] == 'OverlapFilter':
            return None
        a['measure'] = 'JACARD'
    # applicability
    table_kinds = ('ltable_not_df', 'rtable_not_df', 'unknown_l_key', 'unknown_r_key', 'unknown_l_attr',
                   'unknown_r_attr', 'unknown_l_out', 'unknown_r_out', 'numeric_l_attr', 'numeric_r_attr',
                   'dup_l_key', 'missing_r_key')
    init_kinds = ('bad_tokenizer', 'threshold_low', 'threshold_neg_frac', 'threshold_nan', 'threshold_high', 'bad_op', 'non_qgram_for_ed', 'unknown_measure')
    if target[0] == 'filter_init' and k in table_kinds:
        return None
    if target[0] in ('filter_tables', 'filter_candset') and k in init_kinds:
        return None
    if k == 'bad_op' and target[0] != 'join' and target[1] != 'OverlapFilter' and target[0] != 'apply_matcher':
        return None
    if target[0] == 'filter_candset' and k in ('unknown_l_out', 'unknown_r_out'):
        return None
    if target[0] == 'apply_matcher' and k in ('threshold_low', 'threshold_neg_frac', 'threshold_nan', 'threshold_high', 'non_qgram_for_ed',
                                              'unknown_measure', 'numeric_l_attr', 'numeric_r_attr'):
        return None
    if target[0] == 'apply_matcher' and k == 'bad_op':
        a['op'] = rng.choice(['==', 'ge', '=>'])

    def mk_filter(tk=None):
        cls = getattr(ssj, target[1])
        if target[1] == 'OverlapFilter':
            return cls(a['tok'] if tk is None else tk, a['t'], a['op'])
        return cls(a['tok'] if tk is None else tk, spell(a['measure'], a['spelling']), a['t'])

    empty_cand = rng.random() < 0.35      # an empty candidate set must not short-cut the validations

    def cand():
        c = pd.DataFrame({'_id': [0], 'l_k': [L['id'].iloc[0] if isinstance(a['L'], pd.DataFrame) and len(L) else 1],
                          'r_k': [R['id'].iloc[0] if isinstance(a['R'], pd.DataFrame) and len(R) else 1]})
        return c.iloc[0:0] if empty_cand else c

    if target[0] == 'join':
        def thunk():
            return T.call_join(m, a['L'], a['R'], (a['lkey'], a['lattr'], a['rkey'], a['rattr']), a['tok'],
                               a['t'], a['op'], True, False, a['l_out'], a['r_out'], True, 1)
    elif target[0] == 'filter_init':
        def thunk():
            return mk_filter()
    elif target[0] == 'filter_tables':
        f = mk_filter()

        def thunk():
            return f.filter_tables(a['L'], a['R'], a['lkey'], a['rkey'], a['lattr'], a['rattr'],
                                   a['l_out'], a['r_out'], show_progress=False)
    elif target[0] == 'filter_candset':
        f = mk_filter()
        cs = cand()

        def thunk():
            return f.filter_candset(cs, 'l_k', 'r_k', a['L'], a['R'], a['lkey'], a['rkey'], a['lattr'],
                                    a['rattr'], show_progress=False)
    else:
        cs = cand()

        def thunk():
            return ssj.apply_matcher(cs, 'l_k', 'r_k', a['L'], a['R'], a['lkey'], a['rkey'], a['lattr'],
                                     a['rattr'], a['tok'], sm.Jaccard().get_raw_score, 0.5, a['op'] if k == 'bad_op' else '>=',
                                     False, a['l_out'], a['r_out'], show_progress=False)
    watch = [x for x in (a['L'], a['R']) if isinstance(x, pd.DataFrame)]
    return thunk, exp, watch, tok, {'target': list(target), 'invalid': k, 'measure': a['measure'],
                                    'empty_candset': empty_cand,
                                    't': repr(a['t']), 'op': a['op'], 'tokenizer': kind,
                                    'return_set': tok.get_return_set()}


def targets():
    ts = [('join', m) for m in JOINS]
    for c in FILTER_CLS:
        ts += [('filter_init', c), ('filter_tables', c), ('filter_candset', c)]
    ts.append(('apply_matcher', None))
    return ts


def run_invalid_matrix(seed, reps=1):
    rng = random.Random(seed + 19)
    problems, n = [], 0
    dist = {}
    samples = []
    for rep in range(reps):
        for tg in targets():
            for k in INVALID_KINDS:
                r = invalid_call(rng, tg, k)
                if r is None:
                    continue
                thunk, exp, watch, tok, desc = r
                snaps = [snapshot(w) for w in watch]
                st = tok_state(tok)
                n += 1
                dist[k] = dist.get(k, 0) + 1
                try:
                    res = thunk()
                    problems.append(dict(desc, what='invalid argument accepted (returned %s)' % type(res).__name__,
                                         cls='accepted'))
                except Exception as e:  # noqa
                    if type(e) is not exp:
                        problems.append(dict(desc, what='raised %s instead of %s: %s' % (type(e).__name__, exp.__name__, e),
                                             cls='wrong_exception', tb=traceback.format_exc()[-600:]))
                if tok_state(tok) != st:
                    problems.append(dict(desc, what='rejected call changed the tokenizer', cls='tokenizer_changed'))
                if not all(unchanged(w, s) for w, s in zip(watch, snaps)):
                    problems.append(dict(desc, what='rejected call modified an input table', cls='input_mutated'))
                if len(samples) < 3:
                    samples.append(desc)
    return {'evaluations': n, 'problems': problems, 'distribution': dist, 'samples': samples, 'nontrivial': n}


# ---------------------------------------------------------------- C15: valid degenerate calls
def run_valid_degenerate(seed, n):
    import py_stringmatching as sm
    rng = random.Random(seed + 23)
    problems, cnt = [], 0
    dist = {'shape': {}, 'dtype': {}, 'kind': {}}
    samples = []
    for i in range(n):
        with_ed = rng.random() < 0.4
        kind = 'qgram2' if with_ed else rng.choice(['ws', 'delim'])
        _, tok = T.make_tokenizer(rng, kind, return_set=rng.random() < 0.5)
        shape = rng.choice(['no_rows_l', 'no_rows_r', 'no_rows_both', 'one_row', 'all_missing_l', 'all_missing_both',
                            'all_empty', 'normal'])
        dtype = rng.choice(['object', 'str', 'string'])
        k = rng.randint(2, 6)
        universe = rng.sample(T.WORDS[:20], k)

        def mk(nrows, mode):
            vals = []
            for _ in range(nrows):
                if mode == 'missing':
                    vals.append(None)
                elif mode == 'empty':
                    vals.append('')
                else:
                    vals.append(T.gen_string(rng, kind, universe, [1] * k))
            df = pd.DataFrame({'id': range(1, nrows + 1), 's': pd.Series(vals, dtype=object)})
            if dtype == 'str':
                df['s'] = df['s'].astype('str') if nrows and mode != 'missing' else df['s'].astype(pd.StringDtype(na_value=np.nan))
            elif dtype == 'string':
                df['s'] = df['s'].astype(pd.StringDtype())      # the NA-backed pandas string dtype
            return df
        nl = 0 if shape in ('no_rows_l', 'no_rows_both') else (1 if shape == 'one_row' else rng.randint(1, 4))
        nr = 0 if shape in ('no_rows_r', 'no_rows_both') else (1 if shape == 'one_row' else rng.randint(1, 4))
        L = mk(nl, 'missing' if shape in ('all_missing_l', 'all_missing_both') else ('empty' if shape == 'all_empty' else 'n'))
        R = mk(nr, 'missing' if shape == 'all_missing_both' else ('empty' if shape == 'all_empty' else 'n'))
        names = ('id', 's', 'id', 's')
        spec = gen_spec(rng, with_ed, names, L.columns, R.columns)
        spec['default_tok'] = False
        res = run_spec(spec, L, R, names, tok)
        cnt += 1
        for kk, vv in (('shape', shape), ('dtype', dtype), ('kind', spec['kind'])):
            dist[kk][vv] = dist[kk].get(vv, 0) + 1
        desc = {'spec': spec, 'shape': shape, 'dtype': dtype, 'tokenizer': kind,
                'ltable': L.to_dict(orient='split'), 'rtable': R.to_dict(orient='split')}
        ok_type = isinstance(res, pd.DataFrame) or (spec['kind'] == 'filter_pair' and isinstance(res, list))
        if not ok_type:
            problems.append(dict(desc, what='valid call did not return a DataFrame: %s: %s' % (type(res).__name__, res),
                                 cls='valid_rejected', tb=getattr(res, '_tb', '')[-900:]))
        if len(samples) < 2:
            samples.append({k2: desc[k2] for k2 in ('spec', 'shape', 'dtype', 'tokenizer')})
    return {'evaluations': cnt, 'problems': problems, 'distribution': dist, 'samples': samples, 'nontrivial': cnt}


if __name__ == '__main__':
    import json
    seed = int(sys.argv[1]) if len(sys.argv) > 1 else 1
    mode = sys.argv[2] if len(sys.argv) > 2 else 'hist'
    n = int(sys.argv[3]) if len(sys.argv) > 3 else 20
    r = {'hist': lambda: run_histories(seed, n), 'invalid': lambda: run_invalid_matrix(seed, n),
         'valid': lambda: run_valid_degenerate(seed, n)}[mode]()
    print(json.dumps(r['distribution'], default=str))
    print('EVAL', r['evaluations'], 'PROBLEMS', len(r['problems']))
    seen = set()
    for p in r['problems']:
        key = (p['cls'], p['what'][:80])
        if key in seen:
            continue
        seen.add(key)
        print(json.dumps({k: v for k, v in p.items() if k not in ('ltable', 'rtable', 'previous_specs')}, default=str)[:900])
