"""Generators of DataFrames / tokenizers / call parameters, execution of the real joins and
filters, and abstraction of a concrete call into the Coq `jcase` literal + observed rows."""
import math
import random

import numpy as np
import pandas as pd

import common as C
import gens

WORDS = ['a', 'b', 'c', 'd', 'e', 'f', 'g', 'h', 'i', 'j', 'k', 'l', 'm', 'n', 'o', 'p',
         'aa', 'ab', 'ba', 'bb', 'zz', 'q1', 'x9', 'été', '中', 'Z', 'A0',
         'B', 'Aa', 'ZZ']          # spellings that differ from another word only in case


def make_tokenizer(rng, kind=None, return_set=None):
    import py_stringmatching as sm
    kind = kind or rng.choice(['ws', 'ws', 'delim', 'qgram2', 'qgram3', 'alnum', 'qgram2np'])
    rs = rng.random() < 0.6 if return_set is None else return_set
    if kind == 'ws':
        return kind, sm.WhitespaceTokenizer(return_set=rs)
    if kind == 'delim':
        return kind, sm.DelimiterTokenizer(delim_set=[','], return_set=rs)
    if kind == 'qgram2':
        return kind, sm.QgramTokenizer(qval=2, return_set=rs)
    if kind == 'qgram3':
        return kind, sm.QgramTokenizer(qval=3, return_set=rs)
    if kind == 'qgram2np':
        return kind, sm.QgramTokenizer(qval=2, padding=False, return_set=rs)
    if kind == 'alnum':
        return kind, sm.AlphanumericTokenizer(return_set=rs)
    raise ValueError(kind)


def gen_string(rng, kind, universe, weights, maxlen=6):
    """A string whose tokens (under the tokenizer kind) come mostly from `universe`."""
    r = rng.random()
    if r < 0.06:
        return ''
    if r < 0.10:
        return {'ws': '  ', 'delim': ',', 'alnum': ' ,; ', 'qgram2np': 'x', 'qgram3': '', 'qgram2': ''}.get(kind, ' ')
    n = rng.choice([1, 1, 2, 2, 3, 3, 4, 5, maxlen])
    toks = rng.choices(universe, weights=weights, k=n)
    if rng.random() < 0.7:
        seen = []
        for t in toks:
            if t not in seen:
                seen.append(t)
        toks = seen
    if kind == 'delim':
        return ','.join(toks)
    if kind.startswith('qgram'):
        return ''.join(toks)[:10]
    return ' '.join(toks)


def gen_table(rng, kind, universe, weights, nrows, key_name, join_name, missing_p, extra_cols=True,
              key_kind=None):
    strings = []
    for _ in range(nrows):
        if rng.random() < missing_p:
            strings.append(None if rng.random() < 0.5 else np.nan)
        else:
            strings.append(gen_string(rng, kind, universe, weights))
    # duplicates are interesting
    if nrows >= 2 and rng.random() < 0.4:
        i, j = rng.randrange(nrows), rng.randrange(nrows)
        strings[i] = strings[j]
    # a column mixes None and NaN only if pandas keeps them (object dtype does)
    key_kind = key_kind or rng.choice(['int', 'int', 'int_shuffled', 'str'])
    if key_kind == 'int':
        keys = list(range(1, nrows + 1))
    elif key_kind == 'int_shuffled':
        keys = rng.sample(range(100, 100 + 3 * nrows + 3), nrows)
    else:
        keys = ['k%d' % i for i in rng.sample(range(max(50, 2 * nrows)), nrows)]
    cols = {key_name: keys, join_name: pd.Series(strings, dtype=object)}
    order = [key_name, join_name]
    if extra_cols:
        # some extra column names are substrings of the key / join names on purpose
        pool = [c for c in ['x1', 'x2', 'x3', 'id', 'i', 'd', 'str', 'A', 'attr']
                if c not in (key_name, join_name)]
        for cn in rng.sample(pool, rng.randint(0, 3)):
            kind_c = rng.choice(['i', 'f', 's', 's', 'i', 'f', 'o'])
            if kind_c == 'o':
                # arbitrary Python objects in an object column (Decimal as read from a database NUMERIC
                # column, tuples, large ints): a projected cell must be THE source cell, not a coerced copy
                import decimal
                cols[cn] = pd.Series([rng.choice([decimal.Decimal('0.10'), decimal.Decimal('2.675'),
                                                  decimal.Decimal('250.00'), 2 ** 70, ('a', 1), None])
                                      for _ in range(nrows)], dtype=object)
            elif kind_c == 'i':
                cols[cn] = [rng.randint(-5, 5) for _ in range(nrows)]
            elif kind_c == 'f':
                cols[cn] = [rng.choice([0.5, 1.25, -3.0, float('nan')]) for _ in range(nrows)]
            else:
                cols[cn] = pd.Series([rng.choice(['u', 'v', None]) for _ in range(nrows)], dtype=object)
            order.append(cn)
        rng.shuffle(order)
    df = pd.DataFrame(cols, columns=order)
    if key_kind == 'str':
        df[key_name] = df[key_name].astype(object)
    df[join_name] = df[join_name].astype(object)
    r = rng.random()
    if nrows and r < 0.45:
        df.index = rng.sample(range(1000), nrows)
    elif nrows and r < 0.6:
        # repeated index labels (e.g. a pd.concat of batches): valid input, only keys must be unique
        df.index = [rng.randint(0, max(1, nrows // 2)) for _ in range(nrows)]
    return df


def gen_tables(rng, kind, max_rows=6, missing_p=0.12, universe_size=None):
    k = universe_size or rng.randint(2, 10)
    universe = rng.sample(WORDS, k)
    # skewed frequencies so that the global order differs from the alphabetical one
    weights = [rng.choice([1, 1, 2, 4, 8]) for _ in universe]
    nl = rng.choice([0, 1, 2, 3, 4, 5, max_rows])
    nr = rng.choice([0, 1, 2, 3, 4, 5, max_rows])
    lkey, ljoin = rng.choice([('id', 's'), ('lid', 'lstr'), ('A.id', 'A.attr')])
    rkey, rjoin = rng.choice([('id', 's'), ('rid', 'rstr'), ('B.id', 'B.attr')])
    mp = missing_p if rng.random() < 0.5 else 0.0
    L = gen_table(rng, kind, universe, weights, nl, lkey, ljoin, mp)
    R = gen_table(rng, kind, universe, weights, nr, rkey, rjoin, mp)
    return L, R, (lkey, ljoin, rkey, rjoin)


# ------------------------------------------------------------------ abstraction into Coq
class Interner:
    """Order-preserving interning of tokens (strings) and identity interning of keys."""

    def __init__(self):
        self.keys = {}

    def key(self, k):
        if isinstance(k, (int, np.integer)) and not isinstance(k, bool):
            return int(k)
        kk = ('s', str(k))
        if kk not in self.keys:
            self.keys[kk] = 10 ** 6 + len(self.keys)
        return self.keys[kk]


def is_missing(v):
    return v is None or (isinstance(v, float) and math.isnan(v)) or v is pd.NA


def abstract_tables(L, R, names, tokenize, with_strings=False):
    """rows as (key, None | (codepoints, token ids)) for both tables + the token interning."""
    lkey, ljoin, rkey, rjoin = names
    toks = {}
    rows_l, rows_r = [], []
    raw = []
    for df, kcol, jcol, out in ((L, lkey, ljoin, rows_l), (R, rkey, rjoin, rows_r)):
        for k, v in zip(df[kcol].tolist(), df[jcol].tolist()):
            if is_missing(v):
                out.append((k, None))
            else:
                tl = list(tokenize(v))
                for t in tl:
                    toks[t] = None
                out.append((k, (v, tl)))
    for i, t in enumerate(sorted(toks)):
        toks[t] = i + 1
    it = Interner()

    def conv(rows):
        res = []
        for k, v in rows:
            if v is None:
                res.append((it.key(k), None))
            else:
                s, tl = v
                res.append((it.key(k), ([ord(ch) for ch in s] if with_strings else [],
                                        [toks[t] for t in tl])))
        return res
    return conv(rows_l), conv(rows_r), it, toks


def row_lit(r):
    k, v = r
    if v is None:
        return '(%s, None)' % C.z(k)
    s, tl = v
    return '(%s, Some (%s, %s))' % (C.z(k), C.zlist(s), C.zlist(tl))


def entry_lit(entry):
    kind = entry[0]
    if kind == 'join':
        return '(EJoin %s)' % C.coq_str(entry[1])
    if kind == 'filter':
        return '(EFilter %s %s)' % ({'size': 'KSize', 'prefix': 'KPrefix', 'position': 'KPosition', 'suffix': 'KSuffix'}[entry[1]],
                                    C.coq_str(entry[2]))
    if kind == 'overlap_filter':
        return 'EOverlapFilter'
    raise ValueError(entry)


def jcase_lit(entry, t, q, op, allow_empty, allow_missing, with_score, njobs, cpus, rows_l, rows_r):
    b = lambda x: 'true' if x else 'false'
    return ('{| j_entry := %s; j_t := %s; j_q := %s; j_op := %s; j_allow_empty := %s; '
            'j_allow_missing := %s; j_with_score := %s; j_njobs := %s; j_cpus := %s;\n'
            '   j_L := [%s];\n   j_R := [%s] |}' % (
                entry_lit(entry), C.pyval_lit(t), C.z(q), C.coq_str(op), b(allow_empty),
                b(allow_missing), b(with_score), C.z(njobs), C.z(cpus),
                '; '.join(row_lit(r) for r in rows_l), '; '.join(row_lit(r) for r in rows_r)))


def obs_lit(df, lcol, rcol, it, with_score):
    rows = []
    scores = df['_sim_score'].tolist() if with_score and '_sim_score' in df.columns else [None] * len(df)
    for lk, rk, s in zip(df[lcol].tolist(), df[rcol].tolist(), scores):
        if s is None or (isinstance(s, float) and math.isnan(s)):
            sl = 'PNone'
        else:
            sl = C.pyval_lit(s)
        rows.append('(%s, %s, %s)' % (C.z(it.key(lk)), C.z(it.key(rk)), sl))
    return '[%s]' % '; '.join(rows)


# ------------------------------------------------------------------ running the implementation
JOIN_FUNCS = {}


def join_func(measure):
    if not JOIN_FUNCS:
        from py_stringsimjoin.join.jaccard_join_py import jaccard_join_py
        from py_stringsimjoin.join.cosine_join_py import cosine_join_py
        from py_stringsimjoin.join.dice_join_py import dice_join_py
        from py_stringsimjoin.join.overlap_join_py import overlap_join_py
        from py_stringsimjoin.join.overlap_coefficient_join_py import overlap_coefficient_join_py
        from py_stringsimjoin.join.edit_distance_join_py import edit_distance_join_py
        JOIN_FUNCS.update({'JACCARD': jaccard_join_py, 'COSINE': cosine_join_py, 'DICE': dice_join_py,
                           'OVERLAP': overlap_join_py,
                           'OVERLAP_COEFFICIENT': overlap_coefficient_join_py,
                           'EDIT_DISTANCE': edit_distance_join_py})
    return JOIN_FUNCS[measure]


def call_join(measure, L, R, names, tok, t, op, allow_empty, allow_missing, l_out, r_out,
              with_score, njobs, prefixes=('l_', 'r_')):
    import joblib
    lkey, ljoin, rkey, rjoin = names
    f = join_func(measure)
    kw = dict(comp_op=op, allow_missing=allow_missing, l_out_attrs=l_out, r_out_attrs=r_out,
              l_out_prefix=prefixes[0], r_out_prefix=prefixes[1], out_sim_score=with_score,
              n_jobs=njobs, show_progress=False)
    if measure == 'EDIT_DISTANCE':
        args = (L, R, lkey, rkey, ljoin, rjoin, t)
        kw['tokenizer'] = tok
    else:
        args = (L, R, lkey, rkey, ljoin, rjoin, tok, t)
        if measure != 'OVERLAP':
            kw['allow_empty'] = allow_empty
    with joblib.parallel_config(backend=C_BACKEND[0]):
        return f(*args, **kw)


C_BACKEND = ['threading']


def set_mode_tokenize(tok):
    """Tokenize as the set-similarity joins do (return_set forced on), leaving tok untouched."""
    def f(s):
        old = tok.get_return_set()
        tok.set_return_set(True)
        try:
            return tok.tokenize(s)
        finally:
            tok.set_return_set(old)
    return f


def bag_mode_tokenize(tok):
    def f(s):
        old = tok.get_return_set()
        tok.set_return_set(False)
        try:
            return tok.tokenize(s)
        finally:
            tok.set_return_set(old)
    return f


def cpu_count():
    import multiprocessing
    return multiprocessing.cpu_count()
