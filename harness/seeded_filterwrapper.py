"""Seeded SOURCE mutations for corr_filterwrappergen: each is made in a copy of the repo (/tmp/w2_mut_src_<name>).
 (1) the REAL code of the mutant against Gen/FilterWrapperGen.v generated from the PRISTINE source: differ > 0;
 (2) FilterWrapperGen.v regenerated from the mutant into a scratch copy of Gen (<copy>/_coq/Gen; the other
     directories are symlinks to the compiled tree) and compiled there: differ = 0 again.
Usage: seeded_filterwrapper.py <pristine repo> <compiled coq tree> [n] [seed]"""
import json
import os
import shutil
import subprocess
import sys
import time

HERE = os.path.dirname(os.path.abspath(__file__))
PY = sys.executable

MUTATIONS = [
    ('size_missing_pairs_score_true', 'py_stringsimjoin/filter/size_filter.py',
     '''                                            l_out_prefix, r_out_prefix,
                                            False, show_progress)''',
     '''                                            l_out_prefix, r_out_prefix,
                                            True, show_progress)'''),
    ('overlap_missing_pairs_prefixes_swapped', 'py_stringsimjoin/filter/overlap_filter.py',
     '''                                            l_out_attrs, r_out_attrs,
                                            l_out_prefix, r_out_prefix,
                                            out_sim_score, show_progress)
            output_table = pd.concat([output_table, missing_pairs])''',
     '''                                            l_out_attrs, r_out_attrs,
                                            r_out_prefix, l_out_prefix,
                                            out_sim_score, show_progress)
            output_table = pd.concat([output_table, missing_pairs])'''),
    ('position_redundant_attrs_wrong_key', 'py_stringsimjoin/filter/position_filter.py',
     '''        r_out_attrs = remove_redundant_attrs(r_out_attrs, r_key_attr)''',
     '''        r_out_attrs = remove_redundant_attrs(r_out_attrs, l_key_attr)'''),
    ('overlap_join_comp_op_ignored', 'py_stringsimjoin/join/overlap_join_py.py',
     '''        overlap_filter = OverlapFilter(tokenizer, threshold, comp_op,
                                       allow_missing)''',
     '''        overlap_filter = OverlapFilter(tokenizer, threshold, '>=',
                                       allow_missing)'''),
    ('prefix_keeps_missing_right_rows', 'py_stringsimjoin/filter/prefix_filter.py',
     '''                                                  r_filter_attr) \n\n        # computes the actual number of jobs''',
     '''                                                  r_filter_attr, False)\n\n        # computes the actual number of jobs'''),
    ('overlap_missing_pairs_when_not_allowed', 'py_stringsimjoin/filter/overlap_filter.py',
     '''        if self.allow_missing:
            missing_pairs''', '''        if not self.allow_missing:
            missing_pairs'''),
    ('position_id_from_one', 'py_stringsimjoin/filter/position_filter.py',
     '''        output_table.insert(0, '_id', range(0, len(output_table)))''',
     '''        output_table.insert(0, '_id', range(1, len(output_table) + 1))'''),
    ('size_jobs_threshold', 'py_stringsimjoin/filter/size_filter.py',
     '''        if n_jobs <= 1:
            # if n_jobs is 1, do not use any parallel code.''',
     '''        if n_jobs < 1:
            # if n_jobs is 1, do not use any parallel code.'''),
]


def harness(repo, coq, seed, n, tag):
    env = dict(os.environ, VERIF_COQ=coq, PYTHONPATH='%s:%s' % (repo, HERE), PYTHONWARNINGS='ignore',
               PYTHONHASHSEED='0', VERIF_CASE_TAG=tag)
    code = ('import json, corr_filterwrappergen as F\nr = F.run(%d, %d)\n'
            'print("RESULT " + json.dumps([len(r["differ"]), len(r["exceptions"]), r["evaluations"], '
            'sorted(set(d["call"]["function"] for d in r["differ"]))]))' % (seed, n))
    t0 = time.time()
    p = subprocess.run([PY, '-c', code], cwd=HERE, env=env, capture_output=True, text=True)
    for line in p.stdout.splitlines():
        if line.startswith('RESULT '):
            return json.loads(line[7:]) + [round(time.time() - t0, 1)]
    raise RuntimeError(p.stdout[-2000:] + p.stderr[-3000:])


def main():
    repo, coq = sys.argv[1], sys.argv[2]
    n = int(sys.argv[3]) if len(sys.argv) > 3 else 250
    seed = int(sys.argv[4]) if len(sys.argv) > 4 else 1
    print('pristine: differ/errors/cases/functions/wall =', harness(repo, coq, seed, n, 'seedp'))
    for name, rel, old, new in MUTATIONS:
        d = '/tmp/w2_mut_src_' + name
        shutil.rmtree(d, ignore_errors=True)
        shutil.copytree(repo, d)
        p = os.path.join(d, rel)
        s = open(p).read()
        assert s.count(old) == 1, (name, s.count(old))
        open(p, 'w').write(s.replace(old, new))
        r1 = harness(d, coq, seed, n, 'seed_' + name)
        # scratch tree with the Gen file regenerated from the mutant
        sc = os.path.join(d, '_coq')
        os.makedirs(os.path.join(sc, 'Gen'))
        for sub in ('Num', 'Base', 'Ext', 'Model', 'Spec', 'Proofs', 'Properties'):
            os.symlink(os.path.join(coq, sub), os.path.join(sc, sub))
        for f in os.listdir(os.path.join(coq, 'Gen')):
            if not f.startswith('FilterWrapperGen.'):
                shutil.copy2(os.path.join(coq, 'Gen', f), os.path.join(sc, 'Gen', f))
        g = subprocess.run([PY, os.path.join(HERE, 'translate', 'gen.py'), '--repo', d, '--out', os.path.join(sc, 'Gen'),
                            '--only', 'FilterWrapperGen.v'], capture_output=True, text=True)
        if g.returncode != 0:
            print('%-42s real-vs-pristine-Gen differ=%d (of %d, %s) | regeneration REJECTED: %s'
                  % (name, r1[0], r1[2], ','.join(r1[3]), g.stdout.strip()[-300:]))
            continue
        q = sum((['-Q', sub, 'SSJ'] for sub in ('Num', 'Base', 'Gen', 'Ext', 'Model', 'Spec', 'Proofs', 'Properties')), [])
        c = subprocess.run(['timeout', '600', 'coqc'] + q + ['Gen/FilterWrapperGen.v'], cwd=sc, capture_output=True, text=True)
        assert c.returncode == 0, c.stderr[-2000:]
        r2 = harness(d, sc, seed, n, 'seedr_' + name)
        print('%-42s real-vs-pristine-Gen differ=%d errors=%d (of %d; %s; %.0fs) | after regeneration from the mutant '
              'differ=%d errors=%d (%.0fs)' % (name, r1[0], r1[1], r1[2], ','.join(r1[3]), r1[4], r2[0], r2[1], r2[4]))


if __name__ == '__main__':
    main()
