"""Writes MANIFEST.json from the table below (kept in one place so it stays valid)."""
import json, os
V = os.path.dirname(os.path.dirname(os.path.abspath(__file__)))
BASE_CMD = "cd /repo && /venv/bin/python -m pytest -ra -q -p no:cacheprovider --timeout=900 --continue-on-collection-errors"
CLAIMED = {
 'C01': dict(text="Machine-checked proofs (Coq 8.16) about a model of the join pipeline whose arithmetic is regenerated from filter_utils.py on every run: prefix-filter lemma, position-filter loop invariant, size/overlap/prefix arithmetic over all doubles in the envelope; the hand-written parts of the model are tied to the code by evaluating model and declarative completeness spec inside Coq on whole join calls.",
             note="Trusted: Coq kernel+vm_compute, translator, PyNum Python-semantics library, hand models (tied by differential runs), real-number axioms through Flocq for the arithmetic lemmas. Envelope 2^-30<=t<=1, sizes<2^20. Cython path not modelled.",
             technique="Coq proof (Flocq arithmetic + list combinatorics) over translated formulas; in-Coq evaluation of model and spec on implementation output", ref="6 C01"),
}
NOT_YET = {}
for i in range(1, 18):
    pid = 'C%02d' % i
    if pid not in CLAIMED:
        NOT_YET[pid] = 'check not built yet in this snapshot (work in progress; see DESIGN.md section 6)'
def main():
    checks = []
    for pid, d in sorted(CLAIMED.items()):
        checks.append({
            'property_id': pid,
            'quick_cmd': './check %s --tier quick' % pid,
            'thorough_cmd': './check %s --tier thorough' % pid,
            'evidence_file': '/verif/evidence/%s.json' % pid,
            'replay_cmd_template': './check %s --replay {path}' % pid,
            'engine': 'coq-proofs+correspondence',
            'level_claimed': {'category': 'proof', 'text': d['text'], 'design_ref': 'DESIGN.md §' + d['ref']},
            'level_note': d['note'],
            'technique': d['technique'],
        })
    m = {
        'version': 1,
        'setup_cmd': './check --setup',
        'hooks': {'guard': 'PY_STRINGSIMJOIN_VERIF', 'enable': 'no hooks are needed: the harness imports the pure-Python entry points directly; the guard name is reserved and exported by ./check',
                  'baseline_off_cmd': BASE_CMD, 'source_commits': [], 'add_only': True},
        'engines': [
            {'name': 'coq-proofs', 'path': 'coq/', 'serves_properties': sorted(CLAIMED), 'kind_free_text': 'Coq 8.16.1 development: models, specs, proofs; Properties/Cxx.v hold the closing theorems'},
            {'name': 'translator', 'path': 'harness/translate/', 'serves_properties': sorted(CLAIMED), 'kind_free_text': 'fail-closed Python ast -> Gallina translator regenerating coq/Gen on every run'},
            {'name': 'correspondence', 'path': 'harness/', 'serves_properties': sorted(CLAIMED), 'kind_free_text': 'differential runs: model and specs evaluated inside Coq (vm_compute) on the implementation\'s observed behaviour'},
        ],
        'checks': checks,
        'not_applicable': [{'property_id': k, 'reason': v} for k, v in sorted(NOT_YET.items())],
        'notes': 'All checks rebuild from /repo\'s working tree: coq/Gen is regenerated and the implementation is imported from /repo.',
    }
    json.dump(m, open(os.path.join(V, 'MANIFEST.json'), 'w'), indent=1)
if __name__ == '__main__':
    main()
