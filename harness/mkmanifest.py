"""Writes MANIFEST.json from the table below (kept in one place so it stays valid)."""
import json, os
V = os.path.dirname(os.path.dirname(os.path.abspath(__file__)))
BASE_CMD = "cd /repo && /venv/bin/python -m pytest -ra -q -p no:cacheprovider --timeout=900 --continue-on-collection-errors"
TB = ("Trusted: Coq 8.16.1 kernel + vm_compute; the fail-closed Python-ast -> Gallina translator (harness/translate); "
      "the Python-semantics library Num/PyNum.v, Num/F64.v; hand-written models in coq/Model, coq/Ext: proved to be refined by "
      "the code regenerated from the source on every run (Filters, Joins, Api, Matcher, Projection, Profiler, TokenOrdering; "
      "Proofs/*Refine*.v, CodeLevel*.v) and additionally compared with the real functions by differential runs evaluated "
      "inside Coq (sampled); Suffix and Converter models are tied by differential runs only; the frame model Model/Frame.v "
      "(rows + header, no index, no dtypes) stands for pandas; pandas / joblib / py_stringmatching / CPython are modelled, not verified; "
      "Cython twins not built, not modelled. ")
AX = "Axioms (Print Assumptions): the stdlib real-number axioms through Flocq (sig_forall_dec, sig_not_dec, functional_extensionality_dep, classic) "
CLAIMED = {
 'C01': dict(ref='6 C01',
   text="Coq theorems: for all five set-similarity joins the API-level model (dropna, min(n_jobs,rows), GENERATED split_table, per-chunk core, concat, missing pairs) returns every qualifying pair (C01_api, C01_api_total), resting on: prefix-filter lemma on sorted lists, position-filter loop invariant, size/overlap/prefix arithmetic of the GENERATED filter_utils formulas over all doubles in the envelope (Flocq), injectivity of the token ranking, the partition property of the generated split_table; the REGENERATED index/position_index.py + PositionFilter.find_candidates and utils/token_ordering.py are proved to refine the pairwise model (position_index_code_refines_model, token_order_of_source_is_model). Tie to the code: translator regenerates the formulas/helpers each run; Model/Api.v and complete_spec are evaluated inside Coq on whole join calls of the implementation. CODE-LEVEL: the function REGENERATED from the Python source on every run (Gen/WrapperGen.v, FilterWrapperGen.v, MatcherGen.v over the frame model Model/Frame.v) is proved to refine the API model end to end, and the composition is stated directly about the code (Cxx_code_* theorems): for all well-formed frames the returned frame has header_spec and its rows, read at key level, satisfy complete_spec/sound_spec/missing_spec/empty_spec.",
   note=TB + AX + "for the J/C/D arithmetic and split_table; OVERLAP / OVERLAP_COEFFICIENT parts closed. Envelope: 2^-30<=t<=1, token counts < 2^20, rows < 2^31, duplicate-free token lists (set tokenizer).",
   technique="Coq proof (Flocq arithmetic over translated formulas + list combinatorics + API-level refinement); in-Coq evaluation of model and completeness spec on implementation output"),
 'C02': dict(ref='6 C02',
   text="Coq theorems: every row of the API-level model's result names existing keys, occurs once per key pair, satisfies the comparison with the similarity recomputed from the two token sets and carries that score (rounded for J/C/D, unrounded for overlap coefficient, integer overlap for overlap_join, 1.0 for admitted empty pairs) (C02_api and the pair/core-level theorems); the regenerated position index / find_candidates / token ordering are proved to refine the model. Tie: sound_spec and the model evaluated inside Coq on whole join calls. CODE-LEVEL: the function REGENERATED from the Python source on every run (Gen/WrapperGen.v, FilterWrapperGen.v, MatcherGen.v over the frame model Model/Frame.v) is proved to refine the API model end to end, and the composition is stated directly about the code (Cxx_code_* theorems): for all well-formed frames the returned frame has header_spec and its rows, read at key level, satisfy complete_spec/sound_spec/missing_spec/empty_spec.",
   note=TB + "Pair-level soundness (C02_pair_jcd) is closed under the global context; the API-level statement inherits the real-number axioms from the totality/partition part.",
   technique="Coq proof (list reasoning, rank injectivity, API-level refinement); in-Coq evaluation of model and soundness spec on implementation output"),
 'C03': dict(ref='6 C03',
   text="Coq theorems about the edit-distance join core: sound (reported score is the Levenshtein distance, proved equal to the declarative lev_spec; comparison holds), each key pair once, and EXACT characterisation for q-gram rows (returned iff distance satisfies the comparison and the bags share a q-gram) for every q>=1, padded or not; padded corollary max(len) >= q*tau-q+2; rests on the q-gram count filter (one edit destroys at most q q-grams) and the prefix lemma on sorted bags. Tie: generated EDIT_DISTANCE formulas; complete_spec/sound_spec and the model evaluated inside Coq on edit_distance_join calls. CODE-LEVEL: the function REGENERATED from the Python source on every run (Gen/WrapperGen.v, FilterWrapperGen.v, MatcherGen.v over the frame model Model/Frame.v) is proved to refine the API model end to end, and the composition is stated directly about the code (Cxx_code_* theorems): for all well-formed frames the returned frame has header_spec and its rows, read at key level, satisfy complete_spec/sound_spec/missing_spec/empty_spec.",
   note=TB + "All C03 theorems are closed under the global context (integer/list reasoning). API-level lift for edit distance: see level text of C10/C08 and DESIGN.md.",
   technique="Coq proof (Levenshtein edit scripts, q-gram count filter, prefix lemma on bags); in-Coq evaluation of model and specs on implementation output"),
 'C04': dict(ref='6 C04',
   text="Coq theorems: filter_pair of Size/Prefix/Position never drops a qualifying pair under JACCARD/COSINE/DICE (all doubles in the envelope), OVERLAP (integer thresholds) and EDIT_DISTANCE (q-gram bags, incl. PositionFilter with its frozen left position), the filter_tables candidate tests likewise for any table-level token order; OverlapFilter exact; API-level filter_tables theorems (C04_api_filter_tables, incl. EDIT_DISTANCE); the regenerated index classes and find_candidates of Size/Prefix/Position filters are proved to refine the pairwise candidate tests. SuffixFilter: the full-strength statement is REFUTED on the model (C04_suffix_refuted, witness replayed on the real SuffixFilter = known finding). Tie: generated formulas; fp_safe_spec / complete_spec and models evaluated inside Coq on filter_pair, filter_tables and filter_candset calls. CODE-LEVEL: the function REGENERATED from the Python source on every run (Gen/WrapperGen.v, FilterWrapperGen.v, MatcherGen.v over the frame model Model/Frame.v) is proved to refine the API model end to end, and the composition is stated directly about the code (Cxx_code_* theorems): for all well-formed frames the returned frame has header_spec and its rows, read at key level, satisfy complete_spec/sound_spec/missing_spec/empty_spec. Float thresholds of the integer-valued measures (repaired defect 13a9b6a): for every finite double the formulas / filter verdicts / generated filter_pair / api_join at threshold f equal those at floor f (edit distance) resp. ceil f (overlap), and the safety theorems transfer (C04_*_float).",
   note=TB + AX + "for the J/C/D arithmetic only. SuffixFilter safety is a known finding (known_findings.json: suffix-filter-unsafe).",
   technique="Coq proof (Flocq arithmetic over translated formulas, prefix/position lemmas on sets and bags) + refutation witness; in-Coq evaluation of models and specs on implementation output"),
 'C05': dict(ref='6 C05',
   text="Coq theorems on the row-wise model of apply_matcher with sim_function, tokenizer and score type as arbitrary section variables: result = candidate rows filtered in order, original _id and keys, score = sim_function value, six operators, missing rows kept iff allow_missing with NaN; same result for every n_jobs (C05_njobs, via the partition theorem about the generated split_table). Tie: the model is evaluated inside Coq on independently computed sim_function values and compared (order, _id, keys, score) with whole apply_matcher calls incl. both token-cache paths and n_jobs variants. CODE-LEVEL: the function REGENERATED from the Python source on every run (Gen/WrapperGen.v, FilterWrapperGen.v, MatcherGen.v over the frame model Model/Frame.v) is proved to refine the API model end to end, and the composition is stated directly about the code (Cxx_code_* theorems): for all well-formed frames the returned frame has header_spec and its rows, read at key level, satisfy complete_spec/sound_spec/missing_spec/empty_spec.",
   note=TB + "Closed under the global context. n_jobs independence of the model uses the split_table partition theorem (C10). Pickling of bound methods across real processes is runtime behaviour: exercised by the thorough tier only.",
   technique="Coq proof (list reasoning over a parametric model); in-Coq evaluation of the model on implementation output"),
 'C06': dict(ref='6 C06',
   text="Coq theorems: filter_candset = positions of the rows whose pair filter_pair keeps, in order (filter_pair arbitrary); OverlapFilter.filter_pair keeps a pair iff both strings non-empty and overlap satisfies comp_op; OverlapFilter.filter_tables lists exactly those pairs once with score = overlap (set tokenizer), also at API level (C06_api_overlap_filter_tables) and for every n_jobs; the regenerated InvertedIndex.build / OverlapFilter.find_candidates refine the model's overlap count. Tie: candset model, fp_overlap_exact_spec, sound_spec/complete_spec evaluated inside Coq on real calls (index labels and columns compared). CODE-LEVEL: the function REGENERATED from the Python source on every run (Gen/WrapperGen.v, FilterWrapperGen.v, MatcherGen.v over the frame model Model/Frame.v) is proved to refine the API model end to end, and the composition is stated directly about the code (Cxx_code_* theorems): for all well-formed frames the returned frame has header_spec and its rows, read at key level, satisfy complete_spec/sound_spec/missing_spec/empty_spec. filter_candset on the generated code: C06_code_candset (exactly the candidate rows not dropped, all columns, original order).",
   note=TB + "Closed under the global context.",
   technique="Coq proof (list reasoning); in-Coq evaluation of models and specs on implementation output"),
 'C08': dict(ref='6 C08',
   text="Coq theorems on the API-level model (every join and filter_tables): allow_missing=False -> no output row involves a row with a missing value; allow_missing=True -> same success, result = the False result ++ the missing pairs, each pair with a missing side exactly once with NaN score (missing_spec for every entry, any n_jobs); apply_matcher rows with a missing side kept iff allow_missing. Tie: both allow_missing values run on every forced pattern of missing values (none/left only/right only/both/all), specs evaluated inside Coq; an exception is a violation. The public wrappers jaccard/cosine/dice_join_py are REGENERATED from the source (Gen/WrapperGen.v over the frame model Model/Frame.v) and proved end to end (dropna, projection, split_table, per-chunk loop, concat, missing-value pairs, _id) to produce header_spec + the rows of api_join through the declared projection (generated_*_wrapper_refines_model). CODE-LEVEL: the function REGENERATED from the Python source on every run (Gen/WrapperGen.v, FilterWrapperGen.v, MatcherGen.v over the frame model Model/Frame.v) is proved to refine the API model end to end, and the composition is stated directly about the code (Cxx_code_* theorems): for all well-formed frames the returned frame has header_spec and its rows, read at key level, satisfy complete_spec/sound_spec/missing_spec/empty_spec.",
   note=TB + "C08_exactly_once inherits the real-number axioms from the split_table partition theorem; the rest is closed.",
   technique="Coq proof (API-level refinement, list reasoning); in-Coq evaluation of specs on implementation output"),
 'C09': dict(ref='6 C09',
   text="Coq theorems: on the API-level model of the five set-similarity joins a both-empty pair is returned iff allow_empty (never by overlap_join), with score 1.0, and a pair with exactly one empty side never, for every threshold/operator/n_jobs (C09_joins); filter_pair of Size/Prefix/Position/Suffix keeps two empty token lists iff allow_empty (never under OVERLAP) whatever the threshold (C09_filter_pair). Tie: empty_spec / fp_empty_spec / sound_spec evaluated inside Coq on joins, filter_tables and filter_pair calls over tables salted with empty, delimiter-only and too-short strings. CODE-LEVEL: the function REGENERATED from the Python source on every run (Gen/WrapperGen.v, FilterWrapperGen.v, MatcherGen.v over the frame model Model/Frame.v) is proved to refine the API model end to end, and the composition is stated directly about the code (Cxx_code_* theorems): for all well-formed frames the returned frame has header_spec and its rows, read at key level, satisfy complete_spec/sound_spec/missing_spec/empty_spec.",
   note=TB + AX + "(J/C/D totality). filter_tables empty-pair clause at API level: by correspondence + empty_spec (theorem pending, see DESIGN.md).",
   technique="Coq proof (API-level refinement) ; in-Coq evaluation of specs on implementation output"),
 'C11': dict(ref='6 C11',
   text="Coq theorems about the projection pipeline composed from the helper functions GENERATED from utils/generic_helper.py (remove_redundant_attrs, get_attrs_to_project, find_output_attribute_indices, get_output_header_from_tables, get_output_row_from_tables): header = documented columns; every projected cell = cell of that attribute in the source row, on the main path and the missing-value path, for None / [] / lists with key, join attribute and repeats. Tie: regenerated each run; header_ok / cells_ok and the generated pipeline evaluated inside Coq on observed frames. The public wrappers jaccard/cosine/dice_join_py are REGENERATED from the source (Gen/WrapperGen.v over the frame model Model/Frame.v) and proved end to end (dropna, projection, split_table, per-chunk loop, concat, missing-value pairs, _id) to produce header_spec + the rows of api_join through the declared projection (generated_*_wrapper_refines_model). CODE-LEVEL: C11_code_* -- for the ten regenerated wrappers (six joins, four filter_tables) the returned frame has header_spec (spelled out) and every row reads, position by position, the cells of one left and one right source row (keys, every requested attribute at its header position, score last), for normal, empty-set-branch and missing-value rows; with unique keys these are the rows identified by the row's keys.",
   note=TB + "Closed under the global context. pandas' own projection df[cols] / dropna / DataFrame(rows, columns) are modelled (first column of a name).",
   technique="Coq proof over translated helper functions; in-Coq evaluation of model and spec on implementation output"),
 'C12': dict(ref='6 C12',
   text="Coq theorems over the control skeletons and mutation summaries REGENERATED from the AST of every entry point: every exit (return or raise -- by a validation or by ANY work statement, the oracle decides --, any outcome of validations and early returns) hands the tokenizer flag back as received (the pre-24d29db source fails this check for five join wrappers); hence any call sequence sharing a tokenizer returns what each call returns in isolation; every in-place operation targets a fresh object except the converters' documented inplace mode. Tie: translator (fail-closed) + random call histories on the real API comparing inputs/tokenizer with snapshots and results with isolated runs. The public wrappers jaccard/cosine/dice_join_py are REGENERATED from the source (Gen/WrapperGen.v over the frame model Model/Frame.v) and proved end to end (dropna, projection, split_table, per-chunk loop, concat, missing-value pairs, _id) to produce header_spec + the rows of api_join through the declared projection (generated_*_wrapper_refines_model).",
   note=TB + "Closed under the global context. Non-mutation of pandas objects is a syntactic effect summary plus harness snapshots; pandas aliasing is not modelled.",
   technique="Coq proof by reflection over regenerated control skeletons; differential call-history runs"),
 'C14': dict(ref='6 C14',
   text="Coq theorems: SizeFilter's verdict is a function of the two counts; counts inside the window leave best attainable similarity >= t - 1e-4 over the reals, hence every pair further below is dropped (J/C/D, all doubles in the envelope, counts < 2^20); edit distance: dropped iff counts differ by more than the threshold; Prefix/Position/Overlap filters keep no pair without a common token (any parameters); Position candidates are Prefix candidates and pass the Size window (pair level and API level: C14_api_refine); regenerated index code refines the model. Tie: generated formulas; size_tight_spec, fp_common_token_spec, sound_spec, refine_filters_spec evaluated inside Coq on real filter calls (exhaustive count grid in the thorough tier). Float edit-distance thresholds: C14_size_edit_distance_float.",
   note=TB + AX + "for the tightness arithmetic; structural parts closed.",
   technique="Coq proof (Flocq real arithmetic over translated formulas, loop invariants); in-Coq evaluation of specs on implementation output"),
 'C15': dict(ref='6 C15',
   text="Coq theorems over regenerated artefacts: in every entry point all validations precede all work (a rejected call has done nothing, tokenizer flag untouched); the generated validate_threshold / validate_comp_op accept exactly the documented ranges and operator sets; no entry point can return (early exits included) before all its validations ran (C15_no_return_before_validation). Tie: translator + the matrix entry point x invalid argument kind x random valid context on the real API (exception class, inputs and tokenizer unchanged), and degenerate valid shapes with object and pandas string dtype returning DataFrames. validate_threshold's exact acceptance set is proved for integer thresholds and for EVERY double incl. NaN and infinities (threshold_float_ranges, after the NaN repair).",
   note=TB + "Closed under the global context. 'Valid calls never rejected' is decided by the harness (totality of the hand model is proved for the join entries: C01_api_total).",
   technique="Coq proof by reflection over regenerated skeletons/validators; differential API matrix runs"),
}
REASONS = {
 'C07': 'check being assembled in this snapshot: pipeline correspondence exists (harness/corr_meta.py run_pipeline), closing theorem pending',
 'C10': 'check being assembled in this snapshot: n_jobs/permutation correspondence exists (harness/corr_meta.py run_njobs), closing theorems pending',
 'C13': 'check being assembled in this snapshot: metamorphic correspondence exists (harness/corr_meta.py run_laws), closing theorems pending',
 'C16': 'check being assembled in this snapshot: converter model/proofs delivered, integration pending',
 'C17': 'check being assembled in this snapshot: profiler model/proofs delivered, integration pending',
}
def main():
    import sys
    extra = {}
    if os.path.exists(os.path.join(V, 'harness', 'manifest_extra.py')):
        sys.path.insert(0, os.path.join(V, 'harness'))
        import manifest_extra
        extra = manifest_extra.CLAIMED
    claimed = dict(CLAIMED)
    claimed.update(extra)
    checks = []
    for pid, d in sorted(claimed.items()):
        checks.append({
            'property_id': pid,
            'quick_cmd': './check %s --tier quick' % pid,
            'thorough_cmd': './check %s --tier thorough' % pid,
            'evidence_file': '/verif/evidence/%s.json' % pid,
            'replay_cmd_template': './check %s --replay {path}' % pid,
            'engine': 'coq-proofs+correspondence',
            'level_claimed': {'category': 'proof', 'text': d['text'], 'design_ref': 'DESIGN.md §' + d['ref']},
            'level_note': d['note'],
            'technique': d['technique'],
        })
    na = [{'property_id': 'C%02d' % i, 'reason': REASONS.get('C%02d' % i, 'not claimed')}
          for i in range(1, 18) if 'C%02d' % i not in claimed]
    m = {
        'version': 1,
        'setup_cmd': './check --setup',
        'hooks': {'guard': 'PY_STRINGSIMJOIN_VERIF', 'enable': 'no hooks are needed: the harness imports the pure-Python entry points directly; the guard name is reserved and exported by ./check',
                  'baseline_off_cmd': BASE_CMD, 'source_commits': [], 'add_only': True},
        'engines': [
            {'name': 'coq-proofs', 'path': 'coq/', 'serves_properties': sorted(claimed), 'kind_free_text': 'Coq 8.16.1 development: models, specs, proofs; Properties/Cxx.v hold the closing theorems'},
            {'name': 'translator', 'path': 'harness/translate/', 'serves_properties': sorted(claimed), 'kind_free_text': 'fail-closed Python ast -> Gallina translator regenerating coq/Gen on every run'},
            {'name': 'correspondence', 'path': 'harness/', 'serves_properties': sorted(claimed), 'kind_free_text': 'differential runs: model and specs evaluated inside Coq (vm_compute) on the implementation\'s observed behaviour'},
        ],
        'checks': checks,
        'not_applicable': na,
        'notes': 'All checks rebuild from /repo\'s working tree: coq/Gen is regenerated and the implementation is imported from /repo.',
    }
    json.dump(m, open(os.path.join(V, 'MANIFEST.json'), 'w'), indent=1)
if __name__ == '__main__':
    main()
