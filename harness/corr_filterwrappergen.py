"""Function-level correspondence for the filters' PUBLIC filter_tables methods and overlap_join_py

    filter/size_filter.py     : SizeFilter.filter_tables     -> Gen/FilterWrapperGen.v : size_filter_tables_rows
    filter/prefix_filter.py   : PrefixFilter.filter_tables   -> prefix_filter_tables_rows
    filter/position_filter.py : PositionFilter.filter_tables -> position_filter_tables_rows
    filter/overlap_filter.py  : OverlapFilter.filter_tables  -> overlap_filter_tables_rows
    join/overlap_join_py.py   : overlap_join_py              -> overlap_join_rows

The REAL method / function is run (joblib threading backend, show_progress=False) on random DataFrames
made by the generators of corr_wrappergen (shuffled and extra columns, missing filter values None and NaN
on either side, empty tables, unique / shuffled / repeated index labels, int and str keys, object and
`str` dtype filter columns) with: every measure a filter supports (JACCARD, COSINE, DICE, OVERLAP,
EDIT_DISTANCE for size / prefix / position; tokenizers whitespace / delimiter / qgram, qgram only for
EDIT_DISTANCE; the tokenizer in EITHER return_set mode, filter_tables uses it as it is), threshold
classes, allow_empty, allow_missing, overlap_size classes (1, 2, 3, 1.5, 2.0) and comp_op of OverlapFilter,
out_sim_score, output attribute lists None / [] / lists with repeats and the key, prefixes incl. '' and '_'
(the key header then collides with '_id'), n_jobs in {1, 2, 3, 4, 5, 7, 0, -1, -2, -100}, plus arguments the
KEPT validators reject (unknown key / filter attributes, unknown output attributes; for overlap_join_py
also a bad operator and a bad threshold, which OverlapFilter.__init__ rejects).  A small share of the filter
objects has attributes re-assigned AFTER construction (allow_missing / allow_empty toggled): filter_tables
reads the attributes, the generated definitions take them as parameters.
Inputs the DROPPED validators reject are never generated, nor constructor arguments that the filter's
own __init__ rejects (the filter object is built by the harness; such a draw is not a case).

Generated side (evaluated inside Coq on the frame literals of the inputs): self_<attr> are the values of
the object's attributes at the call; `self_tokenizer_tokenize` / `tokenizer_tokenize` is an association
list from the cell to its token list (tokens interned as small ints that preserve the order of the Python
strings) -- for filter_tables in the mode the tokenizer IS in, for overlap_join_py in set mode;
self_tokenizer_qval is the tokenizer's qval (None if it has none); cpu_count_ is
multiprocessing.cpu_count().  (On a non-string cell the tokenizer function is PExc "TypeError", which is what
every py_stringmatching tokenizer raises; no such cell reaches a tokenizer on the pristine tree.)

Comparison (Model/Frame.v canonicalisation as in corr_wrappergen: the observed float-dtype columns are
re-typed on the model side, None ~ NaN):
  * position / overlap filter_tables, overlap_join_py: frame_same -- header, every row IN ORDER, every
    cell including _id (their candidates come out of a dict: insertion order, as corr_joingen treats
    these cores);
  * size / prefix filter_tables: the candidates of one right row are a Python SET, so the rows that one
    right row contributes come out in hash order.  Chunk boundaries are not observable, but the right
    rows are processed in order and right keys are unique, so the check is: header strictly; _id column
    0..n-1 in order; the column of RIGHT KEYS identical in order (this pins the chunk order and the
    order of the right rows); the first nmain rows (the filter's own output; nmain = len(result) minus
    the number of missing-value pairs, which the harness counts from the inputs) equal AS A MULTISET
    without their _id cell -- together with the ordered right-key column this is equality of every
    right row's group as a multiset; the remaining rows (get_pairs_with_missing_value, deterministic)
    identical IN ORDER.
"""
import os
import random
import sys

sys.path.insert(0, os.path.dirname(os.path.abspath(__file__)))
import common as C  # noqa: E402
import gens  # noqa: E402
import tables as T  # noqa: E402
import corr_wrappergen as W  # noqa: E402   (also applies VERIF_COQ to C.QFLAGS)

IMPORTS = ['FilterUtilsGen', 'HelperGen', 'TokenOrderingGen', 'ValidationGen', 'IndexGen', 'JoinGen',
           'Frame', 'WrapperGen', 'FilterWrapperGen']

GEN = {'size': 'size_filter_tables_rows', 'prefix': 'prefix_filter_tables_rows',
       'position': 'position_filter_tables_rows', 'overlap': 'overlap_filter_tables_rows',
       'ovjoin': 'overlap_join_rows'}
MULTISET = ('size', 'prefix')
# tokenizer.tokenize: the association list on strings; py_stringmatching tokenizers raise TypeError on None and on
# any non-string (only reachable when a table with missing values reaches the core, i.e. never on the pristine tree)
TOKFUN = ('(fun s_ : pyval => match s_ with PStr _ => match dict_lookup %s s_ with Some v_ => v_ '
          '| None => PExc "KeyError" end | PExc _ => s_ | _ => PExc "TypeError" end)')
TAG = os.environ.get('VERIF_CASE_TAG', '')


class NotACase(Exception):
    """the filter's constructor rejected the drawn arguments"""


def filter_class(which):
    if which == 'size':
        from py_stringsimjoin.filter.size_filter import SizeFilter
        return SizeFilter
    if which == 'prefix':
        from py_stringsimjoin.filter.prefix_filter import PrefixFilter
        return PrefixFilter
    if which == 'position':
        from py_stringsimjoin.filter.position_filter import PositionFilter
        return PositionFilter
    from py_stringsimjoin.filter.overlap_filter import OverlapFilter
    return OverlapFilter


def gen_case(rng):
    import pandas as pd
    which = rng.choice(['size', 'prefix', 'position', 'overlap', 'ovjoin', 'size', 'prefix', 'position', 'overlap'])
    op = None
    if which in ('size', 'prefix', 'position'):
        m = rng.choice(gens.ALL_FILTER_MEASURES)
        if m == 'EDIT_DISTANCE':
            kind, tok = T.make_tokenizer(rng, rng.choice(['qgram2', 'qgram3', 'qgram2np']), return_set=rng.random() < 0.4)
            tcls, t = 'int', rng.choice([0, 0, 1, 1, 1, 2, 2, 2, 3, 3, 1.5, 2.0])
        elif m == 'OVERLAP':
            kind, tok = T.make_tokenizer(rng, rng.choice(['ws', 'delim', 'qgram2']), return_set=rng.random() < 0.6)
            tcls, t = 'int', rng.choice([1, 1, 1, 2, 2, 2, 3, 3, 2.0, 1.5])
        else:
            kind, tok = T.make_tokenizer(rng, rng.choice(['ws', 'ws', 'delim', 'qgram2']), return_set=rng.random() < 0.6)
            tcls, t = gens.any_threshold_value(rng)
            if rng.random() > 0.5:
                tcls, t = 'low', rng.choice([0.1, 0.2, 0.25, 0.3, 1.0 / 3, 0.4, 0.5, 0.5, 0.6])
    else:
        m = 'OVERLAP'
        kind, tok = T.make_tokenizer(rng, rng.choice(['ws', 'ws', 'delim', 'qgram2']), return_set=rng.random() < 0.5)
        tcls, t = 'overlap_size', rng.choice([1, 1, 1, 2, 2, 3, 1.5, 2.0])
        op = rng.choice(['>=', '>=', '>=', '>', '>', '='])
    usize = rng.choice([3, 5, 8]) if not kind.startswith('qgram') else rng.choice([2, 3])
    universe = W.ASCII_WORDS[:usize]
    weights = [rng.choice([1, 1, 2, 4]) for _ in universe]
    nl = rng.choice([0, 1, 2, 3, 4, 6, 8])
    nr = rng.choice([0, 1, 2, 3, 4, 5, 7])
    lkey, ljoin = rng.choice([('id', 's'), ('lid', 'lstr'), ('A.id', 'A.attr')])
    rkey, rjoin = rng.choice([('id', 's'), ('rid', 'rstr'), ('B.id', 'B.attr')])
    mp = rng.choice([0.0, 0.0, 0.15, 0.3])
    L = T.gen_table(rng, kind, universe, weights, nl, lkey, ljoin, mp)
    R = T.gen_table(rng, kind, universe, weights, nr, rkey, rjoin, mp)
    for df, jc in ((L, ljoin), (R, rjoin)):
        if len(df) and rng.random() < 0.3:
            df.iloc[rng.randrange(len(df)), list(df.columns).index(jc)] = rng.choice(['', ' ' if kind == 'ws' else ''])
        if rng.random() < 0.25:
            df[jc] = df[jc].astype('str') if not df[jc].isnull().any() else df[jc].astype(pd.StringDtype(na_value=float('nan')))
    bad = None
    lout, rout = W.gen_out(rng, list(L.columns), lkey), W.gen_out(rng, list(R.columns), rkey)
    names = [lkey, ljoin, rkey, rjoin]
    r = rng.random()
    if r < 0.03:
        names[rng.randrange(4)], bad = 'nokey', 'unknown key / filter attribute'
    elif r < 0.05:
        rout, bad = (rout or []) + ['zz'], 'r_out_attrs'
    elif r < 0.07:
        lout, bad = ['zz'] + (lout or []), 'l_out_attrs'
    elif r < 0.12 and which == 'ovjoin':
        op, bad = rng.choice(['==', '<=', '!=', '<']), 'comp_op'
    elif r < 0.17 and which == 'ovjoin':
        t, tcls, bad = rng.choice([0, 0.0, -0.25, -1]), 'invalid', 'threshold'
    poke = None
    if which != 'ovjoin' and rng.random() < 0.06:
        poke = rng.choice(['allow_missing', 'allow_missing', 'allow_empty'])
    return dict(which=which, measure=m, kind=kind, tok=tok, tcls=tcls, t=t, op=op, bad=bad, L=L, R=R, names=names,
                lout=lout, rout=rout, allow_empty=rng.random() < 0.6, allow_missing=rng.random() < 0.5,
                score=rng.random() < 0.6, poke=poke,
                lpre=rng.choice(['l_', 'l_', 'l_', 'left.', '', '_']), rpre=rng.choice(['r_', 'r_', 'r_', 'right.', '', '_']),
                njobs=rng.choice([1, 1, 2, 2, 3, 4, 5, 7, 0, -1, -2, -100]), q=getattr(tok, 'qval', None))


def make_filter(cs):
    cls = filter_class(cs['which'])
    try:
        if cs['which'] == 'overlap':
            flt = cls(cs['tok'], cs['t'], cs['op'], cs['allow_missing'])
        else:
            flt = cls(cs['tok'], cs['measure'], cs['t'], cs['allow_empty'], cs['allow_missing'])
    except Exception as e:  # noqa
        raise NotACase('%s: %s' % (type(e).__name__, e))
    if cs['poke'] == 'allow_missing':
        flt.allow_missing = not flt.allow_missing
    elif cs['poke'] == 'allow_empty' and hasattr(flt, 'allow_empty'):
        flt.allow_empty = not flt.allow_empty
    return flt


def run_real(cs, flt):
    import joblib
    lkey, ljoin, rkey, rjoin = cs['names']
    lout = None if cs['lout'] is None else list(cs['lout'])
    rout = None if cs['rout'] is None else list(cs['rout'])
    if cs['which'] == 'ovjoin':
        return T.call_join('OVERLAP', cs['L'], cs['R'], (lkey, ljoin, rkey, rjoin), cs['tok'], cs['t'], cs['op'],
                           None, cs['allow_missing'], lout, rout, cs['score'], cs['njobs'],
                           prefixes=(cs['lpre'], cs['rpre']))
    with joblib.parallel_config(backend=T.C_BACKEND[0]):
        if cs['which'] == 'overlap':
            return flt.filter_tables(cs['L'], cs['R'], lkey, rkey, ljoin, rjoin, lout, rout, cs['lpre'], cs['rpre'],
                                     cs['score'], cs['njobs'], False)
        return flt.filter_tables(cs['L'], cs['R'], lkey, rkey, ljoin, rjoin, lout, rout, cs['lpre'], cs['rpre'],
                                 cs['njobs'], False)


def count_missing_pairs(cs, allow_missing):
    lkey, ljoin, rkey, rjoin = cs['names']
    L, R = cs['L'], cs['R']
    if not allow_missing or ljoin not in L.columns or rjoin not in R.columns:
        return 0
    lm = sum(1 for v in L[ljoin].tolist() if T.is_missing(v))
    rm = sum(1 for v in R[rjoin].tolist() if T.is_missing(v))
    return lm * len(R) + rm * (len(L) - lm)


def grouped_defs(n):
    """size / prefix: see the module docstring"""
    return [
        'Fixpoint %srem (fl : list bool) (x : list pyval) (l : list (list pyval)) : option (list (list pyval)) := '
        'match l with [] => None | y :: t => if row_same fl x y then Some t else option_map (cons y) (%srem fl x t) end.'
        % (n, n),
        'Fixpoint %sperm (fl : list bool) (a b : list (list pyval)) : bool := match a with [] => match b with [] => true '
        '| _ => false end | x :: t => match %srem fl x b with Some b2 => %sperm fl t b2 | None => false end end.'
        % (n, n, n),
        'Fixpoint %scells (f : bool) (a b : list pyval) : bool := match a, b with [], [] => true '
        '| x :: a2, y :: b2 => cell_same f x y && %scells f a2 b2 | _, _ => false end.' % (n, n),
        'Definition %scol (k : nat) (rows : list (list pyval)) : list pyval := map (fun r => nth k r PNone) rows.' % n,
        'Definition %sids (rows : list (list pyval)) : bool := %scells false (%scol 0 rows) '
        '(map (fun k => PInt (Z.of_nat k)) (seq 0 (List.length rows))).' % (n, n, n),
        'Definition %ssame (nmain : nat) (fl : list bool) (model observed : pyval) : bool := match model, observed with '
        '| PExc a, PExc b => String.eqb a b | _, _ => match as_frame model, as_frame observed with '
        '| Some fm, Some fo => cell_strict (PList (fr_cols fm)) (PList (fr_cols fo)) && %sids (fr_rows fm) && '
        '%sids (fr_rows fo) && %scells (nth 2 fl false) (%scol 2 (fr_rows fm)) (%scol 2 (fr_rows fo)) && '
        '%sperm (tl fl) (map (@tl pyval) (firstn nmain (fr_rows fm))) (map (@tl pyval) (firstn nmain (fr_rows fo))) && '
        'rows_same fl (skipn nmain (fr_rows fm)) (skipn nmain (fr_rows fo)) '
        '| _, _ => false end end.' % (n, n, n, n, n, n, n)]


def build_case(gi, cs):
    which, tok = cs['which'], cs['tok']
    lkey, ljoin, rkey, rjoin = cs['names']
    L, R = cs['L'], cs['R']
    flt = make_filter(cs) if which != 'ovjoin' else None
    attrs = {}
    if flt is not None:
        for a in ('sim_measure_type', 'threshold', 'allow_empty', 'allow_missing', 'overlap_size', 'comp_op'):
            if hasattr(flt, a):
                attrs[a] = getattr(flt, a)
    info = {'function': GEN[which], 'measure': cs['measure'], 'threshold': cs['t'], 'threshold_class': cs['tcls'],
            'comp_op': cs['op'], 'tokenizer': cs['kind'], 'return_set_at_entry': tok.get_return_set(),
            'filter_attributes': attrs, 'attribute_reassigned_after_construction': cs['poke'],
            'allow_missing': cs['allow_missing'], 'out_sim_score': cs['score'], 'n_jobs': cs['njobs'],
            'cpu_count': T.cpu_count(), 'names': list(cs['names']), 'l_out_attrs': cs['lout'],
            'r_out_attrs': cs['rout'], 'l_out_prefix': cs['lpre'], 'r_out_prefix': cs['rpre'],
            'ltable': L.to_dict(orient='split'), 'rtable': R.to_dict(orient='split'),
            'l_dtypes': [str(d) for d in L.dtypes], 'r_dtypes': [str(d) for d in R.dtypes], 'invalid': cs['bad']}
    tokenize = T.set_mode_tokenize(tok) if which == 'ovjoin' else tok.tokenize
    state0 = dict(vars(tok))
    try:
        df = run_real(cs, flt)
        cols = list(df.columns)
        flags = [df.iloc[:, j].dtype.kind == 'f' for j in range(len(cols))]
        expected = W.frame_lit(df)
        info['observed'] = {'columns': cols, 'rows': [list(r) for r in df.itertuples(index=False)],
                            'dtypes': [str(d) for d in df.dtypes]}
        nrows = len(df)
    except Exception as e:  # noqa
        expected = '(PExc %s)' % C.coq_str(type(e).__name__)
        flags = []
        info['observed'] = 'raised %s: %s' % (type(e).__name__, e)
        nrows = -1
    if dict(vars(tok)) != state0:
        info['tokenizer_state_changed'] = True
        tok.__dict__.update(state0)

    def present(df, col):
        if col not in df.columns:
            return []
        return [v for v in df[col].tolist() if not T.is_missing(v)]
    strs = [s for s in present(L, ljoin) + present(R, rjoin) if isinstance(s, str)]
    ids = {w: i for i, w in enumerate(sorted(set(w for s in strs for w in tokenize(s))))}
    seen, titems = set(), []
    for s in strs:
        if s in seen:
            continue
        seen.add(s)
        titems.append('PTuple [%s; PList [%s]]' % (C.pyval_lit(s), '; '.join('PInt %d' % ids[w] for w in tokenize(s))))
    n = 'fw%d_' % gi
    b = C.pyval_lit
    defs = ['Definition %sL := %s.' % (n, W.frame_lit(L)),
            'Definition %sR := %s.' % (n, W.frame_lit(R)),
            'Definition %stok := %s.' % (n, TOKFUN % ('[%s]' % '; '.join(titems))),
            'Definition %sexp := %s.' % (n, expected),
            'Definition %sfl : list bool := [%s].' % (n, '; '.join('true' if f else 'false' for f in flags))]
    head = ' '.join(b(x) for x in (lkey, rkey, ljoin, rjoin))
    outs = ' '.join(b(x) for x in (cs['lout'], cs['rout'], cs['lpre'], cs['rpre']))
    tail = '%s (PBool false) %s' % (b(cs['njobs']), b(T.cpu_count()))
    if which == 'ovjoin':
        callx = '%s %sL %sR %s %s %s %s %s %s %s %stok' % (GEN[which], n, n, head, b(cs['t']), b(cs['op']),
                                                          b(cs['allow_missing']), outs, b(cs['score']), tail, n)
        am = cs['allow_missing']
    elif which == 'overlap':
        callx = '%s %sL %sR %s %s %s %s %s %s %s %stok' % (GEN[which], n, n, head, outs, b(cs['score']), tail,
                                                          b(attrs['overlap_size']), b(attrs['comp_op']),
                                                          b(attrs['allow_missing']), n)
        am = attrs['allow_missing']
    else:
        selfs = ' '.join(b(attrs[a]) for a in ('sim_measure_type', 'threshold', 'allow_empty', 'allow_missing'))
        qv = '' if which == 'size' else b(cs['q']) + ' '
        callx = '%s %sL %sR %s %s %s %s %s%stok' % (GEN[which], n, n, head, outs, tail, selfs, qv, n)
        am = attrs['allow_missing']
    nmiss = count_missing_pairs(cs, am)
    info['missing_value_pairs'] = nmiss
    if which in MULTISET:
        nmain = max(0, nrows - nmiss)
        defs += grouped_defs(n)
        exprs = ['%ssame %d%%nat %sfl (%s) %sexp' % (n, nmain, n, callx, n)]
        label = '%s (each right row\'s candidates as a multiset; right rows, missing-value pairs and _id in order)' % GEN[which]
    else:
        exprs = ['frame_same %sfl (%s) %sexp' % (n, callx, n)]
        label = '%s (rows in order)' % GEN[which]
    return '\n'.join(defs), exprs, [label], info, nrows > 0, nrows, nmiss


def run(seed, n):
    rng = random.Random(seed + 4243)
    res = {'evaluations': 0, 'nontrivial': 0, 'distribution': {}, 'differ': [], 'spec_fail': [],
           'exceptions': [], 'samples': []}
    NAC = 'not a case (the filter constructor rejected the draw; redrawn)'
    groups, meta = [], []
    k = 0
    draws = 0
    while k < n and draws < 3 * n + 50:
        draws += 1
        cs = gen_case(rng)
        try:
            defs, exprs, labels, info, nontriv, nrows, nmiss = build_case(k, cs)
        except NotACase:
            res['distribution'][NAC] = res['distribution'].get(NAC, 0) + 1
            continue
        except Exception as e:  # noqa   (the harness itself failed on this case)
            res['exceptions'].append({'case': k, 'call': {'function': GEN[cs['which']], 'measure': cs['measure'],
                                                          'threshold': cs['t'],
                                                          'harness_exception': '%s: %s' % (type(e).__name__, e)}})
            k += 1
            continue
        kind = 'raises' if nrows < 0 else ('rows' if nrows else 'no rows')
        par = 'par' if cs['njobs'] not in (0, 1) else 'seq'
        key = '%s/%s/%s/%s/%s' % (cs['which'], cs['measure'], kind, par,
                                  'missing pairs' if nmiss else ('allow_missing' if info['allow_missing'] else 'nomissing'))
        res['distribution'][key] = res['distribution'].get(key, 0) + 1
        res['evaluations'] += len(exprs)
        res['nontrivial'] += 1 if nontriv else 0
        groups.append((defs, exprs))
        meta.append((k, labels, info))
        if len(res['samples']) < 2 and nontriv:
            res['samples'].append(info)
        k += 1
    bad = C.run_groups('filterwrappergen%s_%d' % (TAG, seed), IMPORTS, groups, shard=25)
    for gi, ei in sorted(bad):
        k, labels, info = meta[gi]
        res['differ'].append({'case': k, 'which': 'generated %s vs the real function' % labels[ei], 'call': info})
    return res


if __name__ == '__main__':
    import json
    import time
    t0 = time.time()
    r = run(int(sys.argv[1]) if len(sys.argv) > 1 else 1, int(sys.argv[2]) if len(sys.argv) > 2 else 200)
    print('EVAL', r['evaluations'], 'NONTRIVIAL', r['nontrivial'], 'DIFFER', len(r['differ']), 'SPEC_FAIL',
          len(r['spec_fail']), 'EXC', len(r['exceptions']), 'WALL %.1fs' % (time.time() - t0))
    print(json.dumps(r['distribution'], sort_keys=True))
    for d in (r['differ'] + r['spec_fail'] + r['exceptions'])[:4]:
        print(json.dumps(d, default=str)[:3500])
