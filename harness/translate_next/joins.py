"""Per-chunk join functions as pure functions over `pyval` (syntactic, fail-closed).

`prepare_join` turns a module-level function that drives index / filter OBJECTS (set_sim_join)
into a function the plain translator (py2coq) accepts.  Every rewrite checks the shape it relies
on and raises Unsupported otherwise.

  * imports: every global name the function uses must be bound by the module's `from M import N`
    to the module it is expected to come from (EXPECTED_IMPORTS); anything else is rejected.
  * result: the function must end in
          <t> = pd.DataFrame(<rows>, columns=<header>)
          return <t>
    with <rows>, <header> local names; this becomes `return (<rows>, <header>)`.
  * `if show_progress: <stmts>`: dropped, after checking that the test is the bare parameter
    `show_progress`, that there is no else branch and that every statement is
    `prog_bar = pyprind.ProgBar(...)` or `prog_bar.update()`; `prog_bar` may not occur anywhere
    else.  (The progress bar only writes to stderr.)
  * `x = Cls(args)` for a configured class (OBJECTS): the constructor is INLINED.  Its body must
    be straight-line; each statement is one of
        validate_*(...)                      kept (known translated function; raises as the original)
        a call listed in ISINSTANCE_ONLY     dropped after checking that the callee only tests
                                             isinstance(...) / compares its arguments with string
                                             constants, raises, and returns True
                                             (assumption: the tokenizer object has the right class)
        p = <expr>                           a local `x__p` (constructor parameter / local rebound)
        self.A = <expr>                      the local `x_A`; if <expr> is a parameter of the
                                             enclosing function that is never rebound, `x.A` is an
                                             alias of that parameter and no statement is emitted
        super(...).__init__(args)            the (single) base class' constructor, inlined the same
                                             way; `object` / a class without __init__: nothing.
    Afterwards `x` may only be used as `x.m(args)` for a configured method m, or be passed to such
    a method of another inlined object as the configured object parameter.
  * `r = x.m(args)` becomes a call of the function methods.extract_method produced for Cls.m:
    the attributes it reads are passed from `x_A` / the alias; for a STATE-CHANGING method
    (PositionIndex.build) the call must be the only call of m on x and stand at the top level of
    the function body (the extracted function describes the first call on a fresh object), and
    the written attributes are rebound:  (x_A1, ..., x_An, r) = f(...).
    Keyword arguments and defaults of m are resolved against m's signature (constant defaults).
  * a PARAMETER that is an object of a configured class (`position_filter` of
    filter/position_filter.py:_filter_tables_split): the object was constructed by the caller, so
    nothing is inlined; every read `obj.A` of an attribute A that the class' constructor chain
    stores (`self.A = ...`) becomes the new parameter `obj_A` ("the value of the attribute"), the
    parameter obj itself disappears; obj may otherwise only be used as `obj.m(args)` for a configured
    method that does not change the object's state.
  * `f = get_sim_function(<measure>)`: removed; `f` becomes a function PARAMETER of the
    generated definition (pyval -> pyval -> pyval).  f may only be called, with two arguments.
  * `g = COMP_OP_MAP[e]`: kept; py2coq turns it into a lookup in the generated `comp_op_map`
    (KeyError for an unknown operator); g may only be called with two arguments.
  * `iteritems(d)` (six): py2coq's `py_items d`, the (key, value) pairs in insertion order; the
    loop body may not assign or mutate d.
"""
import ast
import copy
import os

from py2coq import Unsupported
import methods

EXPECTED_IMPORTS = {
    'iteritems': 'six',
    'xrange': 'six.moves',
    'PositionFilter': 'py_stringsimjoin.filter.position_filter',
    'PositionIndex': 'py_stringsimjoin.index.position_index',
    'PrefixFilter': 'py_stringsimjoin.filter.prefix_filter',
    'PrefixIndex': 'py_stringsimjoin.index.prefix_index',
    'OverlapFilter': 'py_stringsimjoin.filter.overlap_filter',
    'SizeFilter': 'py_stringsimjoin.filter.size_filter',
    'SizeIndex': 'py_stringsimjoin.index.size_index',
    'InvertedIndex': 'py_stringsimjoin.index.inverted_index',
    'validate_tokenizer': 'py_stringsimjoin.utils.validation',
    'validate_comp_op_for_sim_measure': 'py_stringsimjoin.utils.validation',
    'find_output_attribute_indices': 'py_stringsimjoin.utils.generic_helper',
    'get_output_header_from_tables': 'py_stringsimjoin.utils.generic_helper',
    'get_output_row_from_tables': 'py_stringsimjoin.utils.generic_helper',
    'COMP_OP_MAP': 'py_stringsimjoin.utils.generic_helper',
    'get_sim_function': 'py_stringsimjoin.utils.simfunctions',
    'gen_token_ordering_for_tables': 'py_stringsimjoin.utils.token_ordering',
    'order_using_token_ordering': 'py_stringsimjoin.utils.token_ordering',
    'validate_sim_measure_type': 'py_stringsimjoin.utils.validation',
    'validate_threshold': 'py_stringsimjoin.utils.validation',
    'validate_tokenizer_for_sim_measure': 'py_stringsimjoin.utils.validation',
    'Filter': 'py_stringsimjoin.filter.filter',
    'Index': 'py_stringsimjoin.index.index',
    'maxsize': 'sys',
}
BUILTINS = {'len', 'round', 'range', 'True', 'False', 'None', 'min', 'max', 'int', 'float', 'list', 'sorted'}
# module-qualified names that may appear only inside statements that are dropped / rewritten
IMPORTED_MODULES = {'pd': 'pandas', 'pyprind': 'pyprind'}

ISINSTANCE_ONLY = {'validate_tokenizer_for_sim_measure', 'validate_tokenizer'}
KEPT_VALIDATORS = {'validate_sim_measure_type', 'validate_threshold', 'validate_comp_op_for_sim_measure'}


def module_path(repo, dotted):
    return os.path.join(repo, *dotted.split('.')) + '.py'


def import_table(tree):
    """name -> module for `from M import N [as A]`; alias -> module for `import M [as A]`."""
    names, mods = {}, {}
    for n in tree.body:
        if isinstance(n, ast.ImportFrom):
            if n.level:
                raise Unsupported('relative import')
            for a in n.names:
                names[a.asname or a.name] = (n.module, a.name)
        elif isinstance(n, ast.Import):
            for a in n.names:
                mods[a.asname or a.name] = a.name
    return names, mods


def check_imports(tree, fn, extra_locals=()):
    """Every free name of fn resolves to the expected module."""
    names, mods = import_table(tree)
    bound = set(a.arg for a in fn.args.args) | set(extra_locals)
    for n in ast.walk(fn):
        if isinstance(n, ast.Name) and isinstance(n.ctx, ast.Store):
            bound.add(n.id)
    toplevel = set()
    for n in tree.body:
        if isinstance(n, (ast.FunctionDef, ast.ClassDef)):
            toplevel.add(n.name)
        if isinstance(n, ast.Assign):
            for t in n.targets:
                if isinstance(t, ast.Name):
                    toplevel.add(t.id)
    for n in ast.walk(fn):
        if isinstance(n, ast.Name) and isinstance(n.ctx, ast.Load) and n.id not in bound:
            if n.id in BUILTINS or n.id == 'self' or n.id == 'super':
                continue
            if n.id in mods:
                if IMPORTED_MODULES.get(n.id) != mods[n.id]:
                    raise Unsupported('module alias %s = %s' % (n.id, mods[n.id]))
                continue
            if n.id in toplevel:
                raise Unsupported('use of module-level definition %s' % n.id)
            if n.id not in names:
                raise Unsupported('free name %s is not imported' % n.id)
            mod, orig = names[n.id]
            if orig != n.id or EXPECTED_IMPORTS.get(n.id) != mod:
                raise Unsupported('%s is imported from %s.%s' % (n.id, mod, orig))


def assigned_anywhere(fn):
    out = {}
    for n in ast.walk(fn):
        if isinstance(n, ast.Name) and isinstance(n.ctx, (ast.Store, ast.Del)):
            out[n.id] = out.get(n.id, 0) + 1
    return out


def isinstance_only(tree, name):
    """The callee only inspects classes / compares with string constants, raises or returns True."""
    fns = [n for n in tree.body if isinstance(n, ast.FunctionDef) and n.name == name]
    if len(fns) != 1:
        raise Unsupported('%s not found exactly once' % name)
    params = set(a.arg for a in fns[0].args.args)

    def test_ok(t):
        if isinstance(t, ast.UnaryOp) and isinstance(t.op, ast.Not):
            return test_ok(t.operand)
        if isinstance(t, ast.Call) and isinstance(t.func, ast.Name) and t.func.id == 'isinstance' and \
                len(t.args) == 2 and isinstance(t.args[0], ast.Name) and t.args[0].id in params and \
                isinstance(t.args[1], ast.Name):
            return True
        if isinstance(t, ast.Compare) and len(t.ops) == 1 and isinstance(t.ops[0], (ast.Eq, ast.NotEq)) and \
                isinstance(t.left, ast.Name) and t.left.id in params and \
                isinstance(t.comparators[0], ast.Constant) and isinstance(t.comparators[0].value, str):
            return True
        return False

    def block_ok(ss):
        for s in ss:
            if isinstance(s, ast.Expr) and isinstance(s.value, ast.Constant):
                continue
            if isinstance(s, ast.Raise):
                continue
            if isinstance(s, ast.Return) and isinstance(s.value, ast.Constant) and s.value.value is True:
                continue
            if isinstance(s, ast.If) and test_ok(s.test) and block_ok(s.body) and block_ok(s.orelse):
                continue
            return False
        return True
    if not block_ok(fns[0].body):
        raise Unsupported('%s does more than isinstance checks' % name)


class ObjectInfo:
    def __init__(self, var, rel, cls_name):
        self.var, self.rel, self.cls_name = var, rel, cls_name
        self.attr = {}          # attribute -> ast expression (a Name) holding its current value


def bind_args(fn_def, call, what, skip_self=True):
    """parameter -> argument expression, resolving keywords and constant defaults."""
    a = fn_def.args
    if a.vararg or a.kwarg or a.kwonlyargs or getattr(a, 'posonlyargs', None):
        raise Unsupported('signature of ' + what)
    params = [x.arg for x in a.args][1 if skip_self else 0:]
    defaults = dict(zip(params[len(params) - len(a.defaults):], a.defaults)) if a.defaults else {}
    if len(call.args) > len(params) or any(isinstance(x, ast.Starred) for x in call.args):
        raise Unsupported('arguments of ' + what)
    out = dict(zip(params, call.args))
    for kw in call.keywords:
        if kw.arg is None or kw.arg not in params or kw.arg in out:
            raise Unsupported('keyword argument of ' + what)
        out[kw.arg] = kw.value
    for p in params:
        if p not in out:
            if p not in defaults or not isinstance(defaults[p], ast.Constant):
                raise Unsupported('missing argument %s of %s' % (p, what))
            out[p] = copy.deepcopy(defaults[p])
    return params, out


class JoinPreparer:
    def __init__(self, repo, rel, fname, objects, methods_cfg, validation_rel):
        """objects: class name -> source file;  methods_cfg: (class, method) -> dict(name=generated
        function, state=[attrs], objparams={param: class})"""
        self.repo = repo
        self.rel = rel
        self.fname = fname
        self.objects = objects
        self.methods_cfg = methods_cfg
        self.validation_rel = validation_rel
        self.srcs = {}
        self.tree = self.tree_of(rel)
        fns = [n for n in self.tree.body if isinstance(n, ast.FunctionDef) and n.name == fname]
        if len(fns) != 1:
            raise Unsupported('function %s not found exactly once in %s' % (fname, rel))
        self.fn = copy.deepcopy(fns[0])
        if self.fn.decorator_list:
            raise Unsupported('decorated ' + fname)
        a = self.fn.args
        if a.vararg or a.kwarg or a.kwonlyargs or a.defaults or getattr(a, 'posonlyargs', None):
            raise Unsupported('signature of ' + fname)
        methods.local_names(self.fn)         # rejects nested defs, lambdas, global/nonlocal
        self.params = [x.arg for x in a.args]
        self.objs = {}             # variable -> ObjectInfo
        self.fun_params = {}       # name -> arity
        self.notes = []

    def tree_of(self, rel):
        if rel not in self.srcs:
            self.srcs[rel] = open(os.path.join(self.repo, rel)).read()
        return ast.parse(self.srcs[rel])

    # ------------------------------------------------------------------ result
    def rewrite_result(self):
        body = self.fn.body
        if len(body) < 2:
            raise Unsupported('result shape')
        asg, ret = body[-2], body[-1]
        ok = (isinstance(asg, ast.Assign) and len(asg.targets) == 1 and isinstance(asg.targets[0], ast.Name) and
              isinstance(ret, ast.Return) and isinstance(ret.value, ast.Name) and
              ret.value.id == asg.targets[0].id)
        c = asg.value if ok else None
        ok = ok and isinstance(c, ast.Call) and isinstance(c.func, ast.Attribute) and c.func.attr == 'DataFrame' and \
            isinstance(c.func.value, ast.Name) and c.func.value.id == 'pd' and len(c.args) == 1 and \
            isinstance(c.args[0], ast.Name) and len(c.keywords) == 1 and c.keywords[0].arg == 'columns' and \
            isinstance(c.keywords[0].value, ast.Name)
        if not ok:
            raise Unsupported('%s does not end in `t = pd.DataFrame(rows, columns=header); return t`' % self.fname)
        tname = asg.targets[0].id
        rets = [n for n in ast.walk(self.fn) if isinstance(n, ast.Return)]
        if len(rets) != 1:
            raise Unsupported('more than one return in ' + self.fname)
        uses = [n for n in ast.walk(self.fn) if isinstance(n, ast.Name) and n.id == tname]
        if len(uses) != 2:
            raise Unsupported('result table %s is used elsewhere' % tname)
        rows, header = c.args[0].id, c.keywords[0].value.id
        for nm in (rows, header):
            if nm in self.params:
                raise Unsupported('result component %s is a parameter' % nm)
        self.fn.body = body[:-2] + [ast.Return(value=ast.Tuple(
            elts=[ast.Name(id=rows, ctx=ast.Load()), ast.Name(id=header, ctx=ast.Load())], ctx=ast.Load()))]
        self.notes.append('return (%s, %s) instead of pd.DataFrame(%s, columns=%s)' % (rows, header, rows, header))

    # ------------------------------------------------------------------ progress bar
    def drop_progress(self):
        dropped = []

        def stmt_ok(s):
            if isinstance(s, ast.Assign) and len(s.targets) == 1 and isinstance(s.targets[0], ast.Name) and \
                    s.targets[0].id == 'prog_bar' and isinstance(s.value, ast.Call) and \
                    isinstance(s.value.func, ast.Attribute) and s.value.func.attr == 'ProgBar' and \
                    isinstance(s.value.func.value, ast.Name) and s.value.func.value.id == 'pyprind':
                return True
            if isinstance(s, ast.Expr) and isinstance(s.value, ast.Call) and \
                    isinstance(s.value.func, ast.Attribute) and s.value.func.attr == 'update' and \
                    isinstance(s.value.func.value, ast.Name) and s.value.func.value.id == 'prog_bar' and \
                    not s.value.args and not s.value.keywords:
                return True
            return False

        def walk(ss):
            out = []
            for s in ss:
                if isinstance(s, ast.If) and isinstance(s.test, ast.Name) and s.test.id == 'show_progress':
                    if s.orelse or not all(stmt_ok(x) for x in s.body):
                        raise Unsupported('`if show_progress:` does more than drive the progress bar')
                    dropped.append(s)
                    continue
                for f in ('body', 'orelse'):
                    if hasattr(s, f) and isinstance(getattr(s, f), list):
                        setattr(s, f, walk(getattr(s, f)))
                        if f == 'body' and not s.body:
                            s.body = [ast.Pass()]
                out.append(s)
            return out
        self.fn.body = walk(self.fn.body)
        for n in ast.walk(self.fn):
            if isinstance(n, ast.Name) and n.id in ('prog_bar', 'pyprind'):
                raise Unsupported('progress bar used outside `if show_progress:`')
            if isinstance(n, ast.Name) and n.id == 'show_progress' and isinstance(n.ctx, ast.Store):
                raise Unsupported('show_progress rebound')
        if 'show_progress' in self.params and dropped:
            self.notes.append('%d `if show_progress:` statement(s) dropped (progress bar only)' % len(dropped))

    # ------------------------------------------------------------------ function-valued locals
    def function_values(self):
        out = []
        for s in self.fn.body:
            if isinstance(s, ast.Assign) and isinstance(s.value, ast.Call) and \
                    isinstance(s.value.func, ast.Name) and s.value.func.id == 'get_sim_function':
                if len(s.targets) != 1 or not isinstance(s.targets[0], ast.Name) or \
                        len(s.value.args) != 1 or s.value.keywords or \
                        not isinstance(s.value.args[0], ast.Name) or \
                        not (s.value.args[0].id in self.params or
                             assigned_anywhere(self.fn).get(s.value.args[0].id) == 1):
                    raise Unsupported('get_sim_function shape')
                f = s.targets[0].id
                if assigned_anywhere(self.fn).get(f) != 1 or f in self.params:
                    raise Unsupported('%s is rebound' % f)
                self.fun_params[f] = 2
                self.notes.append('%s = get_sim_function(%s): %s is a function parameter (pyval -> pyval -> pyval)'
                                  % (f, s.value.args[0].id, f))
                continue
            out.append(s)
        self.fn.body = out
        for n in ast.walk(self.fn):
            if isinstance(n, ast.Name) and n.id == 'get_sim_function':
                raise Unsupported('get_sim_function used below the top level')

    # ------------------------------------------------------------------ object parameters
    def init_attrs(self, rel, cls_name, depth=0):
        """attributes stored by the constructor chain of a class, in order"""
        if depth > 3:
            raise Unsupported('constructor chain too deep')
        tree = self.tree_of(rel)
        cls = methods.find_class(tree, cls_name)
        out = []
        inits = [n for n in cls.body if isinstance(n, ast.FunctionDef) and n.name == '__init__']
        if inits:
            for n in ast.walk(inits[0]):
                if isinstance(n, ast.Attribute) and isinstance(n.value, ast.Name) and n.value.id == 'self' and \
                        isinstance(n.ctx, ast.Store) and n.attr not in out:
                    out.append(n.attr)
        for b in cls.bases:
            if isinstance(b, ast.Name) and b.id != 'object':
                names, _ = import_table(tree)
                if b.id not in names or EXPECTED_IMPORTS.get(b.id) != names[b.id][0]:
                    raise Unsupported('base class %s of %s' % (b.id, cls_name))
                brel = os.path.relpath(module_path(self.repo, names[b.id][0]), self.repo)
                out += [a for a in self.init_attrs(brel, b.id, depth + 1) if a not in out]
        return out

    def object_params(self, cfg):
        prep = self
        self.param_objs = {}
        for name, cls_name in cfg.items():
            if name not in self.params:
                continue
            if name in assigned_anywhere(self.fn):
                raise Unsupported('object parameter %s is rebound' % name)
            rel = self.objects[cls_name]
            attrs = self.init_attrs(rel, cls_name)
            info = ObjectInfo(name, rel, cls_name)
            info.is_param = True
            for a in attrs:
                info.attr[a] = ast.Name(id='%s_%s' % (name, a), ctx=ast.Load())
            locs = methods.local_names(self.fn)
            for a in attrs:
                if '%s_%s' % (name, a) in locs:
                    raise Unsupported('name clash %s_%s' % (name, a))

            class Rd(ast.NodeTransformer):
                def visit_Call(s2, c):
                    if isinstance(c.func, ast.Attribute) and isinstance(c.func.value, ast.Name) and \
                            c.func.value.id == name:
                        c.args = [s2.visit(a) for a in c.args]
                        c.keywords = [ast.keyword(arg=k.arg, value=s2.visit(k.value)) for k in c.keywords]
                        return c
                    return s2.generic_visit(c)

                def visit_Attribute(s2, n):
                    if isinstance(n.value, ast.Name) and n.value.id == name:
                        if not isinstance(n.ctx, ast.Load) or n.attr not in info.attr:
                            raise Unsupported('use of %s.%s' % (name, n.attr))
                        return ast.Name(id='%s_%s' % (name, n.attr), ctx=ast.Load())
                    return s2.generic_visit(n)
            self.fn = Rd().visit(self.fn)
            self.objs[name] = info
            self.param_objs[name] = attrs
            # provisional parameter list (pruned to the attributes actually used in finish_params)
            k = self.params.index(name)
            self.params[k:k + 1] = ['%s_%s' % (name, a) for a in attrs]

    def finish_params(self):
        used = set(n.id for n in ast.walk(self.fn) if isinstance(n, ast.Name))
        new = []
        for a in self.fn.args.args:
            if a.arg in getattr(self, 'param_objs', {}):
                kept = ['%s_%s' % (a.arg, x) for x in self.param_objs[a.arg] if '%s_%s' % (a.arg, x) in used]
                new += [ast.arg(arg=k) for k in kept]
                self.notes.append('parameter %s (a %s constructed by the caller) replaced by its attributes %s'
                                  % (a.arg, self.objs[a.arg].cls_name, ', '.join(kept)))
            else:
                new.append(a)
        self.fn.args.args = new

    # ------------------------------------------------------------------ constructors
    def never_rebound_param(self, e):
        return isinstance(e, ast.Name) and e.id in self.params and e.id not in assigned_anywhere(self.fn)

    def inline_init(self, info, rel, cls_name, argmap, depth=0):
        """statements for Cls.__init__ with the given parameter -> expression map"""
        if depth > 3:
            raise Unsupported('constructor chain too deep')
        tree = self.tree_of(rel)
        cls = methods.find_class(tree, cls_name)
        inits = [n for n in cls.body if isinstance(n, ast.FunctionDef) and n.name == '__init__']
        if not inits:
            # no constructor: only `object` (or a class that itself has none) may be above
            for b in cls.body:
                if not isinstance(b, (ast.Pass, ast.Expr, ast.FunctionDef)):
                    raise Unsupported('class body of ' + cls_name)
            if argmap:
                raise Unsupported('arguments for %s without __init__' % cls_name)
            for b in cls.bases:
                if not (isinstance(b, ast.Name) and b.id == 'object'):
                    raise Unsupported('base of ' + cls_name)
            return []
        init = methods.find_method(cls, '__init__')
        methods.local_names(init)
        check_imports(tree, init)
        subst = dict(argmap)
        out = []

        class Sub(ast.NodeTransformer):
            def visit_Name(s, n):
                if n.id in subst and isinstance(n.ctx, ast.Load):
                    return copy.deepcopy(subst[n.id])
                if n.id == 'self':
                    raise Unsupported('bare self in %s.__init__' % cls_name)
                return n

            def visit_Attribute(s, n):
                if isinstance(n.value, ast.Name) and n.value.id == 'self':
                    if isinstance(n.ctx, ast.Load) and n.attr in info.attr:
                        return copy.deepcopy(info.attr[n.attr])
                    raise Unsupported('self.%s in %s.__init__' % (n.attr, cls_name))
                return s.generic_visit(n)

        for s in init.body:
            if isinstance(s, ast.Expr) and isinstance(s.value, ast.Constant) and isinstance(s.value.value, str):
                continue
            if isinstance(s, ast.Expr) and isinstance(s.value, ast.Call):
                c = s.value
                if isinstance(c.func, ast.Name) and c.func.id in ISINSTANCE_ONLY:
                    isinstance_only(self.tree_of(self.validation_rel), c.func.id)
                    self.notes.append('%s(...) in %s.__init__ dropped (isinstance checks on the tokenizer object)'
                                      % (c.func.id, cls_name))
                    continue
                if isinstance(c.func, ast.Name) and c.func.id in KEPT_VALIDATORS:
                    out.append(ast.Expr(value=Sub().visit(copy.deepcopy(c))))
                    continue
                # super(self.__class__, self).__init__(args) / super(Cls, self).__init__(args)
                f = c.func
                if isinstance(f, ast.Attribute) and f.attr == '__init__' and isinstance(f.value, ast.Call) and \
                        isinstance(f.value.func, ast.Name) and f.value.func.id == 'super' and \
                        len(f.value.args) == 2 and isinstance(f.value.args[1], ast.Name) and \
                        f.value.args[1].id == 'self':
                    a0 = f.value.args[0]
                    first_ok = (isinstance(a0, ast.Name) and a0.id == cls_name) or \
                               (isinstance(a0, ast.Attribute) and a0.attr == '__class__' and
                                isinstance(a0.value, ast.Name) and a0.value.id == 'self')
                    if not first_ok or len(cls.bases) != 1 or not isinstance(cls.bases[0], ast.Name):
                        raise Unsupported('super() shape in %s.__init__' % cls_name)
                    base = cls.bases[0].id
                    if base == 'object':
                        if c.args or c.keywords:
                            raise Unsupported('object.__init__ with arguments')
                        continue
                    names, _ = import_table(tree)
                    if base not in names or names[base][1] != base or EXPECTED_IMPORTS.get(base) != names[base][0]:
                        raise Unsupported('base class %s of %s' % (base, cls_name))
                    brel = os.path.relpath(module_path(self.repo, names[base][0]), self.repo)
                    btree = self.tree_of(brel)
                    bcls = methods.find_class(btree, base)
                    binits = [n for n in bcls.body if isinstance(n, ast.FunctionDef) and n.name == '__init__']
                    if binits:
                        _, amap = bind_args(binits[0], c, '%s.__init__' % base)
                        amap = {k: Sub().visit(copy.deepcopy(v)) for k, v in amap.items()}
                    else:
                        if c.args or c.keywords:
                            raise Unsupported('arguments for %s without __init__' % base)
                        amap = {}
                    out += self.inline_init(info, brel, base, amap, depth + 1)
                    continue
                raise Unsupported('call in %s.__init__: %s' % (cls_name, ast.unparse(c)))
            if isinstance(s, ast.Assign) and len(s.targets) == 1:
                t = s.targets[0]
                val = Sub().visit(copy.deepcopy(s.value))
                if isinstance(t, ast.Name):
                    loc = '%s__%s' % (info.var, t.id)
                    out.append(ast.Assign(targets=[ast.Name(id=loc, ctx=ast.Store())], value=val))
                    subst[t.id] = ast.Name(id=loc, ctx=ast.Load())
                    continue
                if isinstance(t, ast.Attribute) and isinstance(t.value, ast.Name) and t.value.id == 'self':
                    if self.never_rebound_param(val):
                        info.attr[t.attr] = val
                    else:
                        loc = '%s_%s' % (info.var, t.attr)
                        out.append(ast.Assign(targets=[ast.Name(id=loc, ctx=ast.Store())], value=val))
                        info.attr[t.attr] = ast.Name(id=loc, ctx=ast.Load())
                    continue
            raise Unsupported('statement in %s.__init__: %s' % (cls_name, ast.unparse(s)))
        return out

    def inline_objects(self):
        counts = assigned_anywhere(self.fn)
        out = []
        for s in self.fn.body:
            if isinstance(s, ast.Assign) and isinstance(s.value, ast.Call) and \
                    isinstance(s.value.func, ast.Name) and s.value.func.id in self.objects:
                cls_name = s.value.func.id
                if len(s.targets) != 1 or not isinstance(s.targets[0], ast.Name):
                    raise Unsupported('construction of %s' % cls_name)
                var = s.targets[0].id
                if counts.get(var) != 1 or var in self.params:
                    raise Unsupported('%s is rebound' % var)
                rel = self.objects[cls_name]
                cls = methods.find_class(self.tree_of(rel), cls_name)
                _, amap = bind_args(methods.find_method(cls, '__init__'), s.value, cls_name + '()')
                for k, v in amap.items():
                    if not isinstance(v, (ast.Name, ast.Constant)):
                        raise Unsupported('constructor argument %s of %s is not a name' % (k, cls_name))
                info = ObjectInfo(var, rel, cls_name)
                self.objs[var] = info
                out += self.inline_init(info, rel, cls_name, amap)
                self.notes.append('%s = %s(...): constructor inlined; attributes %s' % (
                    var, cls_name, ', '.join('%s=%s' % (a, ast.unparse(e)) for a, e in sorted(info.attr.items()))))
                continue
            out.append(s)
        self.fn.body = out
        for n in ast.walk(self.fn):
            if isinstance(n, ast.Name) and n.id in self.objects:
                raise Unsupported('construction of %s below the top level' % n.id)
        # local names introduced must be new
        locs = methods.local_names(self.fn)
        return locs

    # ------------------------------------------------------------------ method calls
    def method_calls(self, extracted):
        """extracted: generated name -> (python parameter list, info dict of extract_method)"""
        seen = {}
        prep = self

        def rewrite_call(c, top):
            """c: x.m(args) with x an inlined object -> (new call, state attrs)"""
            var, m = c.func.value.id, c.func.attr
            info = prep.objs[var]
            key = (info.cls_name, m)
            if key not in prep.methods_cfg:
                raise Unsupported('method %s.%s is not configured' % key)
            cfg = prep.methods_cfg[key]
            cls = methods.find_class(prep.tree_of(info.rel), info.cls_name)
            own, amap = bind_args(methods.find_method(cls, m), c, '%s.%s' % key)
            pyparams, inf = extracted[cfg['name']]
            if inf['own_params'] != own or pyparams != inf['reads'] + own:
                raise Unsupported('signature of generated %s' % cfg['name'])
            args = []
            for a in inf['reads']:
                if a not in info.attr:
                    raise Unsupported('%s.%s is read by %s but not set by the constructor' % (var, a, m))
                args.append(copy.deepcopy(info.attr[a]))
            for p in own:
                v = amap[p]
                if p in cfg.get('objparams', {}):
                    if not (isinstance(v, ast.Name) and v.id in prep.objs and
                            prep.objs[v.id].cls_name == cfg['objparams'][p]):
                        raise Unsupported('argument %s of %s.%s must be an inlined %s' % (
                            p, var, m, cfg['objparams'][p]))
                    o = prep.objs[v.id]
                    for (c2, m2), cfg2 in prep.methods_cfg.items():
                        if c2 == o.cls_name and extracted[cfg2['name']][1]['state'] and not seen.get((v.id, m2)):
                            raise Unsupported('%s is used before %s.%s()' % (v.id, v.id, m2))
                    for a in cfg['objattrs'][p]:
                        e = o.attr.get(a)
                        if not (isinstance(e, ast.Name) and e.id == '%s_%s' % (o.var, a)):
                            raise Unsupported('%s.%s is not held in a local' % (o.var, a))
                args.append(copy.deepcopy(v))
            if inf['state'] and getattr(info, 'is_param', False):
                raise Unsupported('state-changing %s.%s on an object constructed by the caller' % (var, m))
            if inf['state']:
                if not top or seen.get((var, m)):
                    raise Unsupported('state-changing %s.%s must be called once, at the top level' % (var, m))
                for a in inf['state']:
                    e = info.attr.get(a)
                    if not (isinstance(e, ast.Name) and e.id == '%s_%s' % (var, a)):
                        raise Unsupported('state attribute %s.%s is not held in a local' % (var, a))
            seen[(var, m)] = seen.get((var, m), 0) + 1
            return ast.Call(func=ast.Name(id=cfg['name'], ctx=ast.Load()), args=args, keywords=[]), inf['state']

        def is_obj_call(e):
            return isinstance(e, ast.Call) and isinstance(e.func, ast.Attribute) and \
                isinstance(e.func.value, ast.Name) and e.func.value.id in prep.objs

        def walk(ss, top):
            out = []
            for s in ss:
                if isinstance(s, ast.Expr) and is_obj_call(s.value):
                    # result discarded: bind it to a name nothing reads
                    unused = '%s__%s_result' % (s.value.func.value.id, s.value.func.attr)
                    if unused in methods.local_names(prep.fn):
                        raise Unsupported('name clash ' + unused)
                    s = ast.Assign(targets=[ast.Name(id=unused, ctx=ast.Store())], value=s.value)
                if isinstance(s, ast.Assign) and is_obj_call(s.value):
                    if len(s.targets) != 1 or not isinstance(s.targets[0], ast.Name):
                        raise Unsupported('target of a method call')
                    var = s.value.func.value.id
                    call, state = rewrite_call(s.value, top)
                    if state:
                        tgt = ast.Tuple(elts=[ast.Name(id='%s_%s' % (var, a), ctx=ast.Store()) for a in state] +
                                        [s.targets[0]], ctx=ast.Store())
                        out.append(ast.Assign(targets=[tgt], value=call))
                    else:
                        out.append(ast.Assign(targets=s.targets, value=call))
                    continue
                for f in ('body', 'orelse'):
                    if hasattr(s, f) and isinstance(getattr(s, f), list):
                        setattr(s, f, walk(getattr(s, f), False))
                out.append(s)
            return out
        self.fn.body = walk(self.fn.body, True)
        # obj.attr (read) -> the local holding the attribute
        class Attr(ast.NodeTransformer):
            def visit_Attribute(s2, n):
                if isinstance(n.value, ast.Name) and n.value.id in prep.objs:
                    o = prep.objs[n.value.id]
                    e = o.attr.get(n.attr)
                    if not isinstance(n.ctx, ast.Load) or e is None:
                        raise Unsupported('use of %s.%s' % (o.var, n.attr))
                    if not isinstance(e, ast.Name):
                        raise Unsupported('%s.%s is not held in a name' % (o.var, n.attr))
                    prep.notes.append('%s.%s read as %s' % (o.var, n.attr, e.id))
                    return ast.Name(id=e.id, ctx=ast.Load())
                return s2.generic_visit(n)
        self.fn = Attr().visit(self.fn)
        # every remaining use of an object variable must be as the object argument we just checked
        allowed = set()
        for n in ast.walk(self.fn):
            if isinstance(n, ast.Call) and isinstance(n.func, ast.Name) and \
                    n.func.id in [c['name'] for c in self.methods_cfg.values()]:
                for a in n.args:
                    if isinstance(a, ast.Name) and a.id in self.objs:
                        allowed.add(id(a))
        for n in ast.walk(self.fn):
            if isinstance(n, ast.Name) and n.id in self.objs and id(n) not in allowed:
                raise Unsupported('object %s is used other than through a configured method' % n.id)

    def prepare(self, extracted, obj_params=None):
        check_imports(self.tree, self.fn)
        self.rewrite_result()
        self.drop_progress()
        self.object_params(obj_params or {})
        self.function_values()
        self.inline_objects()
        self.method_calls(extracted)
        self.finish_params()
        ast.fix_missing_locations(self.fn)
        fn = ast.parse(ast.unparse(self.fn)).body[0]
        return fn
