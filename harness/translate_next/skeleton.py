"""Control skeleton + mutation summary of every API entry point, regenerated from the AST.

Each top-level statement of an entry point is classified (fail-closed) as one of
  Validate  -- a call of a validate_* helper / an `if ...: raise` guard (may raise, no effect)
  Pure      -- assignment whose right-hand side has no call of a method that touches the tokenizer flag
  FlipTo b  -- `flag_var = False` followed by `if [not] tok.get_return_set(): tok.set_return_set(b); flag_var = True`
  Restore b -- `if flag_var: tok.set_return_set(b)`
  EarlyRet  -- `if <cond>: return <expr>`
  Work      -- anything else that contains no set_return_set / raise / return
  Ret       -- the final `return`
  Inlined callee events for `X = Filter(...)` / `X.filter_tables(...)` (overlap_join_py)
  TryFinally(body, fin)
The Coq side (Proofs/Skeleton.v) gives the semantics and proves that the boolean checkers
evaluated on this generated list imply the behavioural statements of C12 / C15."""
import ast
import warnings
warnings.filterwarnings("ignore")
import hashlib
import os


class Unsupported(Exception):
    pass


ENTRY_POINTS = [
    # (name, file, class or None, function)
    ('jaccard_join_py', 'py_stringsimjoin/join/jaccard_join_py.py', None, 'jaccard_join_py'),
    ('cosine_join_py', 'py_stringsimjoin/join/cosine_join_py.py', None, 'cosine_join_py'),
    ('dice_join_py', 'py_stringsimjoin/join/dice_join_py.py', None, 'dice_join_py'),
    ('overlap_coefficient_join_py', 'py_stringsimjoin/join/overlap_coefficient_join_py.py', None,
     'overlap_coefficient_join_py'),
    ('overlap_join_py', 'py_stringsimjoin/join/overlap_join_py.py', None, 'overlap_join_py'),
    ('edit_distance_join_py', 'py_stringsimjoin/join/edit_distance_join_py.py', None,
     'edit_distance_join_py'),
    ('SizeFilter.__init__', 'py_stringsimjoin/filter/size_filter.py', 'SizeFilter', '__init__'),
    ('PrefixFilter.__init__', 'py_stringsimjoin/filter/prefix_filter.py', 'PrefixFilter', '__init__'),
    ('PositionFilter.__init__', 'py_stringsimjoin/filter/position_filter.py', 'PositionFilter', '__init__'),
    ('SuffixFilter.__init__', 'py_stringsimjoin/filter/suffix_filter.py', 'SuffixFilter', '__init__'),
    ('OverlapFilter.__init__', 'py_stringsimjoin/filter/overlap_filter.py', 'OverlapFilter', '__init__'),
    ('SizeFilter.filter_tables', 'py_stringsimjoin/filter/size_filter.py', 'SizeFilter', 'filter_tables'),
    ('PrefixFilter.filter_tables', 'py_stringsimjoin/filter/prefix_filter.py', 'PrefixFilter', 'filter_tables'),
    ('PositionFilter.filter_tables', 'py_stringsimjoin/filter/position_filter.py', 'PositionFilter',
     'filter_tables'),
    ('SuffixFilter.filter_tables', 'py_stringsimjoin/filter/suffix_filter.py', 'SuffixFilter', 'filter_tables'),
    ('OverlapFilter.filter_tables', 'py_stringsimjoin/filter/overlap_filter.py', 'OverlapFilter',
     'filter_tables'),
    ('Filter.filter_candset', 'py_stringsimjoin/filter/filter.py', 'Filter', 'filter_candset'),
    ('apply_matcher', 'py_stringsimjoin/matcher/apply_matcher.py', None, 'apply_matcher'),
    ('profile_table_for_join', 'py_stringsimjoin/profiler/profiler.py', None, 'profile_table_for_join'),
    ('dataframe_column_to_str', 'py_stringsimjoin/utils/converter.py', None, 'dataframe_column_to_str'),
    ('series_to_str', 'py_stringsimjoin/utils/converter.py', None, 'series_to_str'),
]

PURE_CALLS = ('int', 'float', 'floor', 'ceil', 'len', 'min', 'max', 'list')
PURE_METHODS = ('upper', 'lower')
INLINE_CALLEES = {'OverlapFilter': 'OverlapFilter.__init__'}
MUTATORS = ('insert', 'update', 'append', 'sort', 'sort_values', 'drop', 'pop', 'extend', 'remove',
            'set_index', 'reset_index', 'fillna', 'dropna', 'rename', 'set_return_set', 'clear',
            'setdefault', '__setitem__')
# methods that mutate only when called with inplace=True
INPLACE_ONLY = ('sort_values', 'drop', 'set_index', 'reset_index', 'fillna', 'dropna', 'rename')


def find_function(tree, cls, fn):
    body = tree.body
    if cls:
        for n in tree.body:
            if isinstance(n, ast.ClassDef) and n.name == cls:
                body = n.body
                break
        else:
            raise Unsupported('class %s not found' % cls)
    for n in body:
        if isinstance(n, ast.FunctionDef) and n.name == fn:
            return n
    raise Unsupported('function %s not found' % fn)


def contains(node, pred):
    return any(pred(n) for n in ast.walk(node))


def is_call_named(n, prefix):
    return isinstance(n, ast.Call) and isinstance(n.func, ast.Name) and n.func.id.startswith(prefix)


def calls_method(node, name):
    return contains(node, lambda n: isinstance(n, ast.Call) and isinstance(n.func, ast.Attribute) and
                    n.func.attr == name)


def only_raises(stmts):
    return all(isinstance(s, ast.Raise) for s in stmts) and len(stmts) >= 1


def exc_name(r):
    e = r.exc
    if isinstance(e, ast.Call):
        e = e.func
    if isinstance(e, ast.Name):
        return e.id
    raise Unsupported('raise shape')


class Extractor:
    def __init__(self, repo):
        self.repo = repo
        self.trees = {}

    def tree(self, rel):
        if rel not in self.trees:
            self.trees[rel] = ast.parse(open(os.path.join(self.repo, rel)).read())
        return self.trees[rel]

    def simple_events(self, stmts, fn, allow_try=True):
        """Returns a list of events; event = ('Validate', name) | ('Pure',) | ('FlipTo', b) |
        ('Restore', b) | ('EarlyRet',) | ('Work',) | ('Ret',) | ('Try', body, fin)."""
        ev = []
        i = 0
        while i < len(stmts):
            s = stmts[i]
            nxt = stmts[i + 1] if i + 1 < len(stmts) else None
            # docstring
            if isinstance(s, ast.Expr) and isinstance(s.value, ast.Constant):
                i += 1
                continue
            if isinstance(s, (ast.Import, ast.ImportFrom)):
                ev.append(('Pure',))
                i += 1
                continue
            if isinstance(s, ast.Try):
                if not allow_try or s.handlers or s.orelse or not s.finalbody:
                    raise Unsupported('%s: try shape (line %d)' % (fn, s.lineno))
                body = self.simple_events(s.body, fn, allow_try=False)
                fin = self.simple_events(s.finalbody, fn, allow_try=False)
                ev.append(('Try', body, fin))
                i += 1
                continue
            # validate_xxx(...)
            if isinstance(s, ast.Expr) and is_call_named(s.value, 'validate_'):
                ev.append(('Validate', s.value.func.id))
                i += 1
                continue
            # if cond: validate / raise   (guards)
            if isinstance(s, ast.If) and not s.orelse and not calls_method(s, 'set_return_set'):
                inner = self.guard_events(s.body)
                if inner is not None:
                    ev += inner
                    i += 1
                    continue
            # profiler: `if x is None: assign  else: for attr in ...: validate_attr(...)`
            if isinstance(s, ast.If) and s.orelse and not calls_method(s, 'set_return_set') and \
                    not contains(s, lambda n: isinstance(n, (ast.Return, ast.Raise))):
                names = [n.func.id for n in ast.walk(s) if is_call_named(n, 'validate_')]
                if names:
                    ev += [('Validate', nm) for nm in names]
                    i += 1
                    continue
            # flag_var = False ; if [not] tok.get_return_set(): tok.set_return_set(b); flag_var = True
            if isinstance(s, ast.Assign) and isinstance(s.value, ast.Constant) and s.value.value is False \
                    and isinstance(nxt, ast.If) and calls_method(nxt, 'set_return_set'):
                b = self.flip_shape(nxt, s.targets[0])
                ev.append(('FlipTo', b))
                i += 2
                continue
            if isinstance(s, ast.If) and calls_method(s, 'set_return_set'):
                b = self.restore_shape(s)
                ev.append(('Restore', b))
                i += 1
                continue
            if calls_method(s, 'set_return_set'):
                raise Unsupported('%s: set_return_set in an unrecognised statement (line %d)' % (fn, s.lineno))
            if isinstance(s, ast.If) and not s.orelse and len(s.body) == 1 and \
                    isinstance(s.body[0], ast.Return) and not contains(s.test, lambda n: isinstance(n, ast.Call) and
                                                                        is_call_named(n, 'validate_')):
                ev.append(('EarlyRet',))
                i += 1
                continue
            if isinstance(s, ast.Return):
                if contains(s, lambda n: is_call_named(n, 'validate_')):
                    raise Unsupported('validate in return')
                ev.append(('Ret',))
                i += 1
                continue
            # X = Callee(...)  /  X = obj.filter_tables(...): inline the callee's skeleton
            inl = self.inline_target(s)
            if inl is not None:
                ev += inl
                i += 1
                continue
            # converter: if/else trees with raise/return inside: treat an If whose branches end in
            # return/raise as a terminal decision block
            if isinstance(s, (ast.If,)) and contains(s, lambda n: isinstance(n, (ast.Return, ast.Raise))):
                if contains(s, lambda n: isinstance(n, ast.Raise)):
                    ev.append(('Validate', 'inline_guard'))
                ev.append(('EarlyRet',))
                i += 1
                continue
            if contains(s, lambda n: isinstance(n, (ast.Raise, ast.Return))):
                raise Unsupported('%s: raise/return nested in statement at line %d' % (fn, s.lineno))
            if contains(s, lambda n: is_call_named(n, 'validate_')):
                raise Unsupported('%s: validate_ call nested in statement at line %d' % (fn, s.lineno))
            if isinstance(s, (ast.Assign, ast.AugAssign)) and all(
                    (isinstance(n.func, ast.Name) and n.func.id in PURE_CALLS) or
                    (isinstance(n.func, ast.Attribute) and n.func.attr in PURE_METHODS)
                    for n in ast.walk(s) if isinstance(n, ast.Call)) and \
                    all(isinstance(t, ast.Name) or (isinstance(t, ast.Attribute) and isinstance(t.value, ast.Name)
                                                    and t.value.id == 'self')
                        for t in (s.targets if isinstance(s, ast.Assign) else [s.target])):
                ev.append(('Pure',))
            elif isinstance(s, ast.Expr) and isinstance(s.value, ast.Call) and \
                    isinstance(s.value.func, ast.Attribute) and s.value.func.attr == '__init__' and \
                    isinstance(s.value.func.value, ast.Call) and \
                    isinstance(s.value.func.value.func, ast.Name) and s.value.func.value.func.id == 'super':
                ev.append(('Pure',))          # construction of the fresh filter object
            else:
                ev.append(('Work',))
            i += 1
        return ev

    def guard_events(self, body):
        """Body of an `if` made only of validate_ calls or raise statements -> Validate events."""
        out = []
        for b in body:
            if isinstance(b, ast.Expr) and is_call_named(b.value, 'validate_'):
                out.append(('Validate', b.value.func.id))
            elif isinstance(b, ast.Raise):
                out.append(('Validate', 'raise_' + exc_name(b)))
            elif isinstance(b, ast.For) and all(isinstance(x, ast.Expr) and is_call_named(x.value, 'validate_')
                                                for x in b.body):
                out += [('Validate', x.value.func.id) for x in b.body]
            else:
                return None
        return out or None

    def flip_shape(self, ifs, flagvar):
        if ifs.orelse or len(ifs.body) != 2:
            raise Unsupported('flip shape')
        test = ifs.test
        neg = False
        if isinstance(test, ast.UnaryOp) and isinstance(test.op, ast.Not):
            neg = True
            test = test.operand
        if not (isinstance(test, ast.Call) and isinstance(test.func, ast.Attribute) and
                test.func.attr == 'get_return_set'):
            raise Unsupported('flip test')
        c, a = ifs.body
        if not (isinstance(c, ast.Expr) and isinstance(c.value, ast.Call) and
                isinstance(c.value.func, ast.Attribute) and c.value.func.attr == 'set_return_set' and
                len(c.value.args) == 1 and isinstance(c.value.args[0], ast.Constant)):
            raise Unsupported('flip body')
        b = c.value.args[0].value
        if not (isinstance(a, ast.Assign) and isinstance(a.value, ast.Constant) and a.value.value is True and
                ast.dump(a.targets[0]) == ast.dump(flagvar)):
            raise Unsupported('flip flag assignment')
        # `if not get(): set(True)` / `if get(): set(False)`: the set value must differ from the tested one
        if b is not (True if neg else False):
            raise Unsupported('flip sets the value it tested for')
        return bool(b)

    def restore_shape(self, ifs):
        if ifs.orelse or len(ifs.body) != 1 or not isinstance(ifs.test, ast.Name):
            raise Unsupported('restore shape')
        c = ifs.body[0]
        if not (isinstance(c, ast.Expr) and isinstance(c.value, ast.Call) and
                isinstance(c.value.func, ast.Attribute) and c.value.func.attr == 'set_return_set' and
                len(c.value.args) == 1 and isinstance(c.value.args[0], ast.Constant)):
            raise Unsupported('restore body')
        return bool(c.value.args[0].value)

    def inline_target(self, s):
        if not isinstance(s, ast.Assign) or not isinstance(s.value, ast.Call):
            return None
        f = s.value.func
        if isinstance(f, ast.Name) and f.id in INLINE_CALLEES:
            name = INLINE_CALLEES[f.id]
            return [('Begin', name)] + self.callee_events(name) + [('End', name)]
        if isinstance(f, ast.Attribute) and f.attr == 'filter_tables' and isinstance(f.value, ast.Name) and \
                f.value.id == 'overlap_filter':
            name = 'OverlapFilter.filter_tables'
            return [('Begin', name)] + self.callee_events(name) + [('End', name)]
        return None

    def callee_events(self, name):
        """Events of an inlined callee: its final `return` only ends the callee."""
        evs = self.entry_events(name)
        if evs and evs[-1] == ('Ret',):
            evs = evs[:-1]
        for e in evs:
            if e[0] in ('Ret', 'EarlyRet', 'Try', 'FlipTo', 'Restore'):
                raise Unsupported('inlined callee %s has an inner %s' % (name, e[0]))
        return evs

    def entry_events(self, name):
        for nm, rel, cls, fn in ENTRY_POINTS:
            if nm == name:
                f = find_function(self.tree(rel), cls, fn)
                return self.simple_events(f.body, name)
        raise Unsupported('no entry point ' + name)

    # ---- mutation summary: in-place operations whose target is a parameter
    def mutations(self, name):
        for nm, rel, cls, fn in ENTRY_POINTS:
            if nm == name:
                f = find_function(self.tree(rel), cls, fn)
                params = set(a.arg for a in f.args.args) - {'self'}
                rebound = set()
                muts = []
                for n in ast.walk(f):
                    if isinstance(n, (ast.Assign, ast.AugAssign)):
                        tg = n.targets if isinstance(n, ast.Assign) else [n.target]
                        for t in tg:
                            if isinstance(t, ast.Name):
                                rebound.add(t.id)
                            base = t
                            while isinstance(base, (ast.Subscript, ast.Attribute)):
                                base = base.value
                            if isinstance(t, (ast.Subscript, ast.Attribute)) and isinstance(base, ast.Name) \
                                    and base.id in params:
                                muts.append((base.id, 'store', n.lineno))
                    if isinstance(n, ast.Delete):
                        for t in n.targets:
                            base = t
                            while isinstance(base, (ast.Subscript, ast.Attribute)):
                                base = base.value
                            if isinstance(base, ast.Name) and base.id in params:
                                muts.append((base.id, 'del', n.lineno))
                    if isinstance(n, ast.Call) and isinstance(n.func, ast.Attribute) and n.func.attr in MUTATORS:
                        base = n.func.value
                        direct = isinstance(base, ast.Name)
                        while isinstance(base, (ast.Subscript, ast.Attribute)):
                            base = base.value
                        if isinstance(base, ast.Name) and base.id in params:
                            if n.func.attr in INPLACE_ONLY:
                                if not any(k.arg == 'inplace' and not (isinstance(k.value, ast.Constant) and
                                                                        k.value.value is False) for k in n.keywords):
                                    continue
                            if n.func.attr in ('append', 'extend', 'pop', 'remove', 'sort', 'clear', 'insert') \
                                    and not direct:
                                pass
                            muts.append((base.id, n.func.attr, n.lineno))
                # parameters that are re-bound to a new object before being mutated (x = f(x)) are
                # still reported: fail-closed, the Coq side whitelists (param, op) pairs explicitly
                return sorted(set((p, op) for p, op, _ in muts)), sorted(params)
        raise Unsupported('no entry point ' + name)


def ev_lit(e):
    k = e[0]
    if k == 'Validate':
        return '(Validate "%s")' % e[1]
    if k == 'FlipTo':
        return '(FlipTo %s)' % ('true' if e[1] else 'false')
    if k == 'Restore':
        return '(Restore %s)' % ('true' if e[1] else 'false')
    if k == 'Pure':
        return 'Pure'
    if k == 'Work':
        return 'Work'
    if k == 'EarlyRet':
        return 'EarlyRet'
    if k == 'Ret':
        return 'Ret'
    if k == 'Begin':
        return '(Begin "%s")' % e[1]
    if k == 'End':
        return '(End "%s")' % e[1]
    raise Unsupported('event ' + k)


def item_lit(e):
    if e[0] == 'Try':
        for x in e[1] + e[2]:
            if x[0] == 'Try':
                raise Unsupported('nested try')
        return '(TryFinally [%s] [%s])' % ('; '.join(ev_lit(x) for x in e[1]),
                                           '; '.join(ev_lit(x) for x in e[2]))
    return '(Ev %s)' % ev_lit(e)


def generate(repo):
    ex = Extractor(repo)
    lines = ['(* GENERATED control skeletons of the API entry points -- do not edit. *)',
             'From Coq Require Import List String.', 'From SSJ Require Import SkeletonLang.',
             'Import ListNotations.', 'Open Scope string_scope.', '']
    names = []
    h = hashlib.sha256()
    for nm, rel, cls, fn in ENTRY_POINTS:
        h.update(open(os.path.join(repo, rel)).read().encode())
        evs = ex.entry_events(nm)
        ident = 'sk_' + nm.replace('.', '_').replace('__', '')
        lines.append('Definition %s : skeleton :=\n  [%s].' % (ident, ';\n   '.join(item_lit(e) for e in evs)))
        muts, params = ex.mutations(nm)
        lines.append('Definition mut_%s : list (string * string) := [%s].\n' % (
            ident[3:], '; '.join('("%s", "%s")' % m for m in muts)))
        names.append((nm, ident))
    lines.append('Definition all_entry_points : list (string * skeleton) :=\n  [%s].' % ';\n   '.join(
        '("%s", %s)' % (nm, ident) for nm, ident in names))
    lines.append('Definition all_mutations : list (string * list (string * string)) :=\n  [%s].' % ';\n   '.join(
        '("%s", mut_%s)' % (nm, ident[3:]) for nm, ident in names))
    return '\n'.join(lines) + '\n', {'entry_points': len(names), 'sha256': h.hexdigest(), 'source': 'entry points'}


if __name__ == '__main__':
    import sys
    print(generate(sys.argv[1] if len(sys.argv) > 1 else '/repo')[0])
