"""Function-level correspondence for the chunking helpers of utils/generic_helper.py:
split_table (exhaustive grid rows <= 260 x splits <= 48: the chunks must partition the table) and
get_num_processes_to_launch; the GENERATED split_bounds / get_num_processes_to_launch_with_cpus are
evaluated inside Coq on a sample and must give the boundaries the real function produced."""
import os
import random
import sys

sys.path.insert(0, os.path.dirname(os.path.abspath(__file__)))
import common as C  # noqa: E402


def boundaries(n, k):
    from py_stringsimjoin.utils.generic_helper import split_table
    chunks = split_table(list(range(n)), k)
    return chunks


def run(seed, n_sample, max_rows=260, max_splits=48):
    from py_stringsimjoin.utils.generic_helper import get_num_processes_to_launch
    import multiprocessing
    rng = random.Random(seed + 307)
    res = {'evaluations': 0, 'distribution': {'grid': '%dx%d exhaustive' % (max_rows, max_splits)}, 'differ': [],
           'spec_fail': [], 'exceptions': [], 'nontrivial': 0, 'samples': []}
    all_cases = []
    for n in range(0, max_rows + 1):
        for k in range(1, max_splits + 1):
            try:
                chunks = boundaries(n, k)
            except Exception as e:  # noqa
                res['exceptions'].append({'case': len(all_cases), 'call': {'rows': n, 'splits': k,
                                                                         'observed_exception': '%s: %s' % (type(e).__name__, e)}})
                continue
            res['evaluations'] += 1
            flat = [x for c in chunks for x in c]
            ok = len(chunks) == k and flat == list(range(n))
            if k > 1 and n >= k:
                res['nontrivial'] += 1
            if not ok:
                lost = sorted(set(range(n)) - set(flat))
                dup = sorted(set(x for x in flat if flat.count(x) > 1))
                res['spec_fail'].append({'case': len(all_cases), 'which': 'split_table partitions the table',
                                         'call': {'rows': n, 'splits': k, 'rows_lost': lost[:5], 'rows_duplicated': dup[:5],
                                                  'chunk_sizes': [len(c) for c in chunks]}})
            all_cases.append((n, k, chunks))
    # generated definitions vs the real functions, inside Coq
    cases, info = [], []
    pick = rng.sample(all_cases, min(n_sample, len(all_cases)))
    for n, k, chunks in pick:
        bs = []
        pos = 0
        for c in chunks:
            lo = c[0] if c else pos
            hi = lo + len(c)
            bs.append((lo, hi))
            pos = hi
        # the real slice boundaries are not observable for empty chunks; compare chunk lengths instead
        lens = '[%s]' % '; '.join(str(len(c)) for c in chunks)
        cases.append('match bounds_of (split_bounds (PInt %d) (PInt %d)) with Some bs => '
                     'list_eqbZ (map (fun ab : nat * nat => Z.of_nat (snd ab - fst ab)) bs) %s | None => false end'
                     % (n, k, lens))
        info.append({'rows': n, 'splits': k, 'chunk_sizes': [len(c) for c in chunks]})
    cpus = multiprocessing.cpu_count()
    for nj in [1, 2, 3, 0, -1, -2, -cpus, -cpus - 1, -cpus - 5, 50, cpus, cpus + 1]:
        v = get_num_processes_to_launch(nj)
        cases.append('pv_same (get_num_processes_to_launch_with_cpus (PInt %s) (PInt %d)) (PInt %d)' % (C.z(nj), cpus, v))
        info.append({'n_jobs': nj, 'cpus': cpus, 'observed': v})
    res['evaluations'] += len(cases)
    bad = C.run_cases('split_%d' % seed, ['HelperGen', 'TokenOrdering', 'Filters', 'Joins', 'Api'], cases, shard=120)
    for kx in bad:
        res['differ'].append({'case': kx, 'which': 'generated split_bounds / get_num_processes vs generic_helper',
                              'call': info[kx]})
    res['samples'] = info[:2]
    return res


if __name__ == '__main__':
    import json
    r = run(int(sys.argv[1]) if len(sys.argv) > 1 else 1, int(sys.argv[2]) if len(sys.argv) > 2 else 200)
    print('EVAL', r['evaluations'], 'NONTRIVIAL', r['nontrivial'], 'DIFFER', len(r['differ']), 'SPEC_FAIL',
          len(r['spec_fail']), 'EXC', len(r['exceptions']))
    for d in (r['differ'] + r['spec_fail'] + r['exceptions'])[:4]:
        print(json.dumps(d, default=str)[:600])
