"""Correspondence for utils/converter.py (C16): series_to_str and dataframe_column_to_str over
the finite matrix  dtype x NaN pattern x (function, inplace, return_col)  with random values.
Every call runs on a fresh object; the outcome (result kind / values / dtype, and the given object
afterwards) is compared with Model/Converter.v inside Coq, and the clauses of
Spec/ConverterSpec.v are evaluated inside Coq on the OBSERVED outcome.  The model of
Series.update (TypeError when strings would have to go into a numeric series) is validated
against real pandas on separate direct calls."""
import math
import os
import random
import re
import sys
import traceback

import numpy as np
import pandas as pd

sys.path.insert(0, os.path.dirname(os.path.abspath(__file__)))
import common as C  # noqa: E402

INT_RE = re.compile(r'^-?\d+$')
CLAUSES = ['cl_values', 'cl_missing', 'cl_strings', 'cl_strings_dtype', 'cl_inplace_true',
           'cl_unmodified', 'cl_return_kind', 'cl_rejected', 'cl_doc_exception']
CLAUSE_TEXT = {
    'cl_values': 'spec: every present numeric value becomes its string form (object column)',
    'cl_missing': 'spec: every missing value is left missing',
    'cl_strings': 'spec: string columns are returned unchanged (values)',
    'cl_strings_dtype': 'spec (strict): string columns keep their dtype',
    'cl_inplace_true': 'spec: inplace=True converts the given object and returns True',
    'cl_unmodified': 'spec: without inplace the input is left unmodified',
    'cl_return_kind': 'spec: without inplace a converted copy (frame or column) is returned',
    'cl_rejected': 'spec: inplace together with return_col is rejected',
    'cl_doc_exception': 'spec: documented exception returns an object-typed copy',
}


def is_null(v):
    return v is None or v is pd.NA or (isinstance(v, (float, np.floating)) and math.isnan(v))


class Enc:
    """Canonical, injective encoding of Python cell values as Coq `cell` terms."""

    def __init__(self):
        self.ids = {}

    def string(self, s):
        if INT_RE.match(s) and str(int(s)) == s:
            return '(CStrOfInt %s)' % C.z(int(s))
        try:
            f = float(s)
            if repr(f) == s:
                return '(CStrOfFloat %s)' % C.float_lit(f)
        except ValueError:
            pass
        if s not in self.ids:
            self.ids[s] = len(self.ids) + 1
        return '(CStr %d)' % self.ids[s]

    def cell(self, v):
        if is_null(v):
            return 'CNull'
        if isinstance(v, (bool, np.bool_)):
            return '(CBool %s)' % ('true' if v else 'false')
        if isinstance(v, (int, np.integer)):
            return '(CInt %s)' % C.z(int(v))
        if isinstance(v, (float, np.floating)):
            return '(CFloat %s)' % C.float_lit(float(v))
        if isinstance(v, str):
            return self.string(v)
        raise ValueError('no cell for %r' % (v,))

    def dtype(self, dt):
        if isinstance(dt, pd.StringDtype):
            return 'DStr'
        if dt == object:
            return 'DObject'
        if dt == np.dtype('int64'):
            return 'DInt'
        if dt == np.dtype('float64'):
            return 'DFloat'
        if dt == np.dtype('bool'):
            return 'DBool'
        raise ValueError('no dtype tag for %r' % (dt,))

    def series(self, s):
        return '(mkser %s [%s])' % (self.dtype(s.dtype), '; '.join(self.cell(v) for v in s.tolist()))


# ----------------------------------------------------------------------------- generators
def rand_int(rng):
    return rng.choice([0, 1, -1, 7, -42, 2 ** 31, -2 ** 31 - 1, 2 ** 53 + 1, -2 ** 62, 2 ** 63 - 1,
                       rng.randint(-1000, 1000), rng.randint(-10 ** 12, 10 ** 12)])


def rand_whole_float(rng):
    return rng.choice([0.0, -0.0, 1.0, -3.0, 100.0, 1e15, 1e16, 2.0 ** 53, -2.0 ** 63, 1e22, 1e300,
                       float(rng.randint(-10 ** 6, 10 ** 6)), float(rng.randint(-10 ** 15, 10 ** 15))])


def rand_frac_float(rng):
    return rng.choice([0.5, -1.5, 0.1, 1e-7, 123456.789, 5e-324, 1.7976931348623157e308, 2.5e-5,
                       float('inf'), -float('inf'), rng.random(), rng.uniform(-1e6, 1e6)])


def rand_str(rng):
    return rng.choice(['a', 'b', 'foo bar', '', ' ', 'nan', 'None', '12', '-7', '1.5', '007', '1e5', 'inf',
                       'x%d' % rng.randint(0, 99), 'True'])


DTYPES = ['int', 'float_whole', 'float_frac', 'object', 'object_mixed', 'str', 'bool']
PATTERNS = ['none', 'some', 'all', 'empty']
CALLS = [('series_to_str', False, None), ('series_to_str', True, None),
         ('dataframe_column_to_str', False, False), ('dataframe_column_to_str', True, False),
         ('dataframe_column_to_str', False, True), ('dataframe_column_to_str', True, True)]


def valid_combo(dt, pat):
    if dt in ('int', 'bool'):
        return pat in ('none', 'empty')     # int64 / bool columns cannot hold a missing value
    return True


def make_series(rng, dt, pat):
    """A fresh pandas Series of the requested dtype class and NaN pattern (None if impossible)."""
    n = 0 if pat == 'empty' else rng.choice([1, 1, 2, 3, 4, 6])
    if dt == 'int':
        vals = [rand_int(rng) for _ in range(n)]
    elif dt == 'float_whole':
        vals = [rand_whole_float(rng) for _ in range(n)]
    elif dt == 'float_frac':
        vals = [rng.choice([rand_whole_float, rand_frac_float])(rng) for _ in range(n)]
        if n:
            vals[rng.randrange(n)] = rand_frac_float(rng)
        if n >= 3 and rng.random() < 0.6:
            # both signed zeros next to a fractional value: str() must keep '0.0' and '-0.0' apart
            i0, i1, i2 = rng.sample(range(n), 3)
            vals[i0], vals[i1] = 0.0, -0.0
            vals[i2] = rand_frac_float(rng)
    elif dt in ('object', 'str'):
        vals = [rand_str(rng) for _ in range(n)]
    elif dt == 'object_mixed':
        vals = [rng.choice([rand_str, rand_int, rand_frac_float])(rng) for _ in range(n)]
    else:
        vals = [rng.random() < 0.5 for _ in range(n)]
    if rng.random() < 0.2 and dt in ('int', 'float_whole', 'bool', 'object', 'str'):
        # every present value is falsy (0, 0.0, -0.0, False, ''): truthiness must not stand in for presence
        falsy = {'int': [0], 'float_whole': [0.0, -0.0], 'bool': [False], 'object': [''], 'str': ['']}[dt]
        vals = [rng.choice(falsy) for _ in range(n)]
    nullv = None if (dt in ('object', 'object_mixed') and rng.random() < 0.5) else np.nan
    if pat == 'all':
        vals = [nullv] * n
    elif pat == 'some' and n:
        k = rng.randrange(n)
        vals[k] = nullv
        for j in range(n):
            if rng.random() < 0.3:
                vals[j] = nullv
        if all(is_null(v) for v in vals):       # keep at least one present value if possible
            if n == 1:
                vals = vals + [rand_whole_float(rng) if dt.startswith('float') else rand_str(rng)]
            else:
                j = (k + 1) % n
                vals[j] = rand_whole_float(rng) if dt.startswith('float') else rand_str(rng)
    pd_dtype = {'int': 'int64', 'float_whole': 'float64', 'float_frac': 'float64', 'object': object,
                'object_mixed': object, 'str': 'str', 'bool': 'bool'}[dt]
    return pd.Series(vals, dtype=pd_dtype)


def same_series(a, b):
    """value + dtype identity of two series (NaN = NaN, None = None/NaN), no -0.0/0.0 confusion."""
    if str(a.dtype) != str(b.dtype) or len(a) != len(b):
        return False
    for x, y in zip(a.tolist(), b.tolist()):
        if is_null(x) or is_null(y):
            if not (is_null(x) and is_null(y)):
                return False
        elif type(x) is not type(y) or x != y or (isinstance(x, float) and math.copysign(1, x) != math.copysign(1, y)):
            return False
    return True


def observe(fn, ip, rc, ser, rng, enc, col_present=True):
    """Run one call on a fresh object.  Returns (result literal, after literal, python-side facts,
    JSON description)."""
    from py_stringsimjoin.utils.converter import series_to_str, dataframe_column_to_str
    facts = {'fresh_object': True, 'others_untouched': True, 'labels_kept': True}
    labels = ser.index.tolist()
    if fn == 'series_to_str':
        obj = ser.copy()
        given = lambda: obj
        try:
            r = series_to_str(obj, ip)
            exc = None
        except Exception as e:  # noqa
            r, exc = None, e
    else:
        n = len(ser)
        other = pd.Series([float(k) for k in range(n)], dtype=float)
        ident = pd.Series(list(range(n)), dtype='int64')
        other.index = ser.index
        ident.index = ser.index
        obj = pd.DataFrame({'id': ident, 'a': ser.copy(), 'z': other}, columns=['id', 'a', 'z'])
        given = lambda: obj['a']
        try:
            r = dataframe_column_to_str(obj, 'a' if col_present else 'nosuch', ip, rc)
            exc = None
        except Exception as e:  # noqa
            r, exc = None, e
        facts['others_untouched'] = (list(obj.columns) == ['id', 'a', 'z'] and same_series(obj['id'], ident)
                                     and same_series(obj['z'], other))
    after = given()
    if exc is not None:
        res_lit = '(RExc %s)' % C.coq_str(type(exc).__name__)
        desc = '%s: %s' % (type(exc).__name__, str(exc)[:160])
    elif r is True:
        res_lit, desc = 'RTrue', 'True'
    elif isinstance(r, pd.Series):
        res_lit = '(RSeries %s)' % enc.series(r)
        desc = {'series': [repr(v) for v in r.tolist()], 'dtype': str(r.dtype)}
        facts['fresh_object'] = r is not obj and (fn == 'series_to_str' or r is not after)
    elif isinstance(r, pd.DataFrame):
        res_lit = '(RFrame %s)' % enc.series(r['a'])
        desc = {'frame_col': [repr(v) for v in r['a'].tolist()], 'dtype': str(r['a'].dtype)}
        facts['fresh_object'] = r is not obj
        facts['others_untouched'] = (facts['others_untouched'] and list(r.columns) == ['id', 'a', 'z']
                                     and same_series(r['id'], obj['id']) and same_series(r['z'], obj['z']))
    else:
        raise ValueError('unmodelled result %r' % (r,))
    if isinstance(r, (pd.Series, pd.DataFrame)):
        facts['labels_kept'] = r.index.tolist() == labels
    facts['labels_kept'] = facts['labels_kept'] and after.index.tolist() == labels
    after_lit = enc.series(after)
    after_desc = {'values': [repr(v) for v in after.tolist()], 'dtype': str(after.dtype)}
    # aliasing: writing into a returned copy must not reach the given object
    if isinstance(r, (pd.Series, pd.DataFrame)) and len(after) > 0:
        snap = after.copy()
        try:
            if isinstance(r, pd.Series):
                r.iloc[0] = 'zzz' if r.dtype == object or isinstance(r.dtype, pd.StringDtype) else r.iloc[0]
            else:
                r.loc[r.index[0], 'a'] = 'zzz' if r['a'].dtype == object else r['a'].iloc[0]
        except Exception:  # noqa
            pass
        if not same_series(given(), snap):
            facts['fresh_object'] = False
    return res_lit, after_lit, facts, desc, after_desc


def call_lit(fn, ip, rc):
    b = lambda x: 'true' if x else 'false'
    return '(CallSeries %s)' % b(ip) if fn == 'series_to_str' else '(CallFrame %s %s)' % (b(ip), b(rc))


def update_cases(rng, enc, k):
    """Direct observations of Series.update for the model's `update`."""
    groups, info = [], []
    for i in range(k):
        tkind = rng.choice(['int', 'float', 'bool', 'object', 'float', 'str'])
        n = rng.choice([1, 2, 3, 5])
        if tkind == 'int':
            target = pd.Series([rand_int(rng) for _ in range(n)], dtype='int64')
        elif tkind == 'float':
            target = pd.Series([rng.choice([np.nan, rand_whole_float(rng), rand_frac_float(rng)]) for _ in range(n)],
                               dtype='float64')
        elif tkind == 'bool':
            target = pd.Series([rng.random() < 0.5 for _ in range(n)], dtype='bool')
        elif tkind == 'str':
            target = pd.Series([rng.choice([None, rand_str(rng)]) for _ in range(n)], dtype='str')
        else:
            target = pd.Series([rng.choice([None, rand_str(rng)]) for _ in range(n)], dtype=object)
        okind = rng.choice(['strings', 'strings', 'all_nan', 'floats', 'bools'])
        if okind == 'strings':
            ov = [rng.choice([np.nan, rand_str(rng), rand_str(rng)]) for _ in range(n)]
            if all(is_null(v) for v in ov):
                ov[rng.randrange(n)] = rand_str(rng)
        elif okind == 'all_nan':
            ov = [np.nan] * n
        elif okind == 'bools':
            ov = [rng.choice([np.nan, True, False]) for _ in range(n)]
            if all(is_null(v) for v in ov):
                ov[rng.randrange(n)] = True
        else:
            ov = [rng.choice([np.nan, rand_frac_float(rng), rand_whole_float(rng)]) for _ in range(n)]
            if all(is_null(v) for v in ov):
                ov[rng.randrange(n)] = 2.5
        other = pd.Series(ov, dtype=object)
        t0 = target.copy()
        raised = None
        try:
            target.update(other)
        except Exception as e:  # noqa
            raised = type(e).__name__
        defs = 'Definition ut%d : series := %s.\nDefinition uo%d : series := %s.\nDefinition ua%d : series := %s.' % (
            i, enc.series(t0), i, enc.series(other), i, enc.series(target))
        exprs = ['update_obs_eqb (update ut%d uo%d) %s ua%d ut%d' % (i, i, 'true' if raised == 'TypeError' else 'false', i, i),
                 'true' if raised in (None, 'TypeError') else 'false']
        groups.append((defs, exprs))
        info.append({'target': [repr(v) for v in t0.tolist()], 'target_dtype': str(t0.dtype),
                     'other': [repr(v) for v in ov], 'raised': raised,
                     'after': [repr(v) for v in target.tolist()],
                     'class': {'entry': 'Series.update', 'target': tkind, 'other': okind}})
    return groups, info


def run(seed, n):
    rng = random.Random(seed + 23)
    enc = Enc()
    matrix = [(dt, pat, call) for dt in DTYPES for pat in PATTERNS if valid_combo(dt, pat) for call in CALLS]
    plan = list(matrix)
    while len(plan) < n:
        plan.append(rng.choice(matrix))
    # a few calls naming a column that does not exist
    extra_missing = [(rng.choice(DTYPES[:3]), 'none', rng.choice(CALLS[2:])) for _ in range(4)]
    groups, info, which, details = [], [], [], []
    differ, exceptions = [], []
    dist = {'dtype': {}, 'pattern': {}, 'call': {}, 'outcome': {}}

    def bump(k, v):
        dist[k][str(v)] = dist[k].get(str(v), 0) + 1

    for i, (dt, pat, (fn, ip, rc)) in enumerate(plan + extra_missing):
        col_present = i < len(plan)
        ser = make_series(rng, dt, pat)
        if len(ser) and rng.random() < 0.5:      # a filtered table / id index / string index
            labs = rng.sample(range(3, 400), len(ser))
            ser.index = labs if rng.random() < 0.7 else ['r%d' % k for k in labs]
        cls = {'entry': fn, 'inplace': ip, 'dtype': {'float_whole': 'float', 'float_frac': 'float',
                                                     'object_mixed': 'object'}.get(dt, dt), 'nan': pat}
        if fn != 'series_to_str':
            cls['return_col'] = rc
        if not col_present:
            cls['column'] = 'absent'
        call = {'values': [repr(v) for v in ser.tolist()], 'index': [repr(v) for v in ser.index.tolist()],
                'dtype': str(ser.dtype), 'variant': dt,
                'function': fn, 'inplace': ip, 'return_col': rc, 'class': cls}
        try:
            in_lit = enc.series(ser)
            res_lit, after_lit, facts, desc, after_desc = observe(fn, ip, rc, ser, rng, enc, col_present)
        except Exception as e:  # noqa  (harness could not encode: report as model /= implementation)
            call['observed'] = '%s: %s' % (type(e).__name__, e)
            differ.append({'case': i, 'which': 'outcome outside the modelled domain: %s' % e, 'call': call})
            exceptions.append({'case': i, 'exc': call['observed'], 'tb': traceback.format_exc()[-1200:], 'call': call})
            groups.append(('', []))
            which.append([])
            details.append(('', []))
            info.append(call)
            continue
        call['observed'] = desc
        call['object_after'] = after_desc
        call['facts'] = facts
        bump('dtype', dt)
        bump('pattern', pat)
        bump('call', '%s(inplace=%s%s)%s' % (fn, ip, '' if rc is None else ', return_col=%s' % rc,
                                             '' if col_present else '[absent column]'))
        bump('outcome', desc if isinstance(desc, str) and desc == 'True' else
             (desc.split(':')[0] if isinstance(desc, str) else ('Series' if 'series' in desc else 'DataFrame')))
        if isinstance(desc, str) and desc != 'True' and desc.split(':')[0] not in ('AssertionError',):
            exceptions.append({'case': i, 'exc': desc, 'call': call})
        defs = 'Definition ci%d : series := %s.\nDefinition co%d : outcome := (%s, %s).' % (i, in_lit, i, res_lit, after_lit)
        cl = call_lit(fn, ip, rc)
        if col_present:
            model = 'run_call %s ci%d' % (cl, i)
        else:
            model = 'dataframe_column_to_str false ci%d %s %s' % (i, 'true' if ip else 'false', 'true' if rc else 'false')
        exprs = ['outcome_eqb (%s) co%d' % (model, i)]
        wh = ['model = observed outcome']
        detail = []
        if col_present:
            for c in CLAUSES:
                detail.append(('%s %s ci%d co%d' % (c, cl, i, i), CLAUSE_TEXT[c]))
            detail.append(('true' if facts['fresh_object'] else 'false',
                           'spec: a returned series/frame is a new object, not aliased with the input'))
            detail.append(('true' if facts['others_untouched'] else 'false',
                           'spec: the other columns of the frame are untouched'))
            detail.append(('true' if facts['labels_kept'] else 'false',
                           'spec: the converted column / frame keeps the row labels of the input'))
            # one conjunction in the first pass; the clauses are told apart in a second pass
            exprs.append('forallb (fun b : bool => b) [%s]' % '; '.join(e for e, _ in detail))
            wh.append('spec: some clause')
        details.append((defs, detail))
        call['nontrivial'] = pat in ('none', 'some') and dt not in ('bool',) and not (ip and rc)
        groups.append((defs, exprs))
        which.append(wh)
        info.append(call)
    ncalls = len(groups)
    ugroups, uinfo = update_cases(rng, enc, max(20, n // 5))
    for g, d in zip(ugroups, uinfo):
        groups.append(g)
        which.append(['model = observed Series.update', 'model = observed Series.update (exception class)'])
        info.append(d)
        bump('call', 'Series.update[%s<-%s]' % (d['class']['target'], d['class']['other']))
    bad = C.run_groups('conv_%d' % seed, ['Converter', 'ConverterSpec'], groups, shard=120)
    spec_fail = []
    second = []
    for gi, ei in sorted(bad):
        if which[gi][ei].startswith('model'):
            differ.append({'case': gi, 'which': which[gi][ei], 'call': info[gi]})
        else:
            second.append(gi)
    if second:
        g2 = [(details[gi][0], [e for e, _ in details[gi][1]]) for gi in second]
        bad2 = C.run_groups('conv2_%d' % seed, ['Converter', 'ConverterSpec'], g2, shard=25)
        for k, ei in sorted(bad2):
            gi = second[k]
            spec_fail.append({'case': gi, 'which': details[gi][1][ei][1], 'call': info[gi]})
    return {'evaluations': len(groups), 'distribution': dist, 'differ': differ, 'spec_fail': spec_fail,
            'exceptions': exceptions, 'nontrivial': sum(1 for d in info[:ncalls] if d.get('nontrivial')),
            'samples': [d for d in info[:ncalls] if d.get('nontrivial')][:2]}


def spec_fail_classes(res):
    out = {}
    for d in res['spec_fail']:
        c = d['call']['class']
        key = (d['which'], tuple(sorted((k, str(v)) for k, v in c.items())))
        out[key] = out.get(key, 0) + 1
    return out


if __name__ == '__main__':
    import json
    import time
    seed = int(sys.argv[1]) if len(sys.argv) > 1 else 1
    n = int(sys.argv[2]) if len(sys.argv) > 2 else 100
    t0 = time.time()
    r = run(seed, n)
    print(json.dumps(r['distribution'], default=str))
    print('EVAL', r['evaluations'], 'NONTRIVIAL', r['nontrivial'], 'DIFFER', len(r['differ']),
          'SPEC_FAIL', len(r['spec_fail']), 'EXC', len(r['exceptions']), 'wall %.1fs' % (time.time() - t0))
    for d in r['differ'][:4]:
        print('DIFFER', json.dumps(d, default=str)[:1500])
    for (w, c), k in sorted(spec_fail_classes(r).items(), key=lambda kv: str(kv[0])):
        print('SPEC_FAIL x%d' % k, w, dict(c))
