"""C17: the profiler reports exact unique/missing counts and key suitability."""
from props.base import Part, run_parts, replay  # noqa: F401

RULE = ('tables of 1-40 rows with int/float/str/bool columns, duplicates and missing cells, every shape of '
        'profile_attrs, plus the large-n stream n in 19990..40010 with exactly one duplicate / one missing '
        'value / both / none (where two-decimal percentages round to 100.0 / 0.0): the model (Model/Profiler.v, '
        'count-level entry point for large n) must agree (attribute order, counts, percentages, comment kind) '
        'and Spec/ProfilerSpec.v (exact counts, percentage within 0.005, key comment iff all distinct and none '
        'missing, warning iff some missing) is evaluated inside Coq on the observed frame')


def run(ctx):
    q = ctx['tier'] == 'quick'
    s = ctx['seed'] + 17
    return run_parts(ctx, [
        Part('profiler', 'corr_prof', 'run', [s, 250 if q else 4000]),
        Part('mixed_missing', 'corr_prof', 'run_mixed', [s, 60 if q else 800]),
        Part('profiler_code', 'corr_profgen', 'run', [s, 60 if q else 1500], count_exceptions=False),
    ], RULE)
