"""C08: missing join values are handled exactly as allow_missing says."""
from props.base import Part, run_parts, replay  # noqa: F401

RULE = ('every pattern of missing values (none / left only / right only / both / all on one side / all) '
        'forced on generated tables, for all joins and filter_tables, with and without score column: both '
        'allow_missing values are run; missing_spec (pairs with a missing side: exactly once iff '
        'allow_missing), missing_split_spec (result over present values unchanged), sound_spec (NaN score) '
        'evaluated inside Coq; an exception is a violation; plus filter_pair / apply_matcher / '
        'filter_candset on missing values')


def run(ctx):
    q = ctx['tier'] == 'quick'
    s = ctx['seed'] + 8
    return run_parts(ctx, [
        Part('missing_patterns', 'corr_meta', 'run_missing', [s, 120 if q else 2500]),
        Part('filter_wrapper_code', 'corr_filterwrappergen', 'run', [s, 100 if q else 2000], count_exceptions=False),
        Part('matcher_code', 'corr_matchergen', 'run', [s, 100 if q else 2000], count_exceptions=False),
        Part('wrapper_code', 'corr_wrappergen', 'run', [s, 120 if q else 2500], count_exceptions=False),
        Part('joins', 'corr_joins', 'run', [s, 150 if q else 2000, None], specs={'missing_spec'}),
        Part('filter_pair', 'corr_filters', 'run_pairs', [s, 200 if q else 3000], specs={'fp_missing_spec'}),
        Part('filter_pair_code', 'corr_pairgen', 'run', [s, 100 if q else 2000], count_exceptions=False),
        Part('apply_matcher', 'corr_matcher', 'run_matcher', [s, 60 if q else 1000]),
        Part('filter_candset', 'corr_matcher', 'run_candset', [s, 40 if q else 600]),
    ], RULE)
