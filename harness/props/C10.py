"""C10: results depend only on the rows and parameters, not on schedule or presentation."""
from props.base import Part, run_parts, replay  # noqa: F401

RULE = ('for each generated call (all joins, all filter_tables): three other n_jobs values (several, more '
        'than rows, negative), permuted rows of either table, relabelled index (incl. duplicate labels), '
        'added unrelated columns, a repeated call; same multiset of full value rows (same_rows_spec; for '
        'J/C/D joins gray pairs are set aside and reported separately), _id = 0..n-1; prefix/position/suffix '
        'filter_tables: every qualifying pair in every variant; apply_matcher / filter_candset identical for '
        'every n_jobs; split_table on the exhaustive grid rows <= 260 x splits <= 48 must partition the table and the GENERATED split_bounds must reproduce the chunk sizes; thorough re-runs cases in fresh processes under two PYTHONHASHSEEDs with loky workers')


def run(ctx):
    q = ctx['tier'] == 'quick'
    s = ctx['seed'] + 10
    parts = [
        Part('variants', 'corr_meta', 'run_njobs', [s, 60 if q else 1200]),
        Part('matcher_code', 'corr_matchergen', 'run', [s, 100 if q else 2000], count_exceptions=False),
        Part('wrapper_code', 'corr_wrappergen', 'run', [s, 120 if q else 2500], count_exceptions=False),
        Part('matcher_candset', 'corr_meta', 'run_njobs_matcher', [s, 60 if q else 1000]),
        Part('split_grid', 'corr_split', 'run', [s, 150 if q else 1500]),
    ]
    if not q:
        parts.append(Part('processes', 'corr_proc', 'run', [s, 40]))
    return run_parts(ctx, parts, RULE)
