"""C13: joins obey transposition, threshold-refinement and operator-partition laws."""
from props.base import Part, run_parts, replay  # noqa: F401

RULE = ('for each generated call of each of the six joins one law: swapped tables (transpose_spec), a '
        'stricter threshold (refine_spec; edit distance: smaller), the three operators (partition_spec: '
        '>= is the disjoint union of > and =, exactly); empty-empty and gray pairs set aside as the '
        'property says; specs relate the observed frames inside Coq; thorough adds the bundled person data')


def run(ctx):
    q = ctx['tier'] == 'quick'
    s = ctx['seed'] + 13
    parts = [Part('laws', 'corr_meta', 'run_laws', [s, 240 if q else 5000])]
    if not q:
        parts.append(Part('bundled', 'corr_meta', 'run_laws_bundled', [s]))
    return run_parts(ctx, parts, RULE)


def search(ctx):
    """After a broken obligation: look for joins that lose or invent a pair on the skewed / boundary
    streams and examine the three laws on exactly those calls; then fall back to fresh seeds."""
    import corr_joins as J
    import corr_meta as M
    from props import base
    out = []
    for k in (1, 2, 3):
        r = J.run(ctx['seed'] + 31 * k, 250, ['JACCARD', 'COSINE', 'DICE', 'OVERLAP_COEFFICIENT', 'OVERLAP'], 0.3, 0.0)
        forced = []
        for c in r.get('failing_calls', []):
            if c['measure'] == 'EDIT_DISTANCE':
                continue
            for law in ('transpose', 'refine', 'partition'):
                forced.append((c, law))
        if forced:
            lr = M.run_laws(ctx['seed'], 0, forced[:90])
            for sf in lr['spec_fail']:
                out.append({'what': '%s fails on the implementation (law examined on a call where the join and its model/spec disagree)' % sf['which'],
                            'class': {'kind': sf['which'], 'entry': sf['call'].get('call', {}).get('measure')},
                            'call': base.small(sf['call'])})
            if out:
                return out[:3]
    return base.default_search(__import__('props.C13', fromlist=['x']), ctx)
