"""C13: joins obey transposition, threshold-refinement and operator-partition laws."""
from props.base import Part, run_parts, replay  # noqa: F401

RULE = ('for each generated call of each of the six joins one law: swapped tables (transpose_spec), a '
        'stricter threshold (refine_spec; edit distance: smaller), the three operators (partition_spec: '
        '>= is the disjoint union of > and =, exactly); empty-empty and gray pairs set aside as the '
        'property says; specs relate the observed frames inside Coq; thorough adds the bundled person data')


def run(ctx):
    q = ctx['tier'] == 'quick'
    s = ctx['seed'] + 13
    parts = [Part('laws', 'corr_meta', 'run_laws', [s, 240 if q else 5000])]
    if not q:
        parts.append(Part('bundled', 'corr_meta', 'run_laws_bundled', [s]))
    return run_parts(ctx, parts, RULE)
