"""C16: numeric-to-string conversion keeps missing values missing and integers integral."""
from props.base import Part, run_parts, replay  # noqa: F401

RULE = ('the full matrix dtype (int, integral float, fractional float, object, mixed object, pandas str, '
        'bool) x NaN pattern (none/some/all/empty) x call (series_to_str / dataframe_column_to_str with every '
        'inplace/return_col combination) is enumerated completely on fresh objects with random values, plus '
        'direct Series.update observations; the model (Model/Converter.v) must agree exactly (result kind, '
        'values, dtype, object afterwards, exception class) and every clause of Spec/ConverterSpec.v is '
        'evaluated inside Coq on the observed behaviour; the strict dtype-identity reading of "string columns '
        'are returned unchanged" (an EMPTY or all-missing str-dtype column comes back with object dtype, values '
        'unchanged) is reported in the evidence but not counted')


def counted(sf):
    return not str(sf.get('which', '')).startswith('spec (strict)')


def run(ctx):
    q = ctx['tier'] == 'quick'
    s = ctx['seed'] + 16
    return run_parts(ctx, [
        Part('converter_matrix', 'corr_conv', 'run', [s, 300 if q else 6000], specs=counted, count_exceptions=False),
    ], RULE)
