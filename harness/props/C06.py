"""C06: filter_candset is row-wise filter_pair; OverlapFilter is exact."""
from props.base import Part, run_parts, replay  # noqa: F401

RULE = ('filter_candset of all five filters (rows kept, in order, with their index labels and columns = '
        'rows whose pair filter_pair keeps); OverlapFilter.filter_pair exactness (fp_overlap_exact_spec) and '
        'OverlapFilter.filter_tables (sound_spec + complete_spec: exactly the pairs whose overlap satisfies '
        'the operator, score = overlap), all evaluated inside Coq')


def run(ctx):
    q = ctx['tier'] == 'quick'
    s = ctx['seed'] + 6
    return run_parts(ctx, [
        Part('filter_candset', 'corr_matcher', 'run_candset', [s, 200 if q else 3000]),
        Part('filter_wrapper_code', 'corr_filterwrappergen', 'run', [s, 100 if q else 2000], count_exceptions=False),
        Part('matcher_code', 'corr_matchergen', 'run', [s, 150 if q else 3000], count_exceptions=False),
        Part('filter_pair', 'corr_filters', 'run_pairs', [s, 300 if q else 6000],
             specs={'fp_overlap_exact_spec'}),
        Part('filter_pair_code', 'corr_pairgen', 'run', [s, 100 if q else 2000], count_exceptions=False),
        Part('index_code', 'corr_index', 'run', [s, 100 if q else 2000], count_exceptions=False),
        Part('split_grid', 'corr_split', 'run', [s, 100 if q else 1000]),
        Part('overlap_tables', 'corr_filters', 'run_tables', [s, 100 if q else 2000, ['overlap']],
             specs={'sound_spec', 'complete_spec'}),
    ], RULE)
