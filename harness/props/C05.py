"""C05: apply_matcher keeps exactly the candidate rows that satisfy the predicate."""
from props.base import Part, run_parts, replay  # noqa: F401

RULE = ('apply_matcher on candidate sets that are random sub-multisets/orders of the cross product (both '
        'sides of the token-cache condition), six operators, library measures / plain function / bound '
        'method / order-sensitive function, n_jobs in {1,2,3,5,-1}; the row-wise model (Model/Matcher.v) is '
        'evaluated inside Coq on independently computed sim_function values and compared with the returned '
        'frame in order (_id, keys, score); non-trivial = some row kept and some dropped')


def run(ctx):
    q = ctx['tier'] == 'quick'
    s = ctx['seed'] + 5
    return run_parts(ctx, [
        Part('apply_matcher', 'corr_matcher', 'run_matcher', [s, 150 if q else 3000]),
        Part('matcher_code', 'corr_matchergen', 'run', [s, 150 if q else 3000], count_exceptions=False),
        Part('njobs', 'corr_meta', 'run_njobs_matcher', [s, 40 if q else 600]),
        Part('split_grid', 'corr_split', 'run', [s, 100 if q else 1000]),
    ], RULE)
