"""C01: set-similarity joins return every qualifying pair."""
from props import joinprops

MEASURES = ['JACCARD', 'COSINE', 'DICE', 'OVERLAP_COEFFICIENT', 'OVERLAP']
RULE = ('whole *_join_py calls on generated DataFrames (random + boundary stream: a pair sitting on '
        'the threshold with its common tokens ranked last); non-trivial = both tables have a present '
        'row, at least one pair returned and at least one pair not returned; the model (Model/Api.v) '
        'and complete_spec (Spec/JoinSpec.v) are evaluated inside Coq on the observed rows')


def run(ctx):
    return joinprops.run_joins(ctx, MEASURES, {'complete_spec'}, 300, 6000, RULE)
