"""C01: set-similarity joins return every qualifying pair."""
from props.base import Part, run_parts, replay  # noqa: F401

MEASURES = ['JACCARD', 'COSINE', 'DICE', 'OVERLAP_COEFFICIENT', 'OVERLAP']
RULE = ('whole *_join_py calls on generated DataFrames (random + boundary stream: a pair sitting on the '
        'threshold with its common tokens ranked last); non-trivial = both tables have a present row, at '
        'least one pair returned and at least one not; Model/Api.v and complete_spec (Spec/JoinSpec.v) are '
        'evaluated inside Coq on the observed rows; the generated formulas are compared with filter_utils')


def run(ctx):
    q = ctx['tier'] == 'quick'
    s = ctx['seed']
    return run_parts(ctx, [
        Part('joins', 'corr_joins', 'run', [s, 300 if q else 6000, MEASURES], specs={'complete_spec'}),
        Part('formulas', 'corr_formulas', 'run_std', [s, 600 if q else 6000]),
        Part('index_code', 'corr_index', 'run', [s, 150 if q else 3000], count_exceptions=False),
        Part('join_loop_code', 'corr_joingen', 'run', [s, 150 if q else 3000], count_exceptions=False),
    ], RULE)
