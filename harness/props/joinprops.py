"""Shared runner for the properties decided through whole-join correspondence + specs."""
import corr_formulas
import corr_joins


def run_joins(ctx, measures, which_specs, n_quick, n_thorough, rule, formulas=True):
    """which_specs: subset of {'complete_spec','sound_spec'} that count as violations of this
    property; model disagreement is always reported as `differ`."""
    n = n_quick if ctx['tier'] == 'quick' else n_thorough
    res = corr_joins.run(ctx['seed'], n, measures)
    violations = []
    for sf in res['spec_fail']:
        if sf['which'] in which_specs:
            violations.append({'what': '%s fails on the implementation output' % sf['which'],
                               'class': {'kind': sf['which'], 'entry': sf['call']['measure']},
                               'call': sf['call']})
    for ex in res['exceptions']:
        violations.append({'what': 'valid call raised %s' % ex['call'].get('observed_exception'),
                           'class': {'kind': 'exception', 'entry': ex['call']['measure']},
                           'call': ex['call']})
    differ = list(res['differ'])
    out = {'evaluations': res['evaluations'], 'distinct_nontrivial': res['nontrivial'],
           'rule': rule, 'samples': res['samples'], 'distribution': res['distribution'],
           'violations': violations, 'differ': differ, 'extra': {}}
    if formulas:
        fr = corr_formulas.run(ctx['seed'], 600 if ctx['tier'] == 'quick' else 6000)
        out['evaluations'] += fr['evaluations']
        out['extra']['formula_cases'] = fr['evaluations']
        out['extra']['formula_distribution'] = fr['distribution']
        for b in fr['failing']:
            differ.append({'which': 'generated formula vs filter_utils', 'call': b})
    return out
