"""C12: calls leave inputs and tokenizer untouched; no call affects a later one."""
from props.base import Part, run_parts, replay  # noqa: F401

RULE = ('random call histories (joins of every kind, filter_tables, filter_candset, apply_matcher, '
        'filter_pair) sharing one tokenizer and the same DataFrame objects, set- and bag-mode tokenizers, '
        'incl. the module-level default tokenizer of edit_distance_join: after every call the tables '
        '(values, dtypes, columns, index) and the tokenizer state are compared with snapshots, and the '
        'result with the same call made in isolation on fresh objects; the control skeletons and mutation '
        'summaries of all entry points are regenerated from the source and checked by the Coq theorems')


def run(ctx):
    q = ctx['tier'] == 'quick'
    s = ctx['seed'] + 12
    return run_parts(ctx, [
        Part('histories', 'corr_api', 'run_histories', [s, 60 if q else 1200]),
        Part('matcher_code', 'corr_matchergen', 'run', [s, 80 if q else 1500], count_exceptions=False),
        Part('wrapper_code', 'corr_wrappergen', 'run', [s, 100 if q else 2000], count_exceptions=False),
        Part('late_exceptions', 'corr_api', 'run_late_exceptions', [s, 150 if q else 3000]),
        Part('rejected_calls', 'corr_api', 'run_invalid_matrix', [s, 1 if q else 10]),
    ], RULE)
