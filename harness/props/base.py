"""Shared plumbing of the property modules: running correspondence parts, turning their
outcome into violations / broken-correspondence entries, deterministic replay."""
import importlib
import json
import os
import sys
import time

HERE = os.path.dirname(os.path.abspath(__file__))
sys.path.insert(0, os.path.dirname(HERE))
import common as C  # noqa: E402


class Part:
    """One correspondence run: module.function(*args) -> result dict."""

    def __init__(self, name, module, func, args, specs=None, count_exceptions=True, cls=None,
                 differ_is_violation=False):
        self.name, self.module, self.func, self.args = name, module, func, list(args)
        self.specs = specs              # None: every spec_fail counts; else the set of names that count
        self.count_exceptions = count_exceptions
        self.cls = cls or {}
        self.differ_is_violation = differ_is_violation

    def call(self):
        mod = importlib.import_module(self.module)
        return getattr(mod, self.func)(*self.args)

    def ref(self, case, which):
        return {'module': self.module, 'func': self.func, 'args': self.args, 'case': case, 'which': which,
                'part': self.name}


def small(d, limit=6000):
    """A JSON-able, size-bounded copy of a description."""
    try:
        s = json.dumps(d, default=str)
    except Exception:
        s = repr(d)
    if len(s) <= limit:
        return json.loads(s)
    return {'truncated': s[:limit]}


def entry_of(call):
    if not isinstance(call, dict):
        return None
    c = call.get('call') if isinstance(call.get('call'), dict) else call
    for k in ('entry', 'which', 'filter', 'measure', 'sim', 'law'):
        if k in call and isinstance(call[k], str):
            return call[k]
    for k in ('which', 'filter', 'measure'):
        if isinstance(c, dict) and k in c and isinstance(c[k], str):
            return c[k]
    return None


def run_parts(ctx, parts, rule):
    """Runs every part; returns the dict props.run() must return."""
    out = {'evaluations': 0, 'distinct_nontrivial': 0, 'rule': rule, 'samples': [], 'distribution': {},
           'violations': [], 'differ': [], 'extra': {'parts': {}}}
    for p in parts:
        t0 = time.time()
        try:
            r = p.call()
        except RuntimeError as e:            # case file did not evaluate: broken correspondence
            out['differ'].append({'part': p.name, 'error': str(e)[-1500:]})
            out['extra']['parts'][p.name] = {'error': str(e)[-300:]}
            continue
        out['evaluations'] += int(r.get('evaluations', 0))
        out['distinct_nontrivial'] += int(r.get('nontrivial', 0))
        out['distribution'][p.name] = r.get('distribution', {})
        out['samples'] += [small(s, 2500) for s in r.get('samples', [])[:1]]
        n_sf = 0
        for sf in r.get('spec_fail', []):
            if callable(p.specs):
                if not p.specs(sf):
                    continue
            elif p.specs is not None and sf.get('which') not in p.specs:
                continue
            n_sf += 1
            cls = dict(p.cls)
            cls.update({'kind': sf.get('which'), 'entry': entry_of(sf.get('call', {}))})
            if sf.get('gray'):
                cls['gray'] = True
            if isinstance(sf.get('call'), dict) and isinstance(sf['call'].get('class'), dict):
                cls.update(sf['call']['class'])
            out['violations'].append({'what': '%s fails on the implementation (%s)' % (sf.get('which'), p.name),
                                      'class': cls, 'call': small(sf.get('call')),
                                      'replay': p.ref(sf.get('case'), sf.get('which'))})
        for pr in r.get('problems', []):       # corr_api style
            n_sf += 1
            out['violations'].append({'what': pr.get('what'), 'class': dict(p.cls, kind=pr.get('cls'),
                                                                            entry=entry_of(pr.get('spec', {}) or {})),
                                      'call': small({k: v for k, v in pr.items() if k != 'previous_specs'}),
                                      'replay': p.ref(None, pr.get('cls'))})
        n_ex = 0
        if p.count_exceptions:
            for ex in r.get('exceptions', []):
                n_ex += 1
                call = ex.get('call', ex)
                out['violations'].append({'what': 'valid call raised: %s' % (
                    (call.get('observed_exception') if isinstance(call, dict) else None) or ex.get('exc')),
                    'class': dict(p.cls, kind='exception', entry=entry_of(call)),
                    'call': small(call), 'traceback': str(ex.get('traceback') or ex.get('tb') or '')[-1200:],
                    'replay': p.ref(ex.get('case'), 'exception')})
        for df in r.get('differ', []):
            d = {'part': p.name, 'which': df.get('which'), 'case': df.get('case'), 'call': small(df.get('call')),
                 'replay': p.ref(df.get('case'), df.get('which'))}
            out['differ'].append(d)
        out['extra']['parts'][p.name] = {'evaluations': r.get('evaluations', 0), 'nontrivial': r.get('nontrivial', 0),
                                         'spec_fail_counted': n_sf, 'exceptions': n_ex,
                                         'model_differs': len(r.get('differ', [])),
                                         'wall_s': round(time.time() - t0, 1)}
    return out


def replay(path):
    """Re-runs the recorded part (same seed and size => same generated cases) and reports whether
    the recorded case still fails.  Exit 1 (VIOLATION still there) / 0 (no longer fails)."""
    payload = json.load(open(path))
    ref = payload.get('replay')
    pid = os.path.basename(path).split('-')[0]
    if not ref:
        print('replay: %s names a broken proof obligation / correspondence target, not an input:' % path)
        print(json.dumps(payload.get('broken', payload), indent=1)[:3000])
        return 1
    mod = importlib.import_module(ref['module'])
    r = getattr(mod, ref['func'])(*ref['args'])
    hits = []
    for key in ('spec_fail', 'differ'):
        for sf in r.get(key, []):
            if sf.get('case') == ref.get('case') and (ref.get('which') in (None, sf.get('which'))):
                hits.append(sf)
    for ex in r.get('exceptions', []):
        if ref.get('which') == 'exception' and ex.get('case') == ref.get('case'):
            hits.append(ex)
    for pr in r.get('problems', []):
        if pr.get('cls') == ref.get('which'):
            hits.append(pr)
    if hits:
        print(json.dumps(small(hits[0], 4000), indent=1, default=str))
        print('VIOLATION property=%s replay=%s' % (pid, path))
        return 1
    print('replay: the recorded case no longer fails (%s case %s)' % (ref.get('part'), ref.get('case')))
    return 0


ARITH_JOIN = {'C01', 'C07', 'C13'}
ARITH_FILTER = {'C04', 'C14'}


def default_search(mod, ctx):
    """A proof obligation or the correspondence broke and the regular run found no failing input:
    look harder.  (1) for the properties resting on the filter_utils arithmetic, sweep the real
    formulas for a qualifying triple that violates a filter condition and confirm it on the real
    join / filter with tables forcing the worst token order; (2) re-run the property's
    correspondence parts on three fresh seeds."""
    found = []
    pid = ctx['pid']
    try:
        import search_formulas
        if pid in ARITH_JOIN:
            found += search_formulas.search('join')
        if pid in ARITH_FILTER:
            found += search_formulas.search('filter')
        if pid == 'C14' and not found:
            for c in search_formulas.sweep_tight():
                found.append({'what': 'SizeFilter keeps a count pair whose best attainable similarity is more than 1e-4 below the threshold',
                              'class': {'kind': 'size_tight', 'entry': 'size'}, 'call': c})
                break
    except Exception:   # noqa
        import traceback
        traceback.print_exc()
    if found:
        return found
    for k in (1, 2, 3):
        try:
            r = mod.run(dict(ctx, seed=ctx['seed'] + 7919 * k))
        except Exception:  # noqa
            continue
        if r.get('violations'):
            return r['violations'][:3]
    # (3) a few LARGE cases with plain-Python oracles (search for a replay only, see search_scale.py)
    try:
        import search_scale
        found = search_scale.search(pid, ctx['seed'] % 1000 + 1)
        for v in found:
            v.setdefault('replay', {'module': 'search_scale', 'func': 'search', 'args': [pid, ctx['seed'] % 1000 + 1]})
        return found[:3]
    except Exception:  # noqa
        import traceback
        traceback.print_exc()
    return []
