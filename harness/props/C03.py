"""C03: edit-distance join: sound, exact distance, complete up to the documented gap."""
from props.base import Part, run_parts, replay  # noqa: F401

RULE = ('edit_distance_join_py on tables of short strings over small alphabets (q in {2,3}, padding on/off, '
        'return_set on/off, thresholds 0..3 incl. non-integral); complete_spec (every pair within the '
        'threshold that shares a q-gram) and sound_spec (distance recomputed by Ext/Lev.v, once per key '
        'pair) evaluated inside Coq; non-trivial = some pair returned and some not')


def run(ctx):
    q = ctx['tier'] == 'quick'
    s = ctx['seed'] + 3
    return run_parts(ctx, [
        Part('ed_joins', 'corr_joins', 'run', [s, 250 if q else 5000, ['EDIT_DISTANCE']],
             specs={'complete_spec', 'sound_spec'}),
        Part('formulas', 'corr_formulas', 'run_std', [s, 300 if q else 3000]),
        Part('join_loop_code', 'corr_joingen', 'run', [s, 150 if q else 3000], count_exceptions=False),
    ], RULE)
