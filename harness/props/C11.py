"""C11: output tables have the documented columns and faithfully project source rows."""
from props.base import Part, run_parts, replay  # noqa: F401

RULE = ('whole join / filter_tables calls on tables with shuffled column order and extra int/float/str '
        'columns, l_out_attrs / r_out_attrs in {None, [], lists with the key, the join attribute and '
        'repeats}, several prefixes, with and without score, rows from the normal, empty-pair and '
        'missing-value branches: header_ok (declarative header) and cells_ok (each projected value = value of '
        'that attribute in the source row named by the key) evaluated inside Coq on the observed frame; the '
        'projection pipeline composed from the GENERATED generic_helper functions must reproduce header and '
        'cells; non-trivial = at least one output row and at least one requested attribute')


def run(ctx):
    q = ctx['tier'] == 'quick'
    s = ctx['seed'] + 11
    return run_parts(ctx, [
        Part('projection', 'corr_proj', 'run', [s, 300 if q else 6000]),
        Part('filter_wrapper_code', 'corr_filterwrappergen', 'run', [s, 120 if q else 2500], count_exceptions=False),
        Part('wrapper_code', 'corr_wrappergen', 'run', [s, 150 if q else 3000], count_exceptions=False),
        Part('join_loop_code', 'corr_joingen', 'run', [s, 150 if q else 3000], count_exceptions=False),
    ], RULE)
