"""C07: a join equals filter_tables followed by apply_matcher."""
from props.base import Part, run_parts, replay  # noqa: F401

RULE = ('for each generated call: the join, and apply_matcher(filter_tables(...)) with first stage in '
        '{Size, Prefix, Position, Overlap>=1} and independent n_jobs for both stages; pipeline_spec '
        '(same key pairs, scores equal after 4-decimal rounding; empty-empty and gray pairs set aside) / '
        'pipeline_ed_spec (join within pipeline, equal on pairs sharing a q-gram) evaluated inside Coq')


def run(ctx):
    q = ctx['tier'] == 'quick'
    s = ctx['seed'] + 7
    return run_parts(ctx, [
        Part('pipeline', 'corr_meta', 'run_pipeline', [s, 150 if q else 3000]),
    ], RULE)
