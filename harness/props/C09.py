"""C09: empty token sets are admitted iff allow_empty, independent of threshold."""
from props.base import Part, run_parts, replay  # noqa: F401

RULE = ('tables salted with empty strings, delimiter-only strings and strings too short for an unpadded '
        'q-gram; empty_spec (both-empty pair present iff allow_empty for J/C/D/OC, never for OVERLAP; a pair '
        'with exactly one empty side never in a set-similarity join) on joins and filter_tables, '
        'fp_empty_spec on filter_pair, sound_spec (score 1.0), all evaluated inside Coq')


def run(ctx):
    q = ctx['tier'] == 'quick'
    s = ctx['seed'] + 9
    return run_parts(ctx, [
        Part('joins', 'corr_joins', 'run', [s, 300 if q else 5000, None, 0.15, 0.5], specs={'empty_spec', 'sound_spec'}),
        Part('filter_wrapper_code', 'corr_filterwrappergen', 'run', [s, 100 if q else 2000], count_exceptions=False),
        Part('wrapper_code', 'corr_wrappergen', 'run', [s, 100 if q else 2000], count_exceptions=False),
        Part('filter_tables', 'corr_filters', 'run_tables', [s, 150 if q else 2500, None, 0.5], specs={'empty_spec', 'sound_spec'}),
        Part('join_loop_code', 'corr_joingen', 'run', [s, 100 if q else 2000], count_exceptions=False),
        Part('filter_pair', 'corr_filters', 'run_pairs', [s, 300 if q else 5000], specs={'fp_empty_spec'}),
    ], RULE)
