"""C14: filters prune what their technique promises to prune."""
from props.base import Part, run_parts, replay  # noqa: F401

RULE = ('SizeFilter.filter_pair on token-count pairs near the window edges (size_tight_spec: a kept pair has '
        'best attainable similarity >= t - 1e-4, edit distance: dropped iff counts differ by more than the '
        'threshold; verdict equals the count-only model) -- exhaustive grid a,b<=40 x 112 thresholds in the '
        'thorough tier; fp_common_token_spec on Prefix/Position/Overlap filter_pair and sound_spec on their '
        'filter_tables (kept pair shares a token); refine_filters_spec (Position within Prefix and Size on the '
        'same tables and chunking); evaluated inside Coq')


def run(ctx):
    q = ctx['tier'] == 'quick'
    s = ctx['seed'] + 14
    parts = [
        Part('size_tight', 'corr_meta', 'run_size_tight', [s, 1500 if q else 6000]),
        Part('filter_wrapper_code', 'corr_filterwrappergen', 'run', [s, 100 if q else 2000], count_exceptions=False),
        Part('filter_pair', 'corr_filters', 'run_pairs', [s, 300 if q else 6000], specs={'fp_common_token_spec'}),
        Part('filter_tables', 'corr_filters', 'run_tables', [s, 100 if q else 2000, ['prefix', 'position', 'overlap']],
             specs={'sound_spec'}),
        Part('size_filter_tables', 'corr_filters', 'run_tables', [s + 1, 100 if q else 2000, ['size']], specs=set()),
        Part('filter_pair_code', 'corr_pairgen', 'run', [s, 100 if q else 2000], count_exceptions=False),
        Part('index_code', 'corr_index', 'run', [s, 100 if q else 2000], count_exceptions=False),
        Part('refine', 'corr_meta', 'run_refine', [s, 250 if q else 4000]),
    ]
    if not q:
        parts.append(Part('size_tight_grid', 'corr_meta', 'run_size_tight', [s, 0, 30, True]))
    return run_parts(ctx, parts, RULE)
