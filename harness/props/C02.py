"""C02: set-similarity joins return only qualifying pairs, once, with the true score."""
from props.base import Part, run_parts, replay  # noqa: F401

MEASURES = ['JACCARD', 'COSINE', 'DICE', 'OVERLAP_COEFFICIENT', 'OVERLAP']
RULE = ('whole *_join_py calls (all combinations of out_sim_score / projections / n_jobs); sound_spec '
        '(existing keys, each key pair once, recomputed similarity satisfies the comparison, reported score '
        '= that similarity) evaluated inside Coq on the observed rows; non-trivial as in C01')


def run(ctx):
    q = ctx['tier'] == 'quick'
    s = ctx['seed'] + 2
    return run_parts(ctx, [
        Part('joins', 'corr_joins', 'run', [s, 300 if q else 6000, MEASURES], specs={'sound_spec'}),
        Part('index_code', 'corr_index', 'run', [s, 100 if q else 2000], count_exceptions=False),
        Part('join_loop_code', 'corr_joingen', 'run', [s, 150 if q else 3000], count_exceptions=False),
    ], RULE)
