"""C15: invalid arguments are rejected up front; valid ones are never rejected."""
from props.base import Part, run_parts, replay  # noqa: F401

RULE = ('the matrix entry point x kind of invalid argument x random valid context (expected exception '
        'class, argument objects and tokenizer state before/after), boundary thresholds, and degenerate but '
        'valid shapes (no rows, one row, all missing, all empty) with object and pandas string dtype; the '
        'validators and the control skeletons are regenerated from the source and checked by the Coq theorems')


def run(ctx):
    q = ctx['tier'] == 'quick'
    s = ctx['seed'] + 15
    return run_parts(ctx, [
        Part('invalid_matrix', 'corr_api', 'run_invalid_matrix', [s, 2 if q else 25]),
        Part('histories_key_edits', 'corr_api', 'run_histories', [s + 1, 40 if q else 600]),
        Part('valid_degenerate', 'corr_api', 'run_valid_degenerate', [s, 200 if q else 4000]),
        Part('missing_patterns', 'corr_meta', 'run_missing', [s, 40 if q else 400], specs=set()),
    ], RULE)
