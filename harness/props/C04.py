"""C04: filters never dismiss a pair that satisfies the threshold."""
from props.base import Part, run_parts, replay  # noqa: F401

RULE = ('filter_pair of all five filters on related string pairs (fp_safe_spec: a qualifying pair is not '
        'dropped), filter_tables of all five filters (complete_spec: every qualifying pair listed), '
        'filter_candset (kept rows = rows filter_pair keeps); specs and models evaluated inside Coq; '
        'non-trivial = distinct (filter, measure, threshold, pair) with both values present')


def run(ctx):
    q = ctx['tier'] == 'quick'
    s = ctx['seed'] + 4
    return run_parts(ctx, [
        Part('filter_pair', 'corr_filters', 'run_pairs', [s, 400 if q else 8000], specs={'fp_safe_spec'}),
        Part('filter_wrapper_code', 'corr_filterwrappergen', 'run', [s, 150 if q else 3000], count_exceptions=False),
        Part('filter_pair_code', 'corr_pairgen', 'run', [s, 150 if q else 3000], count_exceptions=False),
        Part('filter_pair_sequences', 'corr_filters', 'run_pair_sequences', [s, 60 if q else 1200], specs={'fp_safe_spec'}),
        Part('filter_tables', 'corr_filters', 'run_tables', [s, 150 if q else 3000], specs={'complete_spec'}),
        Part('filter_candset', 'corr_matcher', 'run_candset', [s, 60 if q else 1000]),
        Part('formulas', 'corr_formulas', 'run_std', [s, 300 if q else 3000]),
        Part('index_code', 'corr_index', 'run', [s, 150 if q else 3000], count_exceptions=False),
    ], RULE)
