(* The prefix-filter lemma on sorted bags (stdlib only). *)
From Coq Require Import ZArith List Lia Sorted Bool.
Import ListNotations.
Open Scope Z_scope.

Definition mem (v : Z) (l : list Z) : bool := existsb (Z.eqb v) l.
Fixpoint rem1 (v : Z) (l : list Z) : list Z :=
  match l with [] => [] | h :: t => if Z.eqb v h then t else h :: rem1 v t end.
Fixpoint binter (X Y : list Z) : list Z :=
  match X with
  | [] => []
  | x :: X' => if mem x Y then x :: binter X' (rem1 x Y) else binter X' Y
  end.
Definition ovl (X Y : list Z) : nat := length (binter X Y).

Lemma mem_In v l : mem v l = true <-> In v l.
Proof. unfold mem. rewrite existsb_exists. split.
 - intros [x [H1 H2]]. apply Z.eqb_eq in H2. subst. exact H1.
 - intros H. exists v. split; [exact H | apply Z.eqb_refl]. Qed.

Lemma binter_len_le_X X : forall Y, (length (binter X Y) <= length X)%nat.
Proof. induction X as [|x X IH]; intros Y; simpl; [lia|].
 destruct (mem x Y); simpl; [specialize (IH (rem1 x Y))| specialize (IH Y)]; lia. Qed.

Lemma binter_skip P : forall S Y, (forall v, In v P -> ~ In v Y) -> binter (P ++ S) Y = binter S Y.
Proof. induction P as [|p P IH]; intros S Y H; simpl; [reflexivity|].
 destruct (mem p Y) eqn:E.
 - apply mem_In in E. exfalso. apply (H p); [left; reflexivity | exact E].
 - apply IH. intros v Hv. apply H. right; exact Hv. Qed.

(* number of Y-elements that occur in X *)
Definition hits (X Y : list Z) : nat := length (filter (fun y => mem y X) Y).

Lemma rem1_In v w l : In w (rem1 v l) -> In w l.
Proof. induction l as [|h t IH]; simpl; [tauto|]. destruct (Z.eqb v h); simpl; intuition. Qed.

Lemma hits_rem1 X x : forall Y, In x Y -> mem x X = true -> (S (hits X (rem1 x Y)) <= hits X Y)%nat.
Proof. unfold hits. induction Y as [|y Y IH]; intros HIn Hm; simpl in *; [tauto|].
 destruct (Z.eqb x y) eqn:E.
 - apply Z.eqb_eq in E. subst y. rewrite Hm. simpl. lia.
 - destruct HIn as [->|HIn]; [rewrite Z.eqb_refl in E; discriminate|].
   simpl. destruct (mem y X); simpl; specialize (IH HIn Hm); lia. Qed.

Lemma mem_cons y x X : mem y (x :: X) = (Z.eqb y x || mem y X)%bool.
Proof. reflexivity. Qed.
Lemma hits_mono X x Y : (hits X Y <= hits (x :: X) Y)%nat.
Proof. unfold hits. induction Y as [|y Y IH]; [simpl; lia|].
 cbn [filter]. rewrite mem_cons. destruct (Z.eqb y x); destruct (mem y X); cbn [orb length]; lia. Qed.

Lemma binter_le_hits X : forall Y, (length (binter X Y) <= hits X Y)%nat.
Proof. induction X as [|x X IH]; intros Y; simpl; [lia|].
 destruct (mem x Y) eqn:E.
 - simpl. apply mem_In in E.
   assert (Hm : mem x (x :: X) = true) by (apply mem_In; left; reflexivity).
   pose proof (hits_rem1 (x :: X) x Y E Hm) as H1.
   specialize (IH (rem1 x Y)). pose proof (hits_mono X x (rem1 x Y)). lia.
 - specialize (IH Y). pose proof (hits_mono X x Y). lia. Qed.

Lemma hits_app X P S : hits X (P ++ S) = (hits X P + hits X S)%nat.
Proof. unfold hits. rewrite filter_app, app_length. reflexivity. Qed.
Lemma hits_none X P : (forall v, In v P -> ~ In v X) -> hits X P = 0%nat.
Proof. unfold hits. induction P as [|p P IH]; intros H; simpl; [reflexivity|].
 destruct (mem p X) eqn:E. - apply mem_In in E. exfalso; apply (H p); [left; reflexivity|exact E].
 - apply IH. intros v Hv; apply H; right; exact Hv. Qed.
Lemma hits_le X S : (hits X S <= length S)%nat.
Proof. unfold hits. induction S as [|s S IH]; simpl; [lia|]. destruct (mem s X); simpl; lia. Qed.

(* sortedness facts: X = P ++ S sorted (non-decreasing): every element of P <= every element of S *)
Lemma sorted_app_le P : forall S, Sorted Z.le (P ++ S) -> forall p s, In p P -> In s S -> p <= s.
Proof. intros S H. apply Sorted_StronglySorted in H; [|intros a b c; lia].
 induction P as [|h P IH]; intros p s Hp Hs; [destruct Hp|].
 simpl in H. inversion H as [|? ? Hss Hall]; subst.
 destruct Hp as [->|Hp].
 - rewrite Forall_forall in Hall. apply Hall. apply in_or_app. right; exact Hs.
 - apply IH; assumption. Qed.

(* main lemma. lX / lY are upper bounds of the prefixes that belong to them (their last elements) *)
Theorem prefix_lemma : forall PX SX PY SY,
  Sorted Z.le (PX ++ SX) -> Sorted Z.le (PY ++ SY) ->
  PX <> [] -> PY <> [] ->
  (forall v, In v PX -> In v PY -> False) ->
  (ovl (PX ++ SX) (PY ++ SY) <= Nat.max (length SX) (length SY))%nat.
Proof.
intros PX SX PY SY HsX HsY HnX HnY Hdisj. unfold ovl.
set (lx := last PX 0). set (ly := last PY 0).
assert (HlX : In lx PX) by (destruct (exists_last HnX) as [l [a ->]]; unfold lx; rewrite last_last; apply in_or_app; right; left; reflexivity).
assert (HlY : In ly PY) by (destruct (exists_last HnY) as [l [a ->]]; unfold ly; rewrite last_last; apply in_or_app; right; left; reflexivity).
assert (HmaxX : forall v, In v PX -> v <= lx).
{ destruct (exists_last HnX) as [l [a E]]. intros v Hv. unfold lx. rewrite E, last_last. rewrite E in Hv.
  apply in_app_or in Hv. destruct Hv as [Hv|[->|[]]]; [|lia].
  rewrite E, <- app_assoc in HsX. eapply (sorted_app_le l); [exact HsX| exact Hv | left; reflexivity]. }
assert (HmaxY : forall v, In v PY -> v <= ly).
{ destruct (exists_last HnY) as [l [a E]]. intros v Hv. unfold ly. rewrite E, last_last. rewrite E in Hv.
  apply in_app_or in Hv. destruct Hv as [Hv|[->|[]]]; [|lia].
  rewrite E, <- app_assoc in HsY. eapply (sorted_app_le l); [exact HsY| exact Hv | left; reflexivity]. }
destruct (Z_le_gt_dec lx ly) as [Hle|Hgt].
- (* no element of PX occurs in Y *)
  assert (Hno : forall v, In v PX -> ~ In v (PY ++ SY)).
  { intros v Hv Hin. apply in_app_or in Hin. destruct Hin as [Hin|Hin]; [exact (Hdisj v Hv Hin)|].
    assert (ly <= v) by (eapply sorted_app_le; [exact HsY|exact HlY|exact Hin]).
    assert (v <= lx) by (apply HmaxX; exact Hv). assert (v = ly) by lia. subst v. exact (Hdisj ly Hv HlY). }
  rewrite (binter_skip PX SX _ Hno). pose proof (binter_len_le_X SX (PY ++ SY)). lia.
- (* no element of PY occurs in X *)
  assert (Hno : forall v, In v PY -> ~ In v (PX ++ SX)).
  { intros v Hv Hin. apply in_app_or in Hin. destruct Hin as [Hin|Hin]; [exact (Hdisj v Hin Hv)|].
    assert (lx <= v) by (eapply sorted_app_le; [exact HsX|exact HlX|exact Hin]).
    assert (v <= ly) by (apply HmaxY; exact Hv). lia. }
  pose proof (binter_le_hits (PX ++ SX) (PY ++ SY)) as H1. rewrite hits_app in H1.
  rewrite (hits_none _ PY Hno) in H1. pose proof (hits_le (PX ++ SX) SY). lia.
Qed.
