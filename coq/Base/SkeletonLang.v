(* The control-skeleton language in which harness/translate/skeleton.py describes every API
   entry point, its operational semantics (the tokenizer's return_set flag, the "revert"
   variable, which validation raises, whether any work was done) and the two boolean checkers
   evaluated on the generated skeletons.  Executable definitions only.                   *)
From Coq Require Import Bool List String Arith.
Import ListNotations.

Inductive ev :=
| Validate (name : string)     (* may raise; no other effect *)
| Pure                         (* assignment of a call-free expression / fresh-object construction *)
| Work                         (* any other statement: no return / flag access inside; it MAY RAISE
                                  (a pandas error, a tokenizer error on a cell, ...) *)
| FlipTo (b : bool)            (* revert := False; if flag <> b: set flag b; revert := True *)
| Restore (b : bool)           (* if revert: set flag b *)
| EarlyRet                     (* if <cond>: return *)
| Ret
| Begin (name : string)        (* start / end of an inlined callee *)
| End (name : string).

Inductive item :=
| Ev (e : ev)
| TryFinally (body fin : list ev).

Definition skeleton := list item.

(* ---- semantics ---- *)
Inductive status := Running | Returned | Raised.
Record cstate := { flag : bool; saved : bool; work_done : nat }.

(* the oracle decides, per event number, whether a Validate or a Work statement raises / an
   EarlyRet returns *)
Definition oracle := nat -> bool.

Definition run_ev (o : oracle) (n : nat) (st : cstate) (e : ev) : status * cstate :=
  match e with
  | Validate _ => (if o n then Raised else Running, st)
  | Pure | Begin _ | End _ => (Running, st)
  | Work => (if o n then Raised else Running,
             {| flag := flag st; saved := saved st; work_done := S (work_done st) |})
  | FlipTo b => (Running, if Bool.eqb (flag st) b
                          then {| flag := flag st; saved := false; work_done := work_done st |}
                          else {| flag := b; saved := true; work_done := work_done st |})
  | Restore b => (Running, if saved st then {| flag := b; saved := saved st; work_done := work_done st |} else st)
  | EarlyRet => (if o n then Returned else Running, st)
  | Ret => (Returned, st)
  end.

Fixpoint run_evs (o : oracle) (n : nat) (st : cstate) (l : list ev) : status * cstate * nat :=
  match l with
  | [] => (Running, st, n)
  | e :: l' => match run_ev o n st e with
               | (Running, st') => run_evs o (S n) st' l'
               | (s, st') => (s, st', S n)
               end
  end.

Definition run_item (o : oracle) (n : nat) (st : cstate) (i : item) : status * cstate * nat :=
  match i with
  | Ev e => let '(s, st') := run_ev o n st e in (s, st', S n)
  | TryFinally body fin =>
      let '(s1, st1, n1) := run_evs o n st body in
      let '(s2, st2, n2) := run_evs o n1 st1 fin in
      (match s2 with Running => s1 | _ => s2 end, st2, n2)
  end.

Fixpoint run (o : oracle) (n : nat) (st : cstate) (sk : skeleton) : status * cstate :=
  match sk with
  | [] => (Running, st)
  | i :: sk' => match run_item o n st i with
                | (Running, st', n') => run o n' st' sk'
                | (s, st', _) => (s, st')
                end
  end.

(* ---- checker 1: the flag is handed back on every exit ---- *)
Inductive astate := AClean | AFlipped (b : bool).

Definition check_ev (a : astate) (e : ev) : option astate :=
  match e, a with
  | Validate _, AClean => Some AClean
  | Validate _, AFlipped _ => None             (* a raise here would leak the flipped flag *)
  | (Pure | Begin _ | End _), _ => Some a
  | Work, AClean => Some AClean
  | Work, AFlipped _ => None                   (* a raise here would leak the flipped flag *)
  | FlipTo b, AClean => Some (AFlipped b)
  | FlipTo _, AFlipped _ => None
  | Restore b, AFlipped b' => if Bool.eqb b (negb b') then Some AClean else None
  | Restore _, AClean => None
  | (EarlyRet | Ret), AClean => Some AClean
  | (EarlyRet | Ret), AFlipped _ => None
  end.

Definition neutral (e : ev) : bool :=
  match e with FlipTo _ | Restore _ => false | _ => true end.

Definition check_item (a : astate) (i : item) : option astate :=
  match i with
  | Ev e => check_ev a e
  | TryFinally body fin =>
      match a, fin with
      | AFlipped b', [Restore b] =>
          if forallb neutral body && Bool.eqb b (negb b') then Some AClean else None
      | _, _ => None
      end
  end.

Fixpoint check_from (a : astate) (sk : skeleton) : option astate :=
  match sk with
  | [] => Some a
  | i :: sk' => match check_item a i with Some a' => check_from a' sk' | None => None end
  end.

Definition flag_safe (sk : skeleton) : bool :=
  match check_from AClean sk with Some AClean => true | _ => false end.

(* ---- checker 2: every validation precedes every Work statement ---- *)
Definition evs_of (i : item) : list ev :=
  match i with Ev e => [e] | TryFinally b f => b ++ f end.
Fixpoint vfirst (seen_work : bool) (l : list ev) : bool :=
  match l with
  | [] => true
  | Validate _ :: l' => negb seen_work && vfirst seen_work l'
  | Work :: l' => vfirst true l'
  | _ :: l' => vfirst seen_work l'
  end.
Definition validations_first (sk : skeleton) : bool := vfirst false (flat_map evs_of sk).

(* ---- mutation summary ---- *)
Definition mut_allowed (entry : string) (m : string * string) : bool :=
  let '(p, op) := m in
  (String.eqb p "tokenizer" && String.eqb op "set_return_set") ||
  (* the converters mutate their argument when (and only when) inplace is requested *)
  (String.eqb entry "dataframe_column_to_str" && String.eqb p "dataframe" && String.eqb op "store") ||
  (String.eqb entry "series_to_str" && String.eqb p "series" && String.eqb op "update").
