(* Model of py_stringmatching.QgramTokenizer (external: modelled, checked against the real one).
   A q-gram is encoded as one integer, base 2^21, so that integer order = Python's string
   order on equal-length q-grams.  Executable only.                                       *)
From Coq Require Import ZArith Bool List.
From SSJ Require Import TokenOrdering.
Import ListNotations.
Open Scope Z_scope.

Definition qbase : Z := 2097152.
Definition encode (g : list Z) : Z := fold_left (fun acc c => acc * qbase + c) g 0.

Fixpoint windows (q : nat) (s : list Z) (fuel : nat) : list (list Z) :=
  match fuel with
  | O => []
  | S k => if Nat.leb q (length s) then firstn q s :: windows q (tl s) k else []
  end.

Record qgram_tok := { qq : Z; qpad : bool; qpre : Z; qsuf : Z }.

Definition qgram_bag (tk : qgram_tok) (s : list Z) : list Z :=
  let q := Z.to_nat (qq tk) in
  let s' := if qpad tk then (repeat (qpre tk) (q - 1) ++ s ++ repeat (qsuf tk) (q - 1))%list else s in
  map encode (windows q s' (S (length s'))).

Definition qgram_tokenize (tk : qgram_tok) (return_set : bool) (s : list Z) : list Z :=
  if return_set then dedup (qgram_bag tk s) else qgram_bag tk s.
