(* Helpers used by the generated case files of the correspondence check. *)
From Coq Require Import ZArith Bool List String SpecFloat.
From SSJ Require Import F64 PyNum.
Import ListNotations.
Open Scope Z_scope.

(* bit-level identity of floats (NaN = NaN; +0 <> -0) through the canonical triple *)
Definition f_same (x y : f64) : bool :=
  let '(s1, m1, e1) := f_canon x in
  let '(s2, m2, e2) := f_canon y in
  Bool.eqb s1 s2 && Z.eqb m1 m2 && Z.eqb e1 e2.

(* strict structural identity: distinguishes int / float / bool, unlike Python's == *)
Fixpoint pv_same (a b : pyval) {struct a} : bool :=
  let fix go (xs ys : list pyval) {struct xs} : bool :=
      match xs, ys with
      | [], [] => true
      | x :: xs', y :: ys' => pv_same x y && go xs' ys'
      | _, _ => false
      end in
  match a, b with
  | PInt x, PInt y => Z.eqb x y
  | PFloat x, PFloat y => f_same x y
  | PStr x, PStr y => String.eqb x y
  | PBool x, PBool y => Bool.eqb x y
  | PNone, PNone => true
  | PList x, PList y => go x y
  | PTuple x, PTuple y => go x y
  | PDict x, PDict y => go x y
  | PExc x, PExc y => String.eqb x y
  | _, _ => false
  end.

(* indices of the cases that failed *)
Definition failing (cases : list (nat * bool)) : list nat :=
  map fst (filter (fun p => negb (snd p)) cases).

Definition Finf (s : bool) : f64 := S754_infinity s.
Definition Fnan : f64 := S754_nan.
Definition Fzero (s : bool) : f64 := S754_zero s.
