(* Levenshtein distance (model of py_stringmatching's Levenshtein.get_raw_score, which is an
   external, compiled component: modelled, validated by differential runs).  Row-by-row
   dynamic programme; strings are lists of code points.  Executable only.                *)
From Coq Require Import ZArith List.
Import ListNotations.
Open Scope Z_scope.

(* prev = previous row (length |s|+1); left = value just computed to the left *)
Fixpoint next_row (c : Z) (s : list Z) (prev : list Z) (left : Z) : list Z :=
  match s, prev with
  | a :: s', d :: ((u :: _) as prev') =>
      let v := Z.min (Z.min (left + 1) (u + 1)) (d + (if Z.eqb a c then 0 else 1)) in
      v :: next_row c s' prev' v
  | _, _ => []
  end.

Definition lev_rows (s t : list Z) : list Z * Z :=
  fold_left (fun (st : list Z * Z) c =>
               let i' := snd st + 1 in (i' :: next_row c s (fst st) i', i'))
            t (map Z.of_nat (seq 0 (S (length s))), 0).

Definition lev (s t : list Z) : Z := last (fst (lev_rows s t)) 0.
