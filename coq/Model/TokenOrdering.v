(* Model of utils/token_ordering.py: the global token order (frequency, then token) and the
   conversion of a token list into its sorted list of ranks.  Tokens are integers whose order
   is the order of the Python strings they stand for (the harness interns them that way).
   Executable definitions only.                                                          *)
From Coq Require Import ZArith Bool List.
Import ListNotations.
Open Scope Z_scope.

Definition memZ (v : Z) (l : list Z) : bool := existsb (Z.eqb v) l.

Fixpoint dedup (l : list Z) : list Z :=          (* keep the first occurrence *)
  match l with
  | [] => []
  | h :: t => h :: filter (fun x => negb (Z.eqb x h)) (dedup t)
  end.

Fixpoint countZ (w : Z) (l : list Z) : Z :=
  match l with [] => 0 | h :: t => (if Z.eqb w h then 1 else 0) + countZ w t end.

(* `all` is the concatenation of every token list handed to gen_token_ordering_* *)
Definition key_lt (all : list Z) (w' w : Z) : bool :=
  let f' := countZ w' all in let f := countZ w all in
  (f' <? f) || ((f' =? f) && (w' <? w)).

(* 1-based position of w in the list of distinct tokens sorted by (frequency, token) *)
Definition rank (all : list Z) (w : Z) : Z :=
  1 + Z.of_nat (length (filter (fun w' => key_lt all w' w) (dedup all))).

Fixpoint insZ (x : Z) (l : list Z) : list Z :=
  match l with
  | [] => [x]
  | h :: t => if x <=? h then x :: l else h :: insZ x t
  end.
Definition sortZ (l : list Z) : list Z := fold_right insZ [] l.

(* order_using_token_ordering: tokens without a rank are dropped, ranks sorted ascending *)
Definition order (all : list Z) (toks : list Z) : list Z :=
  sortZ (map (rank all) (filter (fun w => memZ w all) toks)).

(* the association list the real function returns (for function-level correspondence) *)
Definition ordering_assoc (all : list Z) : list (Z * Z) :=
  map (fun w => (w, rank all w)) (dedup all).
