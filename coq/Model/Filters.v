(* Pairwise models of the five filters, over token lists.  Each `*_cand` function is what the
   index-based find_candidates computes for ONE indexed record x and one probe y (both already
   converted to sorted rank lists where the real code does so); each `*_filter_pair` function
   mirrors filter_pair.  The arithmetic comes from the GENERATED filter_utils definitions.
   Executable definitions only.                                                          *)
From Coq Require Import ZArith Bool List String.
From SSJ Require Import F64 PyNum FilterUtilsGen HelperGen TokenOrdering.
Import ListNotations.
Open Scope string_scope.
Open Scope Z_scope.

Definition len (l : list Z) : Z := Z.of_nat (List.length l).

Record fparams := { fm : string;      (* measure, upper case *)
                    ft : pyval;       (* threshold as the user passed it *)
                    fq : Z }.         (* tokenizer.qval (only read under EDIT_DISTANCE) *)

Definition g_lb (p : fparams) (n : Z) : pyval := get_size_lower_bound (PInt n) (PStr (fm p)) (ft p).
Definition g_ub (p : fparams) (n : Z) : pyval := get_size_upper_bound (PInt n) (PStr (fm p)) (ft p).
Definition g_pl (p : fparams) (n : Z) : pyval :=
  get_prefix_length (PInt n) (PStr (fm p)) (ft p) (PInt (fq p)).
Definition g_ot (p : fparams) (a b : Z) : pyval :=
  get_overlap_threshold (PInt a) (PInt b) (PStr (fm p)) (ft p) (PInt (fq p)).

(* lb <= n <= ub with Python's comparison on whatever the bounds are *)
Definition in_window (lb ub : pyval) (n : Z) : bool :=
  py_truth (py_and (py_le lb (PInt n)) (py_le (PInt n) ub)).

(* tokens[0:k] *)
Definition slice0 (k : pyval) (l : list Z) : option (list Z) :=
  match k with
  | PInt z => Some (if z <? 0 then firstn (List.length l - Z.to_nat (- z)) l else firstn (Z.to_nat z) l)
  | _ => None
  end.

Definition both_empty_verdict (p : fparams) (allow_empty : bool) : bool :=   (* true = dropped *)
  if String.eqb (fm p) "OVERLAP" then true
  else if String.eqb (fm p) "EDIT_DISTANCE" then false
  else negb allow_empty.

(* ------------------------------------------------------------------ size filter *)
(* SizeFilter.filter_pair on the two token counts: window from the LEFT count *)
Definition size_filter_pair (p : fparams) (allow_empty : bool) (nl nr : Z) : bool :=
  if (nl =? 0) && (nr =? 0) then both_empty_verdict p allow_empty
  else negb (in_window (g_lb p nl) (g_ub p nl) nr).

(* SizeFilter.find_candidates for an indexed record of nx >= 1 tokens and a probe of ny tokens:
   window from the PROBE count; early exit when lower bound > probe size *)
Definition size_cand (p : fparams) (nx ny : Z) : bool :=
  (0 <? nx) && negb (py_truth (py_gt (g_lb p ny) (PInt ny))) && in_window (g_lb p ny) (g_ub p ny) nx.

(* ------------------------------------------------------------------ prefix filter *)
Definition share (a b : list Z) : bool := existsb (fun w => memZ w b) a.

Definition prefix_cand (p : fparams) (x y : list Z) : option bool :=
  match slice0 (g_pl p (len x)) x, slice0 (g_pl p (len y)) y with
  | Some xp, Some yp => Some (share yp xp)
  | _, _ => None
  end.

Definition prefix_filter_pair (p : fparams) (allow_empty : bool) (l r : list Z) : option bool :=
  if (len l =? 0) && (len r =? 0) then Some (both_empty_verdict p allow_empty) else
  let all := (l ++ r)%list in
  let x := order all l in let y := order all r in
  let pl := g_pl p (len l) in let pr := g_pl p (len r) in
  if py_truth (py_or (py_le pl (PInt 0)) (py_le pr (PInt 0))) then Some true else
  match slice0 pl x, slice0 pr y with
  | Some xp, Some yp => Some (negb (share xp yp))
  | _, _ => None
  end.

(* ------------------------------------------------------------------ position filter *)
Fixpoint positions_from (w : Z) (l : list Z) (i : nat) : list nat :=
  match l with
  | [] => []
  | h :: t => if Z.eqb w h then i :: positions_from w t (S i) else positions_from w t (S i)
  end.

(* one posting (cand, cand_pos) met while probing token number j of the probe *)
Definition pos_update (p : fparams) (nx ny : Z) (cur : Z) (j i : nat) : Z :=
  if cur =? -1 then cur else
  if in_window (g_lb p ny) (g_ub p ny) nx then
    let bound := if (ny - Z.of_nat j <=? nx - Z.of_nat i) then ny - Z.of_nat j else nx - Z.of_nat i in
    if py_truth (py_ge (PInt (cur + bound)) (g_ot p nx ny)) then cur + 1 else -1
  else cur.

Fixpoint pos_loop (p : fparams) (nx ny : Z) (xp : list Z) (yp : list Z) (j : nat) (cur : Z) : Z :=
  match yp with
  | [] => cur
  | w :: yp' =>
      let cur' := fold_left (fun c i => pos_update p nx ny c j i) (positions_from w xp 0) cur in
      pos_loop p nx ny xp yp' (S j) cur'
  end.

(* PositionFilter.find_candidates restricted to one indexed record x: the value stored in
   candidate_overlap (0 when the record is never touched) *)
Definition pos_cand (p : fparams) (x y : list Z) : option Z :=
  match slice0 (g_pl p (len x)) x, slice0 (g_pl p (len y)) y with
  | Some xp, Some yp => Some (pos_loop p (len x) (len y) xp yp 0 0)
  | _, _ => None
  end.

(* PositionFilter.filter_pair: l_prefix_dict maps every prefix token to position 0 (l_pos is
   never advanced in the source), so the bound is 1 + min(nl - 1, nr - r_pos - 1) *)
Fixpoint posfp_loop (nl nr : Z) (alpha : pyval) (lp : list Z) (rp : list Z) (j : Z) (cur : Z)
  : option Z :=                     (* None = dropped inside the loop *)
  match rp with
  | [] => Some cur
  | w :: rp' =>
      if memZ w lp then
        let ub := 1 + Z.min (nl - 0 - 1) (nr - j - 1) in
        if py_truth (py_lt (PInt (cur + ub)) alpha) then None
        else posfp_loop nl nr alpha lp rp' (j + 1) (cur + 1)
      else posfp_loop nl nr alpha lp rp' (j + 1) cur
  end.

Definition position_filter_pair (p : fparams) (allow_empty : bool) (l r : list Z) : option bool :=
  if (len l =? 0) && (len r =? 0) then Some (both_empty_verdict p allow_empty) else
  let all := (l ++ r)%list in
  let x := order all l in let y := order all r in
  let pl := g_pl p (len l) in let pr := g_pl p (len r) in
  if py_truth (py_or (py_le pl (PInt 0)) (py_le pr (PInt 0))) then Some true else
  match slice0 pl x, slice0 pr y with
  | Some xp, Some yp =>
      match posfp_loop (len l) (len r) (g_ot p (len l) (len r)) xp yp 0 0 with
      | None => Some true
      | Some c => Some (negb (0 <? c))
      end
  | _, _ => None
  end.

(* ------------------------------------------------------------------ overlap filter *)
(* OverlapFilter.find_candidates for one indexed record: number of probe tokens (with
   repetitions) times the occurrences of each in the record = postings met *)
Definition overlap_count (x y : list Z) : Z :=
  fold_left (fun c w => c + countZ w x) y 0.

(* utils.simfunctions.overlap: size of the intersection of the two token SETS *)
Definition overlap_sets (l r : list Z) : Z :=
  len (filter (fun w => memZ w (dedup r)) (dedup l)).

Definition cmp_op (op : string) (a b : pyval) : bool :=
  match comp_op_map op with Some f => py_truth (f a b) | None => false end.

(* OverlapFilter.filter_pair; l_empty/r_empty say whether the *strings* are empty *)
Definition overlap_filter_pair (op : string) (size : pyval) (l_empty r_empty : bool)
           (l r : list Z) : bool :=
  if l_empty || r_empty then true
  else negb (cmp_op op (PInt (overlap_sets l r)) size).
