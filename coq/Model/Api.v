(* API-level model: the wrapper every *_join_py / filter_tables shares (drop rows whose join
   value is missing, min(n_jobs, rows), split_table, per-chunk core, concat, missing pairs),
   instantiated for the six joins and the filters' filter_tables.  The number of processes and
   the chunk boundaries come from the GENERATED generic_helper definitions.
   Executable definitions only.                                                          *)
From Coq Require Import ZArith Bool List String SpecFloat.
From SSJ Require Import F64 PyNum FilterUtilsGen HelperGen TokenOrdering Measures Filters Joins.
Import ListNotations.
Open Scope string_scope.
Open Scope Z_scope.

(* a table row as the model sees it: key, and the join value if present, as
   (code points of the string (only filled for edit distance), tokens) *)
Definition row := (Z * option (list Z * list Z))%type.

Inductive entry :=
| EJoin (m : string)              (* JACCARD COSINE DICE OVERLAP_COEFFICIENT OVERLAP EDIT_DISTANCE *)
| EFilter (k : fkind) (m : string)   (* Size/Prefix/Position filter_tables under measure m *)
| EOverlapFilter.                    (* OverlapFilter.filter_tables *)

Record jcase := {
  j_entry : entry;
  j_t : pyval;                (* threshold / overlap_size *)
  j_q : Z;                    (* tokenizer.qval, 0 when the tokenizer has none *)
  j_op : string;
  j_allow_empty : bool;
  j_allow_missing : bool;
  j_with_score : bool;
  j_njobs : Z;
  j_cpus : Z;
  j_L : list row;
  j_R : list row }.

Definition present (r : row) : bool := match snd r with Some _ => true | None => false end.
Definition toks_of (r : row) : list Z := match snd r with Some (_, t) => t | None => [] end.
Definition str_of (r : row) : list Z := match snd r with Some (s, _) => s | None => [] end.

(* chunk boundaries from the generated split_table text *)
Definition bounds_of (v : pyval) : option (list (nat * nat)) :=
  match v with
  | PList l =>
      fold_right (fun e acc =>
        match e, acc with
        | PTuple [PInt a; PInt b], Some r => Some ((Z.to_nat (Z.max 0 a), Z.to_nat (Z.max 0 b)) :: r)
        | _, _ => None
        end) (Some []) l
  | _ => None
  end.

Definition slice_nat {A : Type} (l : list A) (ab : nat * nat) : list A :=
  firstn (snd ab - fst ab) (skipn (fst ab) l).

(* the list of chunks the wrapper hands to the per-chunk core, with the offset of each *)
Definition chunks_of {A : Type} (njobs cpus : Z) (Rp : list A) : option (list (nat * list A)) :=
  match py_min (get_num_processes_to_launch_with_cpus (PInt njobs) (PInt cpus))
               (PInt (Z.of_nat (List.length Rp))) with
  | PInt k =>
      if k <=? 1 then Some [(0%nat, Rp)]
      else match bounds_of (split_bounds (PInt (Z.of_nat (List.length Rp))) (PInt k)) with
           | Some bs => Some (map (fun ab => (fst ab, slice_nat Rp ab)) bs)
           | None => None
           end
  | _ => None
  end.

Definition core_of (c : jcase) (Lp Rc : list row) : option (list triple) :=
  let Lt := map toks_of Lp in let Rt := map toks_of Rc in
  match j_entry c with
  | EJoin m =>
      if String.eqb m "OVERLAP" then overlap_tables_core (j_op c) (j_t c) Lt Rt
      else if String.eqb m "OVERLAP_COEFFICIENT" then ovc_core (j_t c) (j_op c) (j_allow_empty c) Lt Rt
      else if String.eqb m "EDIT_DISTANCE" then
             match py_int (py_floor (j_t c)) with
             | PInt tau => ed_core (j_q c) tau (j_op c)
                                   (map (fun r => (str_of r, toks_of r)) Lp)
                                   (map (fun r => (str_of r, toks_of r)) Rc)
             | _ => None
             end
      else set_sim_join_core {| fm := m; ft := j_t c; fq := j_q c |} (j_op c) (j_allow_empty c) Lt Rt
  | EFilter k m =>
      filter_tables_core k {| fm := m; ft := j_t c; fq := j_q c |} (j_allow_empty c) Lt Rt
  | EOverlapFilter => overlap_tables_core (j_op c) (j_t c) Lt Rt
  end.

Definition out_row := (Z * Z * pyval)%type.    (* left key, right key, score (PNone = NaN/absent) *)

Definition keyed (Lp Rc : list row) (off : nat) (ts : list triple) : list out_row :=
  map (fun t : triple =>
         let '(c, j, s) := t in
         (fst (nth c Lp (0, None)), fst (nth j Rc (0, None)), s)) ts.

Definition missing_pairs (L R : list row) : list out_row :=
  (flat_map (fun l => if present l then [] else map (fun r => (fst l, fst r, PNone)) R) L ++
   flat_map (fun r => if present r then []
                      else flat_map (fun l => if present l then [(fst l, fst r, PNone)] else []) L) R)%list.

Definition api_join (c : jcase) : option (list out_row) :=
  let Lp := filter present (j_L c) in
  let Rp := filter present (j_R c) in
  match chunks_of (j_njobs c) (j_cpus c) Rp with
  | None => None
  | Some chs =>
      match opt_concat (map (fun ch : nat * list row =>
                               option_map (keyed Lp (snd ch) (fst ch)) (core_of c Lp (snd ch))) chs) with
      | None => None
      | Some rows =>
          let rows' := if j_with_score c then rows else map (fun r => (fst r, PNone)) rows in
          Some (rows' ++ (if j_allow_missing c then missing_pairs (j_L c) (j_R c) else []))%list
      end
  end.

(* ---- comparison of a predicted and an observed result as multisets ---- *)
Definition score_same (a b : pyval) : bool :=
  match a, b with
  | PNone, PNone => true
  | PNone, _ | _, PNone => false
  | _, _ => pv_eqb a b            (* numeric equality: pandas upcasts int scores to float *)
  end.
Definition out_row_same (a b : out_row) : bool :=
  let '(l1, r1, s1) := a in let '(l2, r2, s2) := b in
  Z.eqb l1 l2 && Z.eqb r1 r2 && score_same s1 s2.

Fixpoint remove_first (x : out_row) (l : list out_row) : option (list out_row) :=
  match l with
  | [] => None
  | y :: l' => if out_row_same x y then Some l'
               else option_map (cons y) (remove_first x l')
  end.
Fixpoint multiset_eqb (a b : list out_row) : bool :=
  match a with
  | [] => match b with [] => true | _ => false end
  | x :: a' => match remove_first x b with Some b' => multiset_eqb a' b' | None => false end
  end.

Definition model_agrees (c : jcase) (obs : list out_row) : bool :=
  match api_join c with Some r => multiset_eqb r obs | None => false end.
