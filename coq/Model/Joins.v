(* Pairwise models of the per-chunk join cores: set_sim_join, _overlap_coefficient_join_split,
   OverlapFilter._filter_tables_split, _edit_distance_join_split and the four filters'
   _filter_tables_split.  A core takes the two (already projected, NaN-free) tables as lists of
   token lists and returns (left row position, right row position, score) triples.  The order of
   the triples is (right row, left row) ascending; the implementation's order differs (dict
   insertion order) and results are compared as multisets, which is all the properties ask.
   Executable definitions only.                                                          *)
From Coq Require Import ZArith Bool List String SpecFloat.
From SSJ Require Import F64 PyNum FilterUtilsGen HelperGen TokenOrdering Measures Filters Suffix Lev.
Import ListNotations.
Open Scope string_scope.
Open Scope Z_scope.

Definition enumerate {A : Type} (l : list A) : list (nat * A) := combine (seq 0 (List.length l)) l.

Fixpoint list_eqbZ (a b : list Z) : bool :=
  match a, b with
  | [], [] => true
  | x :: a', y :: b' => Z.eqb x y && list_eqbZ a' b'
  | _, _ => false
  end.

(* get_raw_score of Jaccard/Cosine/Dice on two token lists *)
Definition sim_tok (m : string) (x y : list Z) : f64 :=
  if list_eqbZ x y then f_one
  else if (len x =? 0) || (len y =? 0) then S754_zero false
  else sim_formula m (len (dedup x)) (len (dedup y)) (overlap_sets x y).

Definition triple := (nat * nat * pyval)%type.

Fixpoint opt_concat {A : Type} (l : list (option (list A))) : option (list A) :=
  match l with
  | [] => Some []
  | None :: _ => None
  | Some x :: l' => match opt_concat l' with Some r => Some (x ++ r)%list | None => None end
  end.

(* --- set_sim_join (JACCARD / COSINE / DICE) on one chunk --- *)
Definition ssj_pair (p : fparams) (op : string) (x y : list Z) : option (list pyval) :=
  match pos_cand p x y with
  | None => None
  | Some v =>
      if 0 <? v then
        let s := PFloat (f_round_nd (sim_tok (fm p) x y) 4) in
        if cmp_op op s (ft p) then Some [s] else Some []
      else Some []
  end.

Definition set_sim_join_core (p : fparams) (op : string) (allow_empty : bool)
           (L R : list (list Z)) : option (list triple) :=
  let all := (List.concat L ++ List.concat R)%list in
  let Lo := enumerate (map (order all) L) in
  opt_concat (map (fun jy : nat * list Z =>
    let (j, yraw) := jy in
    let y := order all yraw in
    if allow_empty && (len y =? 0) then
      Some (flat_map (fun cx : nat * list Z =>
                        if len (snd cx) =? 0 then [(fst cx, j, PFloat f_one)] else []) Lo)
    else
      opt_concat (map (fun cx : nat * list Z =>
                    option_map (map (fun s => (fst cx, j, s))) (ssj_pair p op (snd cx) y)) Lo))
    (enumerate R)).

(* --- the four filters' _filter_tables_split; `which` selects the filter --- *)
Inductive fkind := KSize | KPrefix | KPosition | KSuffix.

Definition filter_cand (k : fkind) (p : fparams) (x y : list Z) : option bool :=
  match k with
  | KSize => Some (size_cand p (len x) (len y))
  | KPrefix => prefix_cand p x y
  | KPosition => option_map (fun v => 0 <? v) (pos_cand p x y)
  | KSuffix => suffix_cand p x y
  end.

Definition filter_tables_core (k : fkind) (p : fparams) (allow_empty : bool)
           (L R : list (list Z)) : option (list triple) :=
  let all := (List.concat L ++ List.concat R)%list in
  (* the size filter does not order tokens; only the counts matter, which ordering preserves *)
  let Lo := enumerate (map (order all) L) in
  let handle_empty := allow_empty && negb (String.eqb (fm p) "OVERLAP")
                                  && negb (String.eqb (fm p) "EDIT_DISTANCE") in
  opt_concat (map (fun jy : nat * list Z =>
    let (j, yraw) := jy in
    let y := order all yraw in
    if handle_empty && (len y =? 0) then
      Some (flat_map (fun cx : nat * list Z =>
                        if len (snd cx) =? 0 then [(fst cx, j, PNone)] else []) Lo)
    else
      opt_concat (map (fun cx : nat * list Z =>
                    option_map (fun b : bool => if b then [(fst cx, j, PNone)] else [])
                               (filter_cand k p (snd cx) y)) Lo))
    (enumerate R)).

(* --- OverlapFilter._filter_tables_split (= overlap_join's core) --- *)
Definition overlap_tables_core (op : string) (size : pyval) (L R : list (list Z))
  : option (list triple) :=
  Some (flat_map (fun jy : nat * list Z =>
    let (j, y) := jy in
    flat_map (fun cx : nat * list Z =>
      let o := overlap_count (snd cx) y in
      if (0 <? o) && cmp_op op (PInt o) size then [(fst cx, j, PInt o)] else []) (enumerate L))
    (enumerate R)).

(* --- _overlap_coefficient_join_split --- *)
Definition ovc_core (t : pyval) (op : string) (allow_empty : bool) (L R : list (list Z))
  : option (list triple) :=
  Some (flat_map (fun jy : nat * list Z =>
    let (j, y) := jy in
    if allow_empty && (len y =? 0) then
      flat_map (fun cx : nat * list Z =>
                  if len (snd cx) =? 0 then [(fst cx, j, PFloat f_one)] else []) (enumerate L)
    else
      flat_map (fun cx : nat * list Z =>
        let o := overlap_count (snd cx) y in
        if 0 <? o then
          let s := py_truediv (py_float (PInt o)) (py_float (py_min (PInt (len y)) (PInt (len (snd cx))))) in
          if cmp_op op s t then [(fst cx, j, s)] else []
        else []) (enumerate L))
    (enumerate R)).

(* --- _edit_distance_join_split: rows are (string, q-gram bag) --- *)
Definition ed_core (q : Z) (tau : Z) (op : string) (L R : list (list Z * list Z))
  : option (list triple) :=
  let p := {| fm := "EDIT_DISTANCE"; ft := PInt tau; fq := q |} in
  let all := (List.concat (map snd L) ++ List.concat (map snd R))%list in
  let Lo := enumerate (map (fun r => (fst r, order all (snd r))) L) in
  opt_concat (map (fun jy : nat * (list Z * list Z) =>
    let (j, yr) := jy in
    let y := order all (snd yr) in
    let rlen := len (fst yr) in
    opt_concat (map (fun cx : nat * (list Z * list Z) =>
      match prefix_cand p (snd (snd cx)) y with
      | None => None
      | Some false => Some []
      | Some true =>
          let llen := len (fst (snd cx)) in
          if (rlen - tau <=? llen) && (llen <=? rlen + tau) then
            let d := if list_eqbZ (fst (snd cx)) (fst yr) then PFloat (S754_zero false)
                     else PInt (lev (fst (snd cx)) (fst yr)) in
            if cmp_op op d (PInt tau) then Some [(fst cx, j, d)] else Some []
          else Some []
      end) Lo))
    (enumerate R)).
