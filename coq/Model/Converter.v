(* Executable model of py_stringsimjoin/utils/converter.py : series_to_str and
   dataframe_column_to_str, control flow exactly as in the source.  No proofs in this file.

   A cell is a missing value, a number, a bool, or a string.  Strings are abstract:
     CStr id        a string that is not the str() of a number (id given by the harness),
     CStrOfInt z    the string str(z)    of the Python int z,
     CStrOfFloat f  the string str(f)    of the Python float f.
   The harness encodes EVERY string it sees (in inputs and in outputs) canonically with these
   three constructors (str(int(s)) == s  -> CStrOfInt, else repr(float(s)) == s -> CStrOfFloat,
   else CStr), which is injective on strings, so equality of encoded cells is equality of the
   Python values.  None and NaN are both CNull.

   There is one mutable object per call: the series handed to series_to_str, or the column
   col_name of the frame handed to dataframe_column_to_str (the other columns are never touched;
   the harness checks that separately).  A call yields (result, object afterwards).            *)
From Coq Require Import ZArith Bool List String SpecFloat.
From SSJ Require Import F64 PyNum.
Import ListNotations.
Open Scope Z_scope.

Inductive dtype := DInt | DFloat | DObject | DStr | DBool.

Inductive cell :=
| CNull
| CInt (z : Z)
| CFloat (f : f64)
| CBool (b : bool)
| CStr (id : Z)
| CStrOfInt (z : Z)
| CStrOfFloat (f : f64).

Record series := mkser { s_dtype : dtype; s_cells : list cell }.

Inductive result :=
| RTrue                         (* the Python value True *)
| RSeries (s : series)          (* a new Series *)
| RFrame (col : series)         (* a new DataFrame; col = its column col_name *)
| RExc (e : string).            (* raised exception, by class name *)

Definition outcome := (result * series)%type.    (* result, the given object afterwards *)

(* ---- dtype tests of the source ---- *)
Definition dtype_eqb (a b : dtype) : bool :=
  match a, b with
  | DInt, DInt | DFloat, DFloat | DObject, DObject | DStr, DStr | DBool, DBool => true
  | _, _ => false
  end.
(* col_type == object or isinstance(col_type, pd.StringDtype) *)
Definition is_stringlike (d : dtype) : bool :=
  match d with DObject | DStr => true | _ => false end.
(* np.issubdtype(col_type, np.integer) / np.issubdtype(col_type, float) *)
Definition is_integer_dtype (d : dtype) : bool := match d with DInt => true | _ => false end.
Definition is_float_dtype (d : dtype) : bool := match d with DFloat => true | _ => false end.

(* ---- pandas primitives ---- *)
(* pd.isnull(value) *)
Definition cell_isnull (c : cell) : bool :=
  match c with
  | CNull => true
  | CFloat f => f_is_nan f
  | _ => false
  end.
Definition is_strcell (c : cell) : bool :=
  match c with CStr _ | CStrOfInt _ | CStrOfFloat _ => true | _ => false end.

Definition slen (s : series) : Z := Z.of_nat (List.length (s_cells s)).
Definition count_null (s : series) : Z := Z.of_nat (List.length (filter cell_isnull (s_cells s))).

(* series.astype(object): same values, object dtype, a new object *)
Definition astype_object (s : series) : series := mkser DObject (s_cells s).

(* series.astype(str) on an integer series: str(int) of every element *)
Definition str_of_cell (c : cell) : cell :=
  match c with
  | CInt z => CStrOfInt z
  | CFloat f => CStrOfFloat f
  | _ => c
  end.
Definition astype_str_object (s : series) : series := mkser DObject (map str_of_cell (s_cells s)).

(* series.dropna() *)
Definition dropna (s : series) : list cell := filter (fun c => negb (cell_isnull c)) (s_cells s).

(* val.is_integer() for a float element *)
Definition cell_is_integer (c : cell) : bool :=
  match c with CFloat f => f_is_integer f | _ => false end.

(* lambda val: np.NaN if pd.isnull(val) else str(int(val)) *)
Definition conv_int_cell (c : cell) : cell :=
  if cell_isnull c then CNull
  else match c with CFloat f => CStrOfInt (f_trunc f) | _ => c end.
(* lambda val: np.NaN if pd.isnull(val) else str(val) *)
Definition conv_float_cell (c : cell) : cell :=
  if cell_isnull c then CNull
  else match c with CFloat f => CStrOfFloat f | _ => c end.

(* Series.update(other) (same index), for an `other` of object dtype (col_str always is): every
   non-NA value of other overwrites the target in place, and the target keeps its dtype.  Under
   pandas 3 a value that does not fit the target's dtype makes update raise TypeError
   ("Invalid value ... for dtype ...") and leaves the target untouched: nothing coming from an
   object-typed series fits int64 / float64, only bools fit bool, only strings fit str.       *)
Definition storable (d : dtype) (c : cell) : bool :=
  match d with
  | DObject => true
  | DStr => is_strcell c
  | DBool => match c with CBool _ => true | _ => false end
  | DInt | DFloat => false
  end.
Fixpoint update_cells (old new : list cell) : list cell :=
  match old, new with
  | o :: old', n :: new' => (if cell_isnull n then o else n) :: update_cells old' new'
  | _, _ => old
  end.
Definition update (target other : series) : option series :=
  if forallb (fun c => cell_isnull c || storable (s_dtype target) c) (s_cells other)
  then Some (mkser (s_dtype target) (update_cells (s_cells target) (s_cells other)))
  else None.

(* ---- series_to_str(series, inplace) ---- *)
Definition series_to_str (s : series) (inplace : bool) : outcome :=
  let d := s_dtype s in
  (* if len(series) == 0:
       if (col_type == object or isinstance(col_type, pd.StringDtype)) and inplace: return True
       else: return series.astype(object) *)
  if Z.eqb (slen s) 0 then
    if is_stringlike d && inplace then (RTrue, s)
    else (RSeries (astype_object s), s)
  (* if col_type == object or isinstance(col_type, pd.StringDtype) *)
  else if is_stringlike d then
    if inplace then (RTrue, s) else (RSeries s (* series.copy() *), s)
  (* elif np.issubdtype(col_type, np.integer) *)
  else if is_integer_dtype d then
    let col_str := astype_str_object s in
    if inplace then
      match update s col_str with
      | Some s' => (RTrue, s')
      | None => (RExc "TypeError", s)
      end
    else (RSeries col_str, s)
  (* elif np.issubdtype(col_type, float) *)
  else if is_float_dtype d then
    let non_nan := dropna s in
    if Z.eqb (Z.of_nat (List.length non_nan)) 0 then (RSeries (astype_object s), s)
    else
      let int_values := Z.of_nat (List.length (filter cell_is_integer non_nan)) in
      let col_str :=
          if Z.eqb int_values (Z.of_nat (List.length non_nan))
          then mkser DObject (map conv_int_cell (s_cells s))
          else mkser DObject (map conv_float_cell (s_cells s)) in
      if inplace then
        match update s col_str with
        | Some s' => (RTrue, s')
        | None => (RExc "TypeError", s)
        end
      else (RSeries col_str, s)
  else (RExc "TypeError", s).

(* dataframe[col_name] = value, where value is what series_to_str returned *)
Definition assign_result (r : result) (col : series) : result * series :=
  match r with
  | RSeries s' => (RTrue, s')
  | RTrue => (RTrue, mkser DBool (map (fun _ => CBool true) (s_cells col)))   (* scalar broadcast *)
  | RFrame _ => (RExc "ValueError", col)                                       (* not reachable *)
  | RExc e => (RExc e, col)
  end.

(* ---- dataframe_column_to_str(dataframe, col_name, inplace, return_col) ----
   col_present: col_name in dataframe.columns; col: that column (anything if absent).        *)
Definition dataframe_column_to_str (col_present : bool) (col : series)
           (inplace return_col : bool) : outcome :=
  if negb col_present then (RExc "AssertionError", col)
  else if inplace && return_col then (RExc "AssertionError", col)
  else if inplace then
    let num_rows := slen col in
    if Z.eqb num_rows 0 || Z.eqb (count_null col) num_rows
    then (RTrue, astype_object col)
    else assign_result (fst (series_to_str col false)) col
  else if return_col then
    (fst (series_to_str col inplace), col)
  else
    (* dataframe_copy = dataframe.copy(); dataframe_copy[col] = series_to_str(copy[col], False) *)
    match assign_result (fst (series_to_str col false)) col with
    | (RTrue, c') => (RFrame c', col)
    | (r, _) => (r, col)
    end.

(* ---- the calls of the correspondence matrix ---- *)
Inductive call :=
| CallSeries (inplace : bool)
| CallFrame (inplace return_col : bool).

Definition run_call (c : call) (s : series) : outcome :=
  match c with
  | CallSeries ip => series_to_str s ip
  | CallFrame ip rc => dataframe_column_to_str true s ip rc
  end.

(* ---- comparison helpers for the correspondence check ---- *)
Definition fbits_same (x y : f64) : bool :=
  let '(s1, m1, e1) := f_canon x in
  let '(s2, m2, e2) := f_canon y in
  Bool.eqb s1 s2 && Z.eqb m1 m2 && Z.eqb e1 e2.

Definition cell_eqb (a b : cell) : bool :=
  match a, b with
  | CNull, CNull => true
  | CInt x, CInt y => Z.eqb x y
  | CFloat x, CFloat y => fbits_same x y
  | CBool x, CBool y => Bool.eqb x y
  | CStr x, CStr y => Z.eqb x y
  | CStrOfInt x, CStrOfInt y => Z.eqb x y
  | CStrOfFloat x, CStrOfFloat y => fbits_same x y
  | _, _ => false
  end.

Fixpoint cells_eqb (a b : list cell) : bool :=
  match a, b with
  | [], [] => true
  | x :: a', y :: b' => cell_eqb x y && cells_eqb a' b'
  | _, _ => false
  end.

Definition series_eqb (a b : series) : bool :=
  dtype_eqb (s_dtype a) (s_dtype b) && cells_eqb (s_cells a) (s_cells b).

Definition result_eqb (a b : result) : bool :=
  match a, b with
  | RTrue, RTrue => true
  | RSeries x, RSeries y => series_eqb x y
  | RFrame x, RFrame y => series_eqb x y
  | RExc x, RExc y => String.eqb x y
  | _, _ => false
  end.

Definition outcome_eqb (a b : outcome) : bool :=
  result_eqb (fst a) (fst b) && series_eqb (snd a) (snd b).

(* observation of Series.update alone (used to validate the model of `update`) *)
Definition update_obs_eqb (m : option series) (raised : bool) (after : series) (target : series) : bool :=
  match m with
  | None => raised && series_eqb after target
  | Some s' => negb raised && series_eqb after s'
  end.
