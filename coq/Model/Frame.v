(* A small model of the pandas DataFrame operations that the public wrappers
   (join/*_join_py.py, filter_tables, utils/missing_value_handler.py, convert_dataframe_to_array of
   utils/generic_helper.py) use.  Executable definitions only; no proofs in this file.

   A frame is a list of column labels and a list of rows (lists of cells, one per column, in
   column order).  As a `pyval` it is the pair

        PTuple [PList (map PList rows); PList cols]

   i.e. exactly the pair (output_rows, output_header) that the generated per-chunk cores return in
   place of pd.DataFrame(output_rows, columns=output_header) (Gen/JoinGen.v).

   WHAT IS NOT MODELLED (and therefore assumed irrelevant / checked by harness/corr_wrappergen.py):
   * the row index (labels).  Every operation below is positional in pandas too, PROVIDED a boolean
     mask is computed from a column of the very frame it is applied to (same index object), which is
     the only way the wrappers build masks.  The index of a result (pd.concat keeps the labels of
     its parts) is outside the model.
   * column dtypes.  A cell is the Python object that `.values` of an object array /
     itertuples(index=False) / Series.tolist() hands out: int64 -> PInt, float64 -> PFloat,
     object -> whatever was stored, missing -> PNone or PFloat NaN.  pandas re-types columns when
     it BUILDS a frame (a column of ints and None/NaN becomes float64: int -> float, None -> NaN)
     and when it concatenates (int64 + float64 -> float64); the model keeps the cells as they are.
     Two cells that differ only by such a re-typing are identified by `cell_same` below.
   * column labels are assumed pairwise distinct: selection by label takes the FIRST column of
     that name (pandas would return all of them).
   Values outside the model (a key of the wrong kind, frames with different columns in a concat)
   evaluate to the marker exception `OutsideFrameModel`, never to a plausible result.        *)
From Coq Require Import ZArith Bool List String SpecFloat.
From SSJ Require Import F64 PyNum.
Import ListNotations.
Open Scope string_scope.
Open Scope Z_scope.

Definition OutsideFrameModel : pyval := PExc "OutsideFrameModel".

(* pd.isnull on a cell: None and float NaN (pd.NaT / pd.NA have no counterpart in pyval) *)
Definition cell_missing (v : pyval) : bool :=
  match v with PNone => true | PFloat f => f_is_nan f | _ => false end.

(* np.NaN *)
Definition py_nan : pyval := PFloat S754_nan.

Record frame := { fr_cols : list pyval; fr_rows : list (list pyval) }.

Definition frame_val (f : frame) : pyval :=
  PTuple [PList (map PList (fr_rows f)); PList (fr_cols f)].

Fixpoint rows_of (l : list pyval) : option (list (list pyval)) :=
  match l with
  | [] => Some []
  | PList r :: t => match rows_of t with Some rs => Some (r :: rs) | None => None end
  | _ :: _ => None
  end.

(* a well-formed frame value: every row has one cell per column *)
Definition as_frame (v : pyval) : option frame :=
  match v with
  | PTuple [PList rs; PList cols] =>
      match rows_of rs with
      | Some rows =>
          if forallb (fun r => Nat.eqb (List.length r) (List.length cols)) rows
          then Some {| fr_cols := cols; fr_rows := rows |} else None
      | None => None
      end
  | _ => None
  end.

Definition with_frame (v : pyval) (k : frame -> pyval) : pyval :=
  match v with
  | PExc _ => v
  | _ => match as_frame v with Some f => k f | None => OutsideFrameModel end
  end.

(* position of the first column whose label equals a (Python ==, as Index.get_loc / list.index) *)
Fixpoint col_pos (a : pyval) (cols : list pyval) : option nat :=
  match cols with
  | [] => None
  | c :: cs => if pv_eqb c a then Some O else option_map S (col_pos a cs)
  end.

Fixpoint all_some_nat (l : list (option nat)) : option (list nat) :=
  match l with
  | [] => Some []
  | Some x :: t => match all_some_nat t with Some r => Some (x :: r) | None => None end
  | None :: _ => None
  end.

Definition is_label (a : pyval) : bool :=
  match a with PList _ | PDict _ | PExc _ => false | _ => true end.

(* ---- table.columns  /  list(table.columns.values) ----
   the labels as a list (an Index supports `in`, iteration and list() like a list does) *)
Definition frame_columns (v : pyval) : pyval := with_frame v (fun f => PList (fr_cols f)).

(* ---- table[names] with names a LIST of labels ----
   KeyError if a label is absent.  Assumes distinct column labels (first match). *)
Definition frame_select (v names : pyval) : pyval :=
  match names with
  | PExc _ => match v with PExc _ => v | _ => names end
  | PList ks =>
      with_frame v (fun f =>
        if forallb is_label ks then
          match all_some_nat (map (fun k => col_pos k (fr_cols f)) ks) with
          | Some ps => frame_val {| fr_cols := ks;
                                    fr_rows := map (fun row => map (fun n => nth n row PNone) ps)
                                                   (fr_rows f) |}
          | None => KeyError
          end
        else OutsideFrameModel)
  | _ => match v with PExc _ => v | _ => OutsideFrameModel end
  end.

(* ---- table[a] with a ONE label: the column (a Series) as the list of its cells ---- *)
Definition frame_col (v a : pyval) : pyval :=
  match a with
  | PExc _ => match v with PExc _ => v | _ => a end
  | _ =>
      with_frame v (fun f =>
        if is_label a then
          match col_pos a (fr_cols f) with
          | Some n => PList (map (fun row => nth n row PNone) (fr_rows f))
          | None => KeyError
          end
        else OutsideFrameModel)
  end.

(* ---- pd.isnull(series) / pd.notnull(series): the boolean mask ---- *)
Definition series_isnull (s : pyval) : pyval :=
  match s with
  | PExc _ => s
  | PList cells => PList (map (fun c => PBool (cell_missing c)) cells)
  | _ => OutsideFrameModel
  end.
Definition series_notnull (s : pyval) : pyval :=
  match s with
  | PExc _ => s
  | PList cells => PList (map (fun c => PBool (negb (cell_missing c))) cells)
  | _ => OutsideFrameModel
  end.

Fixpoint mask_of (l : list pyval) : option (list bool) :=
  match l with
  | [] => Some []
  | PBool b :: t => match mask_of t with Some r => Some (b :: r) | None => None end
  | _ :: _ => None
  end.
Fixpoint select_mask {A : Type} (rows : list A) (m : list bool) : list A :=
  match rows, m with
  | r :: rows', b :: m' => if b then r :: select_mask rows' m' else select_mask rows' m'
  | _, _ => []
  end.

(* ---- table[mask], mask a boolean Series computed from a column of the SAME table ----
   rows kept in order; a mask of another length is outside the model *)
Definition frame_mask (v m : pyval) : pyval :=
  match m with
  | PExc _ => match v with PExc _ => v | _ => m end
  | PList bs =>
      with_frame v (fun f =>
        match mask_of bs with
        | Some mk =>
            if Nat.eqb (List.length mk) (List.length (fr_rows f))
            then frame_val {| fr_cols := fr_cols f; fr_rows := select_mask (fr_rows f) mk |}
            else OutsideFrameModel
        | None => OutsideFrameModel
        end)
  | _ => match v with PExc _ => v | _ => OutsideFrameModel end
  end.

(* ---- table.dropna(axis=0, subset=[a]): drop the rows whose cell in column a is missing ----
   KeyError if a is not a column *)
Definition frame_dropna (v a : pyval) : pyval :=
  match a with
  | PExc _ => match v with PExc _ => v | _ => a end
  | _ =>
      with_frame v (fun f =>
        if is_label a then
          match col_pos a (fr_cols f) with
          | Some n => frame_val {| fr_cols := fr_cols f;
                                   fr_rows := filter (fun row => negb (cell_missing (nth n row PNone)))
                                                     (fr_rows f) |}
          | None => KeyError
          end
        else OutsideFrameModel)
  end.

(* ---- table.values: the 2-d array as a list of rows (lists) ----
   exact when the frame has a column of object dtype (the join attribute, whose dtype
   validate_attr_type requires to be non-numeric): then the array has dtype object and every cell
   is handed out unchanged.  (An all-numeric frame would be upcast to one numeric dtype.) *)
Definition frame_values (v : pyval) : pyval :=
  with_frame v (fun f => PList (map PList (fr_rows f))).

(* ---- len(table) ---- *)
Definition frame_len (v : pyval) : pyval :=
  with_frame v (fun f => PInt (Z.of_nat (List.length (fr_rows f)))).

(* ---- table.itertuples(index=False): the rows as tuples, in order ----
   (namedtuples; the wrappers only index them by position) *)
Definition frame_itertuples (v : pyval) : pyval :=
  with_frame v (fun f => PList (map PTuple (fr_rows f))).

(* ---- pd.DataFrame(rows, columns=header), rows a list of lists ----
   exact when every row has as many cells as the header has labels (or there are no rows).
   DEVIATION: if the LONGEST row has that many cells pandas pads the shorter rows with missing
   values; the model answers ValueError as soon as any row has another length (pandas: ValueError
   "<n> columns passed, passed data had <m> columns" only when the longest row differs). *)
Definition frame_make (rows header : pyval) : pyval :=
  match rows, header with
  | PExc _, _ => rows
  | _, PExc _ => header
  | PList rs, PList cols =>
      match rows_of rs with
      | Some rws =>
          if forallb (fun r => Nat.eqb (List.length r) (List.length cols)) rws
          then frame_val {| fr_cols := cols; fr_rows := rws |}
          else ValueError
      | None => OutsideFrameModel
      end
  | _, _ => OutsideFrameModel
  end.

(* the value (rows, header) returned by a generated per-chunk core stands for
   pd.DataFrame(rows, columns=header) *)
Definition frame_of_core (v : pyval) : pyval :=
  match v with
  | PExc _ => v
  | PTuple [rows; header] => frame_make rows header
  | _ => OutsideFrameModel
  end.

Fixpoint frames_of (l : list pyval) : option (list frame) :=
  match l with
  | [] => Some []
  | v :: t => match as_frame v, frames_of t with
              | Some f, Some fs => Some (f :: fs)
              | _, _ => None
              end
  end.

Definition labels_same (a b : list pyval) : bool := pv_eqb (PList a) (PList b).

(* ---- pd.concat(frames), all frames with the same column labels in the same order ----
   rows appended in order (the index labels of the parts are kept by pandas: not modelled).
   ValueError for an empty list ("No objects to concatenate"); frames with different columns
   (pandas takes the union of the columns) are outside the model.  (Equal column lists are
   concatenated positionally by pandas even when a label is repeated.) *)
Definition frame_concat (v : pyval) : pyval :=
  match v with
  | PExc _ => v
  | PList fs =>
      match find is_exc fs with
      | Some e => e
      | None =>
          match frames_of fs with
          | Some [] => ValueError
          | Some (f0 :: rest) =>
              if forallb (fun f => labels_same (fr_cols f0) (fr_cols f)) rest
              then frame_val {| fr_cols := fr_cols f0;
                                fr_rows := List.concat (map fr_rows (f0 :: rest)) |}
              else OutsideFrameModel
          | None => OutsideFrameModel
          end
      end
  | _ => OutsideFrameModel
  end.

(* ---- table.insert(0, name, values): a new first column (in place in pandas; the translator
   rebinds the name, after checking that the frame is not aliased) ----
   ValueError if the label exists ("cannot insert <name>, already exists") or the number of
   values differs from the number of rows *)
Definition frame_insert0 (v name vals : pyval) : pyval :=
  match v, name, vals with
  | PExc _, _, _ => v
  | _, PExc _, _ => name
  | _, _, PExc _ => vals
  | _, _, PList xs =>
      with_frame v (fun f =>
        if is_label name then
          match col_pos name (fr_cols f) with
          | Some _ => ValueError
          | None =>
              if Nat.eqb (List.length xs) (List.length (fr_rows f))
              then frame_val {| fr_cols := name :: fr_cols f;
                                fr_rows := map (fun xr => fst xr :: snd xr) (combine xs (fr_rows f)) |}
              else ValueError
          end
        else OutsideFrameModel)
  | _, _, _ => OutsideFrameModel
  end.

(* ---- comparison with an observed DataFrame (harness) ----
   floatcol = the observed column has a float dtype: pandas stored every number of that column as a
   double and every missing value as NaN.  The model's cell is re-typed the same way (int -> the
   double of the same value, None -> NaN) and then compared bit-for-bit.  In any other column the
   cells must be structurally identical (int vs float vs bool distinguished), except that
   (i) None and NaN are both "missing", and (ii) an int of the model may be observed as the double
   of the same value: an intermediate pd.concat of an int64 part with a float64 part upcasts the
   ints, and a later concat with an EMPTY part (object dtype) turns the column into object, so the
   final dtype no longer shows the upcast.  (A float of the model is never accepted as an int.) *)
Definition f_bits_same (x y : f64) : bool :=
  let '(s1, m1, e1) := f_canon x in
  let '(s2, m2, e2) := f_canon y in
  Bool.eqb s1 s2 && Z.eqb m1 m2 && Z.eqb e1 e2.

Definition retype_float (v : pyval) : pyval :=
  match v with
  | PInt z => PFloat (f_of_Z z)
  | PNone => py_nan
  | _ => v
  end.

Fixpoint cell_strict (a b : pyval) {struct a} : bool :=
  let fix go (xs ys : list pyval) {struct xs} : bool :=
      match xs, ys with
      | [], [] => true
      | x :: xs', y :: ys' => cell_strict x y && go xs' ys'
      | _, _ => false
      end in
  match a, b with
  | PInt x, PInt y => Z.eqb x y
  | PFloat x, PFloat y => f_bits_same x y
  | PStr x, PStr y => String.eqb x y
  | PBool x, PBool y => Bool.eqb x y
  | PNone, PNone => true
  | PList x, PList y => go x y
  | PTuple x, PTuple y => go x y
  | PDict x, PDict y => go x y
  | PExc x, PExc y => String.eqb x y
  | _, _ => false
  end.

Definition cell_same (floatcol : bool) (model observed : pyval) : bool :=
  if floatcol then cell_strict (retype_float model) observed
  else if cell_missing model then cell_missing observed
  else match model, observed with
       | PInt z, PFloat f => f_bits_same (f_of_Z z) f
       | _, _ => cell_strict model observed
       end.

Fixpoint row_same (fl : list bool) (m o : list pyval) : bool :=
  match fl, m, o with
  | [], [], [] => true
  | f :: fl', a :: m', b :: o' => cell_same f a b && row_same fl' m' o'
  | _, _, _ => false
  end.
Fixpoint rows_same (fl : list bool) (m o : list (list pyval)) : bool :=
  match m, o with
  | [], [] => true
  | a :: m', b :: o' => row_same fl a b && rows_same fl m' o'
  | _, _ => false
  end.

(* model value vs observation: the same exception class, or the same labels (strictly) and the
   same rows in the same order *)
Definition frame_same (fl : list bool) (model observed : pyval) : bool :=
  match model, observed with
  | PExc a, PExc b => String.eqb a b
  | _, _ =>
      match as_frame model, as_frame observed with
      | Some fm, Some fo =>
          cell_strict (PList (fr_cols fm)) (PList (fr_cols fo)) && rows_same fl (fr_rows fm) (fr_rows fo)
      | _, _ => false
      end
  end.
