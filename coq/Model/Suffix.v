(* Model of SuffixFilter (filter_pair / _filter_suffix / _est_hamming_dist_lower_bound /
   _partition / _binary_search).  Token counts travel separately from the lists, as in the
   source.  The half-integers of the source (o = (hmax - abs_diff) / 2 in float) are exact in
   binary64; they are modelled as numerators over 2 and int() as truncation toward zero.
   Executable definitions only.                                                          *)
From Coq Require Import ZArith Bool List String.
From SSJ Require Import F64 PyNum FilterUtilsGen TokenOrdering Filters.
Import ListNotations.
Open Scope Z_scope.

Definition nthZ (l : list Z) (i : Z) : Z := nth (Z.to_nat i) l 0.

Fixpoint bsearch (fuel : nat) (tokens : list Z) (probe : Z) (left right : Z) : Z :=
  match fuel with
  | O => left
  | S k =>
      if left =? right then left else
      let mid := (left + right) / 2 in
      let mt := nthZ tokens mid in
      if mt =? probe then mid
      else if mt <? probe then bsearch k tokens probe (mid + 1) right
      else bsearch k tokens probe left mid
  end.

(* returns (tokens_left, tokens_right, flag, diff) *)
Definition partition (tokens : list Z) (probe : Z) (left right : Z)
  : list Z * list Z * Z * Z :=
  let right := Z.min right (len tokens - 1) in
  if right <? left then ([], [], 0, 1)
  else if probe <? nthZ tokens left then ([], [], 0, 1)
  else if nthZ tokens right <? probe then ([], [], 0, 1)
  else
    let pos := bsearch (S (List.length tokens)) tokens probe left right in
    let tl := firstn (Z.to_nat pos) tokens in
    if nthZ tokens pos =? probe then (tl, skipn (Z.to_nat (pos + 1)) tokens, 1, 0)
    else (tl, skipn (Z.to_nat pos) tokens, 1, 1).

(* depth fuel: max_depth = 2, so three levels can run *)
Fixpoint est_hamming (fuel : nat) (depth : Z) (ls rs : list Z) (ln rn : Z) (hmax : Z) : Z :=
  let abs_diff := Z.abs (ln - rn) in
  match fuel with
  | O => abs_diff
  | S k =>
      if (2 <? depth) || (ln =? 0) || (rn =? 0) then abs_diff
      else if (ln =? 1) && (rn =? 1) then (if nthZ ls 0 =? nthZ rs 0 then 0 else 1)
      else
        let r_mid := rn / 2 in                     (* int(floor(rn / 2)), rn >= 0 here or < 0 *)
        let r_mid_token := nthZ rs r_mid in
        let o2 := hmax - abs_diff in                (* 2 * o *)
        let o_l := if ln <? rn then 1 else 0 in
        let o_r := if ln <? rn then 0 else 1 in
        let '(r_l, r_r, _, _) := partition rs r_mid_token r_mid r_mid in
        let lo := Z.max 0 (Z.quot (2 * r_mid - o2 - 2 * abs_diff * o_l) 2) in
        let hi := Z.min (ln - 1) (Z.quot (2 * r_mid + o2 + 2 * abs_diff * o_r) 2) in
        let '(l_l, l_r, flag, diff) := partition ls r_mid_token lo hi in
        if flag =? 0 then hmax + 1 else
        let rln := len r_l in let rrn := len r_r in
        let lln := len l_l in let lrn := len l_r in
        let hd := Z.abs (lln - rln) + Z.abs (lrn - rrn) + diff in
        if hmax <? hd then hd else
        let hd_l := est_hamming k (depth + 1) l_l r_l lln rln (hmax - Z.abs (lrn - rrn) - diff) in
        let hd2 := hd_l + Z.abs (lrn - rrn) + diff in
        if hd2 <=? hmax then
          let hd_r := est_hamming k (depth + 1) l_r r_r lrn rrn (hmax - hd_l - diff) in
          hd_l + hd_r + diff
        else hd2
  end.

(* _filter_suffix: true = dropped.  Only defined for an integer overlap threshold. *)
Definition filter_suffix (p : fparams) (ls rs : list Z) (lp rp ln rn : Z) : option bool :=
  match g_ot p ln rn with
  | PInt al =>
      if (al <=? lp) && (al <=? rp) then Some false else
      let hmax := ln + rn - 2 * al in
      let hd := est_hamming 3 1 ls rs (ln - lp) (rn - rp) hmax in
      Some (negb (hd <=? hmax))
  | _ => None
  end.

Definition skipZ (k : Z) (l : list Z) : list Z :=
  if k <? 0 then skipn (List.length l - Z.to_nat (- k)) l else skipn (Z.to_nat k) l.

Definition suffix_filter_pair (p : fparams) (allow_empty : bool) (l r : list Z) : option bool :=
  if (len l =? 0) && (len r =? 0) then Some (both_empty_verdict p allow_empty) else
  let all := (l ++ r)%list in
  let x := order all l in let y := order all r in
  match g_pl p (len l), g_pl p (len r) with
  | PInt pl, PInt pr =>
      if (pl <=? 0) || (pr <=? 0) then Some true
      else filter_suffix p (skipZ pl x) (skipZ pr y) pl pr (len l) (len r)
  | _, _ => None
  end.

(* one (left row, right row) step of SuffixFilter's _filter_tables_split on ordered lists *)
Definition suffix_cand (p : fparams) (x y : list Z) : option bool :=   (* true = kept *)
  match g_pl p (len x), g_pl p (len y) with
  | PInt pl, PInt pr =>
      if (pl <=? 0) || (pr <=? 0) then Some false
      else option_map negb (filter_suffix p (skipZ pl x) (skipZ pr y) pl pr (len x) (len y))
  | _, _ => None
  end.
