(* The pandas / builtin operations that profiler/profiler.py : profile_table_for_join uses on top of
   the frame model Model/Frame.v.  Executable definitions only; no proofs in this file.

   The input table is a frame value of Model/Frame.v (PTuple [PList rows; PList cols], a cell being
   the Python object that Series.tolist() hands out: int64 -> PInt, float64 -> PFloat, bool -> PBool,
   object / str dtype -> the stored object, missing -> PNone or PFloat NaN).  Already there:
        list(T.columns.values), T.columns -> frame_columns      len(T) -> frame_len
        T[a]                              -> frame_col           pd.isnull(S) -> series_isnull
   New here:
        len(S.dropna().unique())              -> series_nunique_present  (distinct NON-missing cells; the
                                                 source adds 1 itself when a cell is missing)
        len(S.unique())                       -> series_nunique  (no longer used by the source: it counts
                                                 None and NaN as two values; kept as the reference for the
                                                 old count, Proofs/ProfilerRefineModel.v ex_mixed_old_count)
        sum(mask)                             -> py_sum            (the builtin, on any list)
        pd.DataFrame(records, columns=header) -> frame_of_records  (records: a list of TUPLES)
        F.set_index(label)                    -> frame_set_index
        str(x)                                -> py_str str_float  (ints exactly; floats through the
                                                 parameter str_float : f64 -> string, see below)
        sep.join(list)                        -> py_str_join

   WHAT IS ASSUMED ABOUT PANDAS (checked by harness/corr_profgen.py, not proved):
   * Series.unique() keeps one representative per class of the hashtable equality
        a ~ b  :=  (a and b are both float NaN)  or  a == b   (Python ==, as pv_eqb)
     -- for object columns that is pandas' PyObject hashtable (1, 1.0 and True are ONE value, None is
     equal only to None, NaN only to NaN: a column that holds None AND NaN has TWO missing "values"),
     for float64 columns the float hashtable (all NaN equal, 0.0 == -0.0), for int64 / bool / str
     columns plain equality.  Only the NUMBER of classes is used.
   * Series.dropna() removes exactly the cells with pd.isnull (cell_missing: None and float NaN) and keeps
     the others in order, so len(S.dropna().unique()) is the number of classes among the present cells.
   * str(float) is not modelled: shortest round-trip repr.  The generated functions take
     str_float : f64 -> string; the harness passes the observed strings, the theorems hold for every
     str_float.                                                                                   *)
From Coq Require Import ZArith Bool List String Ascii SpecFloat MSetAVL DecimalString.
From SSJ Require Import F64 PyNum Frame.
Import ListNotations.
Open Scope string_scope.
Open Scope Z_scope.

(* ------------------------------------------------------------------ str / join / sum *)
(* str(int): decimal digits, '-' for negative numbers *)
Definition z_str (z : Z) : string := NilZero.string_of_int (Z.to_int z).

Definition py_str (str_float : f64 -> string) : pyval -> pyval :=
  strict1 (fun a => match a with
    | PInt z => PStr (z_str z)
    | PFloat f => PStr (str_float f)
    | PStr s => PStr s
    | PBool b => PStr (if b then "True" else "False")
    | PNone => PStr "None"
    | _ => PExc "OutsideStrModel"          (* repr of containers: not modelled *)
    end).

Fixpoint str_items (l : list pyval) : option (list string) :=
  match l with
  | [] => Some []
  | PStr s :: t => match str_items t with Some r => Some (s :: r) | None => None end
  | _ :: _ => None
  end.

(* sep.join(iterable): TypeError if an item is not a str; an exception among the items (the list
   display was evaluated first) propagates *)
Definition py_str_join (sep it : pyval) : pyval :=
  match sep, it with
  | PExc _, _ => sep
  | _, PExc _ => it
  | PStr s, _ =>
      match py_iter it with
      | inr e => e
      | inl xs => match find is_exc xs with
                  | Some e => e
                  | None => match str_items xs with
                            | Some ss => PStr (String.concat s ss)
                            | None => TypeError
                            end
                  end
      end
  | _, _ => PExc "AttributeError"
  end.

(* sum(iterable): 0 + x1 + x2 + ... (bools count as 0 / 1) *)
Definition py_sum (it : pyval) : pyval :=
  match py_iter it with
  | inr e => e
  | inl xs => fold_left py_add xs (PInt 0)
  end.

(* ------------------------------------------------------------------ Series.unique() *)
Definition cell_nan (v : pyval) : bool := match v with PFloat f => f_is_nan f | _ => false end.

(* the equality of pandas' hashtables *)
Definition cell_key_eq (a b : pyval) : bool := (cell_nan a && cell_nan b) || pv_eqb a b.

(* first occurrences, in order of appearance (the reference definition) *)
Fixpoint uniq_cells (l : list pyval) : list pyval :=
  match l with
  | [] => []
  | x :: l' => x :: filter (fun y => negb (cell_key_eq x y)) (uniq_cells l')
  end.

(* the number of classes, computed without the quadratic scan for the PInt cells: they go into an
   AVL set; that is exact when no other cell can be equal to an int (no bool, no float except NaN).
   Proofs/ProfilerRefineBase.v: nunique l = length (uniq_cells l) for every l. *)
Module ZS := MSetAVL.Make Z.

Definition is_pint (v : pyval) : bool := match v with PInt _ => true | _ => false end.
Definition int_free (v : pyval) : bool :=
  match v with PInt _ | PBool _ => false | PFloat f => f_is_nan f | _ => true end.
Definition add_int (s : ZS.t) (c : pyval) : ZS.t := match c with PInt z => ZS.add z s | _ => s end.

Definition nunique (cells : list pyval) : nat :=
  let rest := filter (fun c => negb (is_pint c)) cells in
  if forallb int_free rest
  then (ZS.cardinal (fold_left add_int cells ZS.empty) + List.length (uniq_cells rest))%nat
  else List.length (uniq_cells cells).

(* len(S.unique()), S a column as handed out by frame_col *)
Definition series_nunique (s : pyval) : pyval :=
  match s with
  | PExc _ => s
  | PList cells => PInt (Z.of_nat (nunique cells))
  | _ => OutsideFrameModel
  end.

(* len(S.dropna().unique()): the number of classes among the cells that are not missing *)
Definition nunique_present (cells : list pyval) : nat :=
  nunique (filter (fun c => negb (cell_missing c)) cells).

Definition series_nunique_present (s : pyval) : pyval :=
  match s with
  | PExc _ => s
  | PList cells => PInt (Z.of_nat (nunique_present cells))
  | _ => OutsideFrameModel
  end.

(* ------------------------------------------------------------------ the output frame *)
Fixpoint records_of (l : list pyval) : option (list (list pyval)) :=
  match l with
  | [] => Some []
  | PTuple r :: t | PList r :: t => match records_of t with Some rs => Some (r :: rs) | None => None end
  | _ :: _ => None
  end.

(* pd.DataFrame(records, columns=header), records a list of tuples (or lists); same deviation for
   ragged records as Frame.frame_make *)
Definition frame_of_records (rows header : pyval) : pyval :=
  match rows, header with
  | PExc _, _ => rows
  | _, PExc _ => header
  | PList rs, PList _ =>
      match find is_exc rs with
      | Some e => e
      | None => match records_of rs with
                | Some rws => frame_make (PList (map PList rws)) header
                | None => OutsideFrameModel
                end
      end
  | _, _ => OutsideFrameModel
  end.

Fixpoint remove_nth {A : Type} (n : nat) (l : list A) : list A :=
  match n, l with
  | _, [] => []
  | O, _ :: t => t
  | S k, x :: t => x :: remove_nth k t
  end.

(* F.set_index(label): the column becomes the (named) row index and is removed from the columns.
   The result is the triple  PTuple [label; PList index entries; frame of the remaining columns].
   KeyError if the label is not a column; assumes distinct labels (first match). *)
Definition frame_set_index (v key : pyval) : pyval :=
  match key with
  | PExc _ => match v with PExc _ => v | _ => key end
  | _ =>
      with_frame v (fun f =>
        if is_label key then
          match col_pos key (fr_cols f) with
          | Some n => PTuple [key; PList (map (fun r => nth n r PNone) (fr_rows f));
                              frame_val {| fr_cols := remove_nth n (fr_cols f);
                                           fr_rows := map (remove_nth n) (fr_rows f) |}]
          | None => KeyError
          end
        else OutsideFrameModel)
  end.

(* comparison with an observed output (harness): everything is a string here, so structural *)
Definition iframe_same (model observed : pyval) : bool := cell_strict model observed.
