(* Executable model of py_stringsimjoin/profiler/profiler.py : profile_table_for_join.
   No proofs in this file.

   A column is a list of value ids, None = missing value (None / NaN).  The harness assigns ids by
   Python equality, which is what the hashtable behind Series.unique() uses, so
     len(series.unique())      = length (dedup col)     (a missing value counts as one value)
     sum(pd.isnull(series))    = number of None.
   The statistics are formatted as  str(c) + ' (' + str(pct) + '%)' ; the model keeps the pair
   (c, pct) and the harness parses the two numbers back out of the observed strings (and checks
   that re-formatting them gives the observed string).                                        *)
From Coq Require Import ZArith Bool List String SpecFloat.
From SSJ Require Import F64 PyNum.
Import ListNotations.
Open Scope Z_scope.

Definition column := list (option Z).

Definition oz_eqb (a b : option Z) : bool :=
  match a, b with
  | None, None => true
  | Some x, Some y => Z.eqb x y
  | _, _ => false
  end.

(* Series.unique(): first occurrences, in order of appearance *)
Fixpoint dedup (l : column) : column :=
  match l with
  | [] => []
  | x :: l' => x :: filter (fun y => negb (oz_eqb x y)) (dedup l')
  end.

Definition is_missing (c : option Z) : bool := match c with None => true | Some _ => false end.

Definition n_unique (col : column) : Z := Z.of_nat (List.length (dedup col)).
Definition n_missing (col : column) : Z := Z.of_nat (List.length (filter is_missing col)).

(* round((float(c) / float(n)) * 100, 2) *)
Definition pct (c n : Z) : f64 :=
  f_round_nd (fmul (fdiv (f_of_Z c) (f_of_Z n)) (f_of_Z 100)) 2.

(* comments = ''                       -> CmtNone
   'Joining on this attribute will ignore <missing stat> rows.'   -> CmtMissing
   'This attribute can be used as a key attribute.'               -> CmtKey            *)
Inductive comment := CmtNone | CmtMissing | CmtKey.

Definition comment_eqb (a b : comment) : bool :=
  match a, b with
  | CmtNone, CmtNone | CmtMissing, CmtMissing | CmtKey, CmtKey => true
  | _, _ => false
  end.

(* the two `if`s of the source, in order; the second overrides the first:
     if missing_values > 0: comments = 'Joining ...'
     if unique_values == num_rows and missing_values == 0: comments = 'This attribute ...'  *)
Definition comment_of (n u m : Z) : comment :=
  let c1 := if Z.ltb 0 m then CmtMissing else CmtNone in
  if Z.eqb u n && Z.eqb m 0 then CmtKey else c1.

Record prow := mkrow { p_u : Z; p_upct : f64; p_m : Z; p_mpct : f64; p_cmt : comment }.

(* count-level entry point: n rows, u unique values, m missing values (n >= 1) *)
Definition profile_counts (n u m : Z) : prow :=
  mkrow u (pct u n) m (pct m n) (comment_of n u m).

(* one attribute of a table with nrows rows *)
Definition profile_column (nrows : Z) (col : column) : prow :=
  profile_counts nrows (n_unique col) (n_missing col).

Fixpoint lookup_col (a : Z) (tbl : list (Z * column)) : option column :=
  match tbl with
  | [] => None
  | (b, c) :: tbl' => if Z.eqb a b then Some c else lookup_col a tbl'
  end.

Inductive presult :=
| POk (rows : list (Z * prow))      (* output frame: index entry (attribute id), row *)
| PErr (e : string).

(* profile_table_for_join(input_table, profile_attrs):
   attrs = None -> all columns, in column order; otherwise every requested attribute must exist
   (validate_attr -> AssertionError), and one row is produced per list element, repeats included.
   A table without rows makes float(c) / float(0) raise as soon as one attribute is profiled.   *)
Definition profile_table (nrows : Z) (tbl : list (Z * column)) (attrs : option (list Z)) : presult :=
  let names := map fst tbl in
  let sel := match attrs with
             | None => Some names
             | Some l => if forallb (fun a => existsb (Z.eqb a) names) l then Some l else None
             end in
  match sel with
  | None => PErr "AssertionError"
  | Some l =>
      match l with
      | [] => POk []
      | _ :: _ =>
          if Z.eqb nrows 0 then PErr "ZeroDivisionError"
          else POk (map (fun a => (a, profile_column nrows
                                        (match lookup_col a tbl with Some c => c | None => [] end))) l)
      end
  end.

(* ---- comparison helpers for the correspondence check ---- *)
Definition f_bits_same (x y : f64) : bool :=
  let '(s1, m1, e1) := f_canon x in
  let '(s2, m2, e2) := f_canon y in
  Bool.eqb s1 s2 && Z.eqb m1 m2 && Z.eqb e1 e2.

Definition prow_same (a b : prow) : bool :=
  Z.eqb (p_u a) (p_u b) && f_bits_same (p_upct a) (p_upct b) &&
  Z.eqb (p_m a) (p_m b) && f_bits_same (p_mpct a) (p_mpct b) &&
  comment_eqb (p_cmt a) (p_cmt b).

Fixpoint rows_same (a b : list (Z * prow)) : bool :=
  match a, b with
  | [], [] => true
  | (x, r) :: a', (y, q) :: b' => Z.eqb x y && prow_same r q && rows_same a' b'
  | _, _ => false
  end.

Definition presult_same (a b : presult) : bool :=
  match a, b with
  | POk x, POk y => rows_same x y
  | PErr x, PErr y => String.eqb x y
  | _, _ => false
  end.
