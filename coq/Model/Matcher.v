(* Models of matcher/apply_matcher.py and Filter.filter_candset (filter/filter.py).
   The similarity function, the tokenizer and filter_pair are PARAMETERS: the model is the
   row-wise loop, the key->row dictionaries, the token cache decision and the chunking.
   Executable definitions only.                                                          *)
From Coq Require Import ZArith Bool List String.
From SSJ Require Import F64 PyNum HelperGen Filters Api.
Import ListNotations.
Open Scope string_scope.
Open Scope Z_scope.

(* a candidate row: (first cell of the row = its _id, left key, right key) *)
Definition crow := (pyval * Z * Z)%type.
(* a table row for the matcher: key -> value id (None = missing value) *)
Definition mrow := (Z * option Z)%type.

Fixpoint lookup (k : Z) (T : list mrow) : option (option Z) :=
  (* build_dict_from_table: a later row with the same key overwrites an earlier one *)
  match T with
  | [] => None
  | (k', v) :: T' => match lookup k T' with
                     | Some r => Some r
                     | None => if Z.eqb k k' then Some v else None
                     end
  end.

Section Matcher.
  Variable sim : Z -> Z -> pyval.      (* sim_function(tok(l), tok(r)) on value ids *)
  Variable t : pyval.
  Variable op : string.
  Variable allow_missing : bool.
  Variable with_score : bool.
  Variables L R : list mrow.

  (* one iteration of _apply_matcher_split's loop: None = row skipped; an undefined key
     lookup (KeyError in the source) is outside the preconditions and yields PExc *)
  Definition match_row (c : crow) : option (pyval * Z * Z * pyval) :=
    let '(id, lk, rk) := c in
    match lookup lk L, lookup rk R with
    | Some lv, Some rv =>
        match lv, rv with
        | Some a, Some b =>
            let s := sim a b in
            if cmp_op op s t then Some (id, lk, rk, if with_score then s else PNone) else None
        | _, _ => if allow_missing then Some (id, lk, rk, PNone) else None
        end
    | _, _ => Some (PExc "KeyError", lk, rk, PNone)
    end.

  Definition matcher_split (cand : list crow) : list (pyval * Z * Z * pyval) :=
    flat_map (fun c => match match_row c with Some r => [r] | None => [] end) cand.

  Definition apply_matcher_model (njobs cpus : Z) (cand : list crow)
    : option (list (pyval * Z * Z * pyval)) :=
    match cand with
    | [] => Some []                       (* `if candset.empty: return candset` *)
    | _ => match chunks_of njobs cpus cand with
           | Some chs => Some (flat_map (fun ch => matcher_split (snd ch)) chs)
           | None => None
           end
    end.
End Matcher.

(* filter_candset: keep the rows whose pair filter_pair does not drop *)
Section Candset.
  Variable dropped : Z -> Z -> bool.   (* filter_pair on the values of (left key, right key) *)
  Definition candset_split (cand : list (nat * Z * Z)) : list nat :=
    flat_map (fun c : nat * Z * Z => let '(i, lk, rk) := c in if dropped lk rk then [] else [i]) cand.
  Definition filter_candset_model (njobs cpus : Z) (cand : list (nat * Z * Z)) : option (list nat) :=
    match cand with
    | [] => Some []
    | _ => match chunks_of njobs cpus cand with
           | Some chs => Some (flat_map (fun ch => candset_split (snd ch)) chs)
           | None => None
           end
    end.
End Candset.

(* ---- helpers for case files ---- *)
Definition assoc2 (tab : list (Z * Z * pyval)) (a b : Z) : pyval :=
  match find (fun e : Z * Z * pyval => Z.eqb (fst (fst e)) a && Z.eqb (snd (fst e)) b) tab with
  | Some e => snd e
  | None => PExc "NoSuchPair"
  end.
Definition assoc2b (tab : list (Z * Z * bool)) (a b : Z) : bool :=
  match find (fun e : Z * Z * bool => Z.eqb (fst (fst e)) a && Z.eqb (snd (fst e)) b) tab with
  | Some e => snd e
  | None => true
  end.

Definition mrow_same (a b : pyval * Z * Z * pyval) : bool :=
  let '(i1, l1, r1, s1) := a in let '(i2, l2, r2, s2) := b in
  pv_eqb i1 i2 && Z.eqb l1 l2 && Z.eqb r1 r2 && score_same s1 s2.
Fixpoint list_same {A : Type} (f : A -> A -> bool) (a b : list A) : bool :=
  match a, b with
  | [], [] => true
  | x :: a', y :: b' => f x y && list_same f a' b'
  | _, _ => false
  end.
