(* The output-projection pipeline of a join / filter_tables call, composed from the GENERATED
   helpers of utils/generic_helper.py exactly as the wrappers compose them
   (join/jaccard_join_py.py and friends, filter/overlap_filter.py filter_tables):

     l_out_attrs  = remove_redundant_attrs(l_out_attrs, l_key_attr)
     l_proj_attrs = get_attrs_to_project(l_out_attrs, l_key_attr, l_join_attr)
     ltable_array = ltable[l_proj_attrs].dropna(subset=[l_join_attr]).values
     set_sim_join / _filter_tables_split (ltable_array, ..., l_columns := l_proj_attrs, ...):
         l_key_attr_index    = l_columns.index(l_key_attr)
         l_out_attrs_indices = find_output_attribute_indices(l_columns, l_out_attrs)
         row    = get_output_row_from_tables(...)  if some out-attr list is not None
                  [l_row[l_key_attr_index], r_row[r_key_attr_index]] otherwise
         header = get_output_header_from_tables(...) (+ "_sim_score"), "_id" inserted at 0 later
     get_pairs_with_missing_value (utils/missing_value_handler.py): the same helpers, but over
         the FULL tables: l_columns := list(ltable.columns), rows := itertuples  (out_cells_mv).

   Executable; no proofs in this file.                                                    *)
From Coq Require Import ZArith List String Bool.
From SSJ Require Import F64 PyNum HelperGen.
Import ListNotations.
Open Scope string_scope.

Record pcase := {
  p_lcols : list string; p_rcols : list string;   (* column names of the input tables, table order *)
  p_lkey : string; p_rkey : string; p_ljoin : string; p_rjoin : string;
  p_lout : option (list string); p_rout : option (list string);  (* as passed; None = Python None *)
  p_lpre : string; p_rpre : string; p_score : bool }.

(* ---- Python values <-> lists ---- *)
Definition py_strs (l : list string) : pyval := PList (map PStr l).
Definition py_opt_strs (o : option (list string)) : pyval :=
  match o with None => PNone | Some l => py_strs l end.

Fixpoint all_some {A : Type} (l : list (option A)) : option (list A) :=
  match l with
  | [] => Some []
  | Some x :: t => match all_some t with Some r => Some (x :: r) | None => None end
  | None :: _ => None
  end.
Definition list_of (v : pyval) : option (list pyval) :=
  match v with PList l => Some l | _ => None end.
Definition strs_of (v : pyval) : option (list string) :=
  match v with
  | PList l => all_some (map (fun x => match x with PStr s => Some s | _ => None end) l)
  | _ => None
  end.

(* ---- dataframe[proj_attrs] restricted to one row: select by column label (first match) ---- *)
Fixpoint pos_of (a : string) (cols : list string) : option nat :=
  match cols with
  | [] => None
  | c :: cs => if String.eqb c a then Some O else option_map S (pos_of a cs)
  end.
Definition project_row (cols : list string) (row : list pyval) (proj : list string)
  : option (list pyval) :=
  all_some (map (fun a => match pos_of a cols with
                          | Some n => nth_error row n
                          | None => None end) proj).

(* ---- the wrapper's preprocessing ---- *)
Definition l_out (c : pcase) : pyval :=
  remove_redundant_attrs (py_opt_strs (p_lout c)) (PStr (p_lkey c)).
Definition r_out (c : pcase) : pyval :=
  remove_redundant_attrs (py_opt_strs (p_rout c)) (PStr (p_rkey c)).
Definition l_proj (c : pcase) : pyval :=
  get_attrs_to_project (l_out c) (PStr (p_lkey c)) (PStr (p_ljoin c)).
Definition r_proj (c : pcase) : pyval :=
  get_attrs_to_project (r_out c) (PStr (p_rkey c)) (PStr (p_rjoin c)).

(* ---- one output row, as set_sim_join / _filter_tables_split /
        get_pairs_with_missing_value build it (without the score) ---- *)
Definition build_row (l_columns r_columns l_key r_key l_outa r_outa l_row r_row : pyval) : pyval :=
  let l_key_attr_index := py_index l_columns l_key in
  let l_out_attrs_indices := find_output_attribute_indices l_columns l_outa in
  let r_key_attr_index := py_index r_columns r_key in
  let r_out_attrs_indices := find_output_attribute_indices r_columns r_outa in
  let has_output_attributes := py_or (py_is_not_none l_outa) (py_is_not_none r_outa) in
  bindx has_output_attributes (fun e => e) (fun h =>
    if py_truth h then
      get_output_row_from_tables l_row r_row l_key_attr_index r_key_attr_index
                                 l_out_attrs_indices r_out_attrs_indices
    else
      bindx (py_getitem l_row l_key_attr_index) (fun e => e) (fun a =>
      bindx (py_getitem r_row r_key_attr_index) (fun e => e) (fun b => PList [a; b]))).

(* header: generated header, + "_sim_score" if requested, "_id" inserted in front *)
Definition out_header_py (c : pcase) : pyval :=
  let h := get_output_header_from_tables (PStr (p_lkey c)) (PStr (p_rkey c))
             (l_out c) (r_out c) (PStr (p_lpre c)) (PStr (p_rpre c)) in
  let h := if p_score c then py_append h (PStr "_sim_score") else h in
  py_insert0 h (PStr "_id").
Definition out_header (c : pcase) : option (list string) := strs_of (out_header_py c).

(* cells of a row produced by the main path (projected arrays).  lrow/rrow are the FULL source
   rows, cells in table column order. *)
Definition out_cells (c : pcase) (lrow rrow : list pyval) : option (list pyval) :=
  match strs_of (l_proj c), strs_of (r_proj c) with
  | Some lp, Some rp =>
      match project_row (p_lcols c) lrow lp, project_row (p_rcols c) rrow rp with
      | Some lr, Some rr =>
          list_of (build_row (l_proj c) (r_proj c) (PStr (p_lkey c)) (PStr (p_rkey c))
                             (l_out c) (r_out c) (PList lr) (PList rr))
      | _, _ => None
      end
  | _, _ => None
  end.

(* cells of a row produced by get_pairs_with_missing_value (full tables, itertuples rows) *)
Definition out_cells_mv (c : pcase) (lrow rrow : list pyval) : option (list pyval) :=
  list_of (build_row (py_strs (p_lcols c)) (py_strs (p_rcols c))
                     (PStr (p_lkey c)) (PStr (p_rkey c))
                     (l_out c) (r_out c) (PTuple lrow) (PTuple rrow)).

(* the lists a harness may want to look at *)
Definition out_attrs_l (c : pcase) : option (list string) :=
  match l_out c with PNone => Some [] | v => strs_of v end.
Definition out_attrs_r (c : pcase) : option (list string) :=
  match r_out c with PNone => Some [] | v => strs_of v end.
Definition proj_attrs_l (c : pcase) : option (list string) := strs_of (l_proj c).
Definition proj_attrs_r (c : pcase) : option (list string) := strs_of (r_proj c).
