(* C06 -- filter_candset is row-wise filter_pair; OverlapFilter is exact. *)
From Coq Require Import ZArith Bool List String.
From SSJ Require Import F64 PyNum HelperGen Filters Joins Api Matcher MatcherFacts OverlapFacts.
Import ListNotations.
Open Scope string_scope.
Open Scope Z_scope.

(* filter_candset (filter_pair ARBITRARY): the positions of the rows whose pair is not dropped,
   in order *)
Theorem C06_candset_rows :
  forall (dropped : Z -> Z -> bool) (cand : list (nat * Z * Z)),
  candset_split dropped cand =
  map (fun c : nat * Z * Z => fst (fst c))
      (filter (fun c : nat * Z * Z => negb (dropped (snd (fst c)) (snd c))) cand).
Proof. exact candset_rows. Qed.
Print Assumptions C06_candset_rows.

(* OverlapFilter.filter_pair keeps a pair iff both strings are non-empty and the overlap
   satisfies comp_op against overlap_size *)
Theorem C06_overlap_pair :
  forall op T le re l r, valid_op op ->
  (overlap_filter_pair op (PInt T) le re l r = false <->
   le = false /\ re = false /\ cmp_op op (PInt (overlap_sets l r)) (PInt T) = true).
Proof. exact overlap_filter_pair_exact. Qed.
Print Assumptions C06_overlap_pair.

(* OverlapFilter.filter_tables (set tokenizer) lists exactly those pairs, score = overlap, once *)
Theorem C06_overlap_tables :
  forall op T L R res,
  rows_nodup L -> rows_nodup R -> lower_op op -> 1 <= T ->
  overlap_tables_core op (PInt T) L R = Some res ->
  forall c j s, In (c, j, s) res <->
    exists x y, nth_error L c = Some x /\ nth_error R j = Some y /\
      cmp_op op (PInt (overlap_sets x y)) (PInt T) = true /\ s = PInt (overlap_sets x y).
Proof. exact overlap_join_exact. Qed.
Print Assumptions C06_overlap_tables.

Theorem C06_overlap_tables_once :
  forall op size L R res, overlap_tables_core op size L R = Some res -> NoDup (map tkey res).
Proof. exact overlap_tables_core_once. Qed.
Print Assumptions C06_overlap_tables_once.

(* a bag tokenizer would count repeated tokens: NoDup is necessary *)
Example C06_bag_counts_repeats : overlap_count [3; 3] [3; 3] = 4 /\ overlap_sets [3; 3] [3; 3] = 1.
Proof. vm_compute. split; reflexivity. Qed.

(* API level: OverlapFilter.filter_tables succeeds and lists EXACTLY the pairs of present values
   whose overlap satisfies the operator (any n_jobs, any other rows) *)
From SSJ Require Import JoinSpec MetaSpec ApiFilterBase ApiFilterOverlap ApiFilterClosed.
Theorem C06_api_overlap_filter_tables :
  forall c, valid_ovf_case c ->
  (exists out, api_join c = Some out) /\
  forall out, api_join c = Some out -> all_specs c out /\
    forall l r, In l (j_L c) -> In r (j_R c) -> present l = true -> present r = true ->
      has_pair (fst l) (fst r) out = cmp_op (j_op c) (PInt (overlap_sets (toks_of l) (toks_of r))) (j_t c).
Proof. exact C06_overlap_filter_tables. Qed.
Print Assumptions C06_api_overlap_filter_tables.

(* tie to the source: index/inverted_index.py (build) and OverlapFilter.find_candidates, as
   REGENERATED on this run, count for every indexed row exactly the model's overlap_count *)
From SSJ Require Import IndexGen IndexPyFacts IndexProbeFacts IndexInverted.
Theorem inverted_index_code_refines_model :
  forall (attr : pyval) (tokenize : pyval -> pyval) (rows : list pyval) (L : list (list Z))
         (flag ce : bool) (Y : list Z),
  Forall2 (irow_ok attr tokenize) rows L ->
  exists (index size_cache ret : pyval) (d : list (Z * Z)),
    inverted_index_build (PList rows) attr (PBool flag) (PBool ce) tokenize = PTuple [index; size_cache; ret] /\
    overlap_filter_find_candidates (pints Y) index = PDict (drepr PInt d) /\
    forall c : nat, (c < List.length L)%nat -> cval d (Z.of_nat c) = overlap_count (nth c L []) Y.
Proof. exact overlap_find_candidates_refines. Qed.
Print Assumptions inverted_index_code_refines_model.

From SSJ Require Import MatcherChunks.
Theorem C06_candset_njobs :
  forall dropped njobs cpus cand, Z.of_nat (List.length cand) < 2^31 ->
  filter_candset_model dropped njobs cpus cand = Some (candset_split dropped cand).
Proof. exact filter_candset_njobs_b. Qed.
Print Assumptions C06_candset_njobs.

(* tie of the pair-level path to the source: filter_pair of SizeFilter / PrefixFilter /
   PositionFilter / OverlapFilter, as REGENERATED on this run (Gen/FilterPairGen.v: missing-value
   test, tokenization, pair-level token ordering, prefix lengths, position loop, allow_empty /
   allow_missing handling, comp_op lookup), returns exactly the verdict of the hand model
   (Spec/FilterSpec.v model_filter_pair) -- no state may be kept on the filter object *)
From SSJ Require Import FilterPairGen FilterPairRefineBase FilterPairRefine FilterPairRefinePos FilterPairRefineSpec FilterPairRefineArith.
Theorem generated_filter_pair_refines_model :
  ltac:(let t := type of filter_pair_gen_refines_model in exact t).
Proof. exact filter_pair_gen_refines_model. Qed.
Check generated_filter_pair_refines_model.
Print Assumptions generated_filter_pair_refines_model.
Theorem generated_position_filter_pair_jcd :
  ltac:(let t := type of position_filter_pair_gen_jcd in exact t).
Proof. exact position_filter_pair_gen_jcd. Qed.
Print Assumptions generated_position_filter_pair_jcd.

(* ---- tie: the per-chunk functions generated from the source (Gen/JoinGen.v, regenerated every
   run) produce, up to a permutation, exactly the rows of the pairwise model + projection *)
From SSJ Require Import JoinGen SplitRefineBase SplitRefineOverlapFilter SplitRefineOvc SplitRefineFilterBase SplitRefineFilterSize SplitRefineFilterPrefix SplitRefineFilterPosition SplitRefineFilters SplitRefineEd SplitRefineProj SplitRefineProjAll SplitRefineOvcArith.
Theorem generated_overlap_filter_split_refines_model :
  ltac:(let t := type of overlap_filter_tables_split_rows_refines_proj in exact t).
Proof. exact overlap_filter_tables_split_rows_refines_proj. Qed.
Print Assumptions generated_overlap_filter_split_refines_model.

(* ---- tie: the remaining public wrappers as REGENERATED from the source on this run (Gen/WrapperGen.v,
   Gen/FilterWrapperGen.v over Model/Frame.v): overlap_coefficient_join_py, edit_distance_join_py,
   overlap_join_py and the filters' filter_tables compute header_spec + the rows of api_join (entry
   EJoin / EFilter / EOverlapFilter) through the declared projection, per chunk up to order *)
From SSJ Require Import Frame WrapperGen FilterWrapperGen WrapperBody WrapperApiLink WrapperEnd WrapperRefineOvc WrapperRefineEd FilterWrapperRefineOverlap FilterWrapperRefine FilterWrapperRefineClosed.

(* ---- tie: matcher/apply_matcher.py and Filter.filter_candset as REGENERATED from the source on this run
   (Gen/MatcherGen.v over Model/Frame.v) compute exactly apply_matcher_model / filter_candset_model
   (Model/Matcher.v) through the declared projection: key->row dictionaries, token cache, empty-candset
   shortcut, split_table on frames, per-chunk loop, concat *)
From SSJ Require Import Frame MatcherGen MatcherRefineBase MatcherRefineLoop MatcherRefineCandLoop MatcherRefineSplit MatcherRefinePar MatcherRefineChunks MatcherRefine MatcherRefineBridge MatcherRefineEnd MatcherRefineEndCand.
Theorem generated_overlap_filter_tables_wrapper :
  ltac:(let t := type of overlap_filter_tables_rows_end_to_end_flat in exact t).
Proof. exact overlap_filter_tables_rows_end_to_end_flat. Qed.
Print Assumptions generated_overlap_filter_tables_wrapper.
Theorem generated_filter_candset_refines_model :
  ltac:(let t := type of filter_candset_rows_end_to_end in exact t).
Proof. exact filter_candset_rows_end_to_end. Qed.
Print Assumptions generated_filter_candset_refines_model.

(* ==== the property stated DIRECTLY ABOUT THE CODE: the function regenerated from the Python source on this
   run (Gen/WrapperGen.v, Gen/FilterWrapperGen.v, Gen/MatcherGen.v), applied to any well-formed frames,
   returns a frame with header header_spec whose rows, read at key level (kview: left key, right key,
   score), satisfy complete_spec /\ sound_spec /\ missing_spec /\ empty_spec (Spec/JoinSpec.v, MetaSpec.v)
   -- composition of `generated code refines api_join` with `api_join satisfies the specs` *)
From SSJ Require Import CodeLevelBase CodeLevelJoins CodeLevelJoins2 CodeLevelFilters CodeLevelMatcher CodeLevelTight.
Theorem C06_code_overlap_filter :
  ltac:(let t := type of C06_code_overlap_filter_tables in exact t).
Proof. exact C06_code_overlap_filter_tables. Qed.
Print Assumptions C06_code_overlap_filter.

(* ==== the RELATIONAL property stated directly about the code: two (or three) calls of the functions
   regenerated from the Python source on this run, related through the key-level views of the frames they
   return (code_view); obtained by transferring the laws proved from the single-call specs (Laws*.v) along
   `generated code refines api_join` *)
From SSJ Require Import CodeLevelBase CodeLevelJoins CodeLevelJoins2 CodeLevelFilters CodeLevelMatcher CodeLevelTight CodeLevelRelBase CodeLevelRelCalls CodeLevelRel CodeLevelRel2 CodeLevelRel3 CodeLevelRel4 CodeLevelRel5 CodeLevelRel6.
Theorem C06_code_candset :
  ltac:(let t := type of C06_code_filter_candset in exact t).
Proof. exact C06_code_filter_candset. Qed.
Print Assumptions C06_code_candset.
Theorem C06_code_candset_drop :
  ltac:(let t := type of C06_code_drop in exact t).
Proof. exact C06_code_drop. Qed.
Print Assumptions C06_code_candset_drop.
