(* C04 -- filters never dismiss a pair that satisfies the threshold. *)
From Coq Require Import ZArith Bool List String.
From SSJ Require Import F64 PyNum FilterUtilsGen TokenOrdering Measures Filters Suffix Lev Qgram Joins Api
     JoinSpec FilterSpec SetBridge FilterPairJCD OverlapFacts OverlapMeasure EditArith EditFilters.
Import ListNotations.
Open Scope string_scope.
Open Scope Z_scope.

(* JACCARD / COSINE / DICE, filter_pair of Size / Prefix / Position (pair-level token order) *)
Theorem C04_filter_pair_jcd :
  forall (c : fpcase) (t : f64) (ls lt rs rt : list Z),
  fp_which c = FSize \/ fp_which c = FPrefix \/ fp_which c = FPosition ->
  is_jcd (fm (fp_p c)) = true -> ft (fp_p c) = PFloat t -> env_t t = true ->
  fp_l c = Some (ls, lt) -> fp_r c = Some (rs, rt) ->
  NoDup lt -> NoDup rt -> len lt < size_bound -> len rt < size_bound ->
  fp_qualifies c = true -> model_filter_pair c = Some false.
Proof. exact filter_pair_safe_jcd. Qed.
Print Assumptions C04_filter_pair_jcd.

(* ... and the candidate tests used by filter_tables, for ANY table-level order `all` *)
Theorem C04_filter_tables_jcd :
  forall m t q k all x y,
  is_jcd m = true -> env_t t = true -> k = KSize \/ k = KPrefix \/ k = KPosition ->
  NoDup x -> NoDup y -> (forall w, In w x -> In w all) -> (forall w, In w y -> In w all) ->
  len x < size_bound -> len y < size_bound -> ~ (x = [] /\ y = []) ->
  qualifies m ">=" (PFloat t) x y = true ->
  let p := {| fm := m; ft := PFloat t; fq := q |} in
  filter_cand k p (order all x) (order all y) = Some true /\
  size_cand p (len (order all x)) (len (order all y)) = true /\
  prefix_cand p (order all x) (order all y) = Some true /\
  exists v, pos_cand p (order all x) (order all y) = Some v /\ 0 < v.
Proof. exact filter_cand_safe_jcd. Qed.
Print Assumptions C04_filter_tables_jcd.

(* OVERLAP measure (integer threshold) *)
Theorem C04_overlap_measure_pair :
  forall l r T q ae, NoDup l -> NoDup r -> 1 <= T -> T <= overlap_sets l r -> len r <= maxsizeZ ->
  size_filter_pair (ovp T q) ae (len l) (len r) = false /\
  prefix_filter_pair (ovp T q) ae l r = Some false /\
  position_filter_pair (ovp T q) ae l r = Some false.
Proof.
  intros l r T q ae Hl Hr HT Ho Hm. split; [|split].
  - apply ov_size_filter_pair; assumption.
  - apply ov_prefix_filter_pair; assumption.
  - apply ov_position_filter_pair; assumption.
Qed.
Print Assumptions C04_overlap_measure_pair.

(* OverlapFilter *)
Theorem C04_overlap_filter :
  forall op T le re l r, valid_op op ->
  (overlap_filter_pair op (PInt T) le re l r = false <->
   le = false /\ re = false /\ cmp_op op (PInt (overlap_sets l r)) (PInt T) = true).
Proof. exact overlap_filter_pair_exact. Qed.
Print Assumptions C04_overlap_filter.

(* EDIT_DISTANCE: strings within the threshold whose q-gram bags share a q-gram survive
   SizeFilter, PrefixFilter and PositionFilter (bags, any q, padded or not) *)
Theorem C04_edit_distance :
  forall tk tau ae s t, 0 <= tau -> 1 <= qq tk -> lev s t <= tau ->
  share (qgram_bag tk s) (qgram_bag tk t) = true ->
  size_filter_pair (edp (qq tk) tau) ae (len (qgram_bag tk s)) (len (qgram_bag tk t)) = false /\
  prefix_filter_pair (edp (qq tk) tau) ae (qgram_bag tk s) (qgram_bag tk t) = Some false /\
  position_filter_pair (edp (qq tk) tau) ae (qgram_bag tk s) (qgram_bag tk t) = Some false.
Proof. exact EditFilters.C04_edit_distance. Qed.
Print Assumptions C04_edit_distance.

(* SuffixFilter: the full-strength statement is FALSE of the faithful model (known finding):
   Jaccard 4/7 = 0.571 >= 0.5, dropped *)
Definition suffix_witness : fpcase :=
  {| fp_which := FSuffix; fp_p := {| fm := "JACCARD"; ft := PFloat (mkF 1 (-1)); fq := 0 |};
     fp_op := ">="; fp_allow_empty := true; fp_allow_missing := false;
     fp_l := Some ([], [2; 3; 4; 5]); fp_r := Some ([], [1; 2; 3; 4; 5; 6; 7]) |}.
Theorem C04_suffix_refuted :
  exists c, fp_which c = FSuffix /\ fp_qualifies c = true /\ model_filter_pair c = Some true.
Proof. exists suffix_witness. vm_compute. repeat split. Qed.
Print Assumptions C04_suffix_refuted.

(* API level: filter_tables of Size / Prefix / Position (J/C/D with any double threshold in the
   envelope, OVERLAP with an integer threshold), any other rows, any n_jobs: the call succeeds and
   lists every pair meeting the threshold (complete_spec), plus sound / missing / empty specs *)
From SSJ Require Import MetaSpec ApiFilterBase ApiFilterTables ApiFilterJCD ApiFilterEdit ApiFilterClosed.
Theorem C04_api_filter_tables :
  forall c k m, valid_filter_case c k m ->
  (exists out, api_join c = Some out) /\ forall out, api_join c = Some out -> all_specs c out.
Proof. exact C04_filter_tables. Qed.
Print Assumptions C04_api_filter_tables.

(* ... and under EDIT_DISTANCE, all three filters incl. PositionFilter on bags with repeats *)
Theorem C04_api_filter_tables_edit_distance :
  forall tk f c k tau, (forall a b, f a = f b -> a = b) -> j_q c = qq tk ->
  valid_edf_case c k tau -> qgram_rows tk f c -> forall out, api_join c = Some out -> all_specs c out.
Proof. exact C04_filter_tables_edit_qgram. Qed.
Print Assumptions C04_api_filter_tables_edit_distance.

(* tie of the token order to the source: utils/token_ordering.py, as REGENERATED on this run,
   computes exactly the ranks of Model/TokenOrdering.v that the theorems above are about *)
From SSJ Require Import TokenOrderingGen OrderingGenFacts.
Theorem token_order_of_source_is_model :
  forall tables attr_list smt tokenize tk toks,
  tokenizes tables attr_list tokenize tk ->
  order_using_token_ordering (PList (map PInt toks))
    (gen_token_ordering_for_tables (PList (map PList tables)) attr_list smt tokenize)
  = PList (map PInt (order (tab_tokens tk 0 tables) toks)).
Proof. exact order_using_gen_tables. Qed.
Theorem pair_token_order_of_source_is_model :
  forall lists toks,
  order_using_token_ordering (PList (map PInt toks))
    (gen_token_ordering_for_lists (PList (map (fun l => PList (map PInt l)) lists)))
  = PList (map PInt (order (List.concat lists) toks)).
Proof. exact order_using_gen_lists. Qed.

(* tie of candidate generation to the source: index/position_index.py (build) and
   filter/position_filter.py (find_candidates), as REGENERATED on this run (Gen/IndexGen.v), compute
   for EVERY indexed row c and probe Y exactly the pairwise model's verdict pos_cand -- the
   inverted index over all rows, the eager overlap-threshold cache, the clamping of the size
   window to [min_length, max_length] and the early exit on an empty index are all immaterial *)
From SSJ Require Import IndexGen IndexPyFacts IndexBuildFacts IndexProbeFacts IndexRefine.
Theorem position_index_code_refines_model :
  forall (p : fparams) (attr ordering : pyval) (tokenize : pyval -> pyval) (rows : list pyval)
         (ordered : list (list Z)) (ce ct : bool),
  Forall2 (row_ok attr ordering tokenize) rows ordered ->
  (forall x, In x ordered -> exists kx, g_pl p (len x) = PInt kx) ->
  forall (Y : list Z) (lb ub k : Z),
  g_lb p (len Y) = PInt lb -> g_ub p (len Y) = PInt ub -> g_pl p (len Y) = PInt k ->
  (forall s, 0 <= s -> lb <= s <= ub -> num_of (g_ot p s (len Y)) <> None) ->
  exists (index size_cache : pyval) (mn mx : Z) (ret cands : pyval),
    position_index_build (PList rows) attr (PStr (fm p)) (ft p) ordering (PBool ce) (PBool ct)
                         (PInt (fq p)) tokenize
    = PTuple [index; size_cache; PInt mn; PInt mx; ret] /\
    position_filter_find_candidates (PStr (fm p)) (ft p) (pints Y) index size_cache (PInt mn) (PInt mx)
                                    (PInt (fq p)) = cands /\
    forall c : nat, (c < List.length ordered)%nat ->
      (0 < dict_val cands (Z.of_nat c) <-> exists v, pos_cand p (nth c ordered []) Y = Some v /\ 0 < v).
Proof. exact position_candidate_positive. Qed.
Print Assumptions position_index_code_refines_model.
From SSJ Require Import IndexPrefix IndexSize.
Theorem prefix_index_code_refines_model :
  forall (p : fparams) (attr ordering : pyval) (tokenize : pyval -> pyval) (rows : list pyval)
         (ordered : list (list Z)) (ce : bool) (Y : list Z) (k : Z),
  Forall2 (row_ok attr ordering tokenize) rows ordered ->
  (forall x, In x ordered -> exists kx, g_pl p (len x) = PInt kx) ->
  g_pl p (len Y) = PInt k ->
  exists (index ret : pyval) (d : sset),
    prefix_index_build (PList rows) attr (PStr (fm p)) (ft p) ordering (PBool ce) (PInt (fq p)) tokenize
    = PTuple [index; ret] /\
    prefix_filter_find_candidates (PStr (fm p)) (ft p) (pints Y) index (PInt (fq p)) = srepr d /\
    NoDup (map fst d) /\
    forall c : nat, (c < List.length ordered)%nat -> prefix_cand p (nth c ordered []) Y = Some (smem d (Z.of_nat c)).
Proof. exact prefix_find_candidates_refines. Qed.
Theorem size_index_code_refines_model :
  forall (p : fparams) (attr : pyval) (tokenize : pyval -> pyval) (rows : list pyval)
         (ns : list Z) (ce : bool) (ny lb ub : Z),
  Forall2 (zrow_ok attr tokenize) rows ns -> (forall n, In n ns -> 0 <= n) ->
  g_lb p ny = PInt lb -> g_ub p ny = PInt ub ->
  exists (index : pyval) (mn mx : Z) (ret : pyval) (d : sset),
    size_index_build (PList rows) attr (PBool ce) tokenize = PTuple [index; PInt mn; PInt mx; ret] /\
    size_filter_find_candidates (PStr (fm p)) (ft p) (PInt ny) index (PInt mn) (PInt mx) = srepr d /\
    forall c : nat, (c < List.length ns)%nat -> smem d (Z.of_nat c) = size_cand p (nth c ns 0) ny.
Proof. exact size_find_candidates_refines. Qed.
Print Assumptions size_index_code_refines_model.

(* tie of the pair-level path to the source: filter_pair of SizeFilter / PrefixFilter /
   PositionFilter / OverlapFilter, as REGENERATED on this run (Gen/FilterPairGen.v: missing-value
   test, tokenization, pair-level token ordering, prefix lengths, position loop, allow_empty /
   allow_missing handling, comp_op lookup), returns exactly the verdict of the hand model
   (Spec/FilterSpec.v model_filter_pair) -- no state may be kept on the filter object *)
From SSJ Require Import FilterPairGen FilterPairRefineBase FilterPairRefine FilterPairRefinePos FilterPairRefineSpec FilterPairRefineArith.
Theorem generated_filter_pair_refines_model :
  ltac:(let t := type of filter_pair_gen_refines_model in exact t).
Proof. exact filter_pair_gen_refines_model. Qed.
Check generated_filter_pair_refines_model.
Print Assumptions generated_filter_pair_refines_model.
Theorem generated_position_filter_pair_jcd :
  ltac:(let t := type of position_filter_pair_gen_jcd in exact t).
Proof. exact position_filter_pair_gen_jcd. Qed.
Print Assumptions generated_position_filter_pair_jcd.

(* ---- tie: the per-chunk functions generated from the source (Gen/JoinGen.v, regenerated every
   run) produce, up to a permutation, exactly the rows of the pairwise model + projection *)
From SSJ Require Import JoinGen SplitRefineBase SplitRefineOverlapFilter SplitRefineOvc SplitRefineFilterBase SplitRefineFilterSize SplitRefineFilterPrefix SplitRefineFilterPosition SplitRefineFilters SplitRefineEd SplitRefineProj SplitRefineProjAll SplitRefineOvcArith.
Theorem generated_size_filter_split_refines_model :
  ltac:(let t := type of size_filter_tables_split_rows_refines_proj in exact t).
Proof. exact size_filter_tables_split_rows_refines_proj. Qed.
Print Assumptions generated_size_filter_split_refines_model.
Theorem generated_prefix_filter_split_refines_model :
  ltac:(let t := type of prefix_filter_tables_split_rows_refines_proj in exact t).
Proof. exact prefix_filter_tables_split_rows_refines_proj. Qed.
Print Assumptions generated_prefix_filter_split_refines_model.
Theorem generated_position_filter_split_refines_model :
  ltac:(let t := type of position_filter_tables_split_rows_refines_proj in exact t).
Proof. exact position_filter_tables_split_rows_refines_proj. Qed.
Print Assumptions generated_position_filter_split_refines_model.

(* ---- tie: the remaining public wrappers as REGENERATED from the source on this run (Gen/WrapperGen.v,
   Gen/FilterWrapperGen.v over Model/Frame.v): overlap_coefficient_join_py, edit_distance_join_py,
   overlap_join_py and the filters' filter_tables compute header_spec + the rows of api_join (entry
   EJoin / EFilter / EOverlapFilter) through the declared projection, per chunk up to order *)
From SSJ Require Import Frame WrapperGen FilterWrapperGen WrapperBody WrapperApiLink WrapperEnd WrapperRefineOvc WrapperRefineEd FilterWrapperRefineOverlap FilterWrapperRefine FilterWrapperRefineClosed.
Theorem generated_filter_tables_wrappers_jcd :
  ltac:(let t := type of filter_tables_rows_end_to_end_jcd in exact t).
Proof. exact filter_tables_rows_end_to_end_jcd. Qed.
Print Assumptions generated_filter_tables_wrappers_jcd.
Theorem generated_filter_tables_wrappers_overlap :
  ltac:(let t := type of filter_tables_rows_end_to_end_overlap in exact t).
Proof. exact filter_tables_rows_end_to_end_overlap. Qed.
Print Assumptions generated_filter_tables_wrappers_overlap.
Theorem generated_filter_tables_wrappers_ed :
  ltac:(let t := type of filter_tables_rows_end_to_end_ed in exact t).
Proof. exact filter_tables_rows_end_to_end_ed. Qed.
Print Assumptions generated_filter_tables_wrappers_ed.

(* ==== the property stated DIRECTLY ABOUT THE CODE: the function regenerated from the Python source on this
   run (Gen/WrapperGen.v, Gen/FilterWrapperGen.v, Gen/MatcherGen.v), applied to any well-formed frames,
   returns a frame with header header_spec whose rows, read at key level (kview: left key, right key,
   score), satisfy complete_spec /\ sound_spec /\ missing_spec /\ empty_spec (Spec/JoinSpec.v, MetaSpec.v)
   -- composition of `generated code refines api_join` with `api_join satisfies the specs` *)
From SSJ Require Import CodeLevelBase CodeLevelJoins CodeLevelJoins2 CodeLevelFilters CodeLevelMatcher CodeLevelTight.
Theorem C04_code_filter_tables_JCD :
  ltac:(let t := type of C04_code_filter_tables_jcd in exact t).
Proof. exact C04_code_filter_tables_jcd. Qed.
Print Assumptions C04_code_filter_tables_JCD.
Theorem C04_code_filter_tables_OVERLAP :
  ltac:(let t := type of C04_code_filter_tables_overlap in exact t).
Proof. exact C04_code_filter_tables_overlap. Qed.
Print Assumptions C04_code_filter_tables_OVERLAP.
Theorem C04_code_filter_tables_ED :
  ltac:(let t := type of C04_code_filter_tables_edit_distance in exact t).
Proof. exact C04_code_filter_tables_edit_distance. Qed.
Print Assumptions C04_code_filter_tables_ED.


(* ---- float thresholds of the integer-valued measures (source repair in filter_utils.py: the four
   formulas read the threshold through int(floor(.)) under EDIT_DISTANCE and int(ceil(.)) under
   OVERLAP).  `le_thr d f` / `ge_thr o f` / `thr_nonneg f` / `thr_pos f` are Python's own exact
   comparisons  d <= f,  o >= f,  not (f < 0),  not (f <= 0)  on the double f. *)
From SSJ Require Import ThresholdNorm ThresholdNormFloat ThresholdNormGen ThresholdNormApi.
(* the regenerated formulas with a finite float threshold are the formulas at floor f / ceil f *)
Theorem formulas_normalise_edit_distance_float :
  forall q f, f_is_finite f = true -> fp_agree (edpf q f) (edp q (f_floor f)).
Proof. exact fp_agree_ed_float. Qed.
Theorem formulas_normalise_overlap_float :
  forall f q, f_is_finite f = true -> fp_agree (ovpf f q) (ovp (f_ceil f) q).
Proof. exact fp_agree_ov_float. Qed.
Print Assumptions formulas_normalise_edit_distance_float.
Print Assumptions formulas_normalise_overlap_float.

Theorem C04_edit_distance_float :
  forall tk f ae s t, f_is_finite f = true -> 1 <= qq tk -> le_thr (lev s t) f ->
  share (qgram_bag tk s) (qgram_bag tk t) = true ->
  size_filter_pair (edpf (qq tk) f) ae (len (qgram_bag tk s)) (len (qgram_bag tk t)) = false /\
  prefix_filter_pair (edpf (qq tk) f) ae (qgram_bag tk s) (qgram_bag tk t) = Some false /\
  position_filter_pair (edpf (qq tk) f) ae (qgram_bag tk s) (qgram_bag tk t) = Some false.
Proof. exact ThresholdNormFloat.C04_edit_distance_float. Qed.
Print Assumptions C04_edit_distance_float.

Theorem C04_overlap_measure_pair_float :
  forall l r f q ae, f_is_finite f = true -> NoDup l -> NoDup r -> thr_pos f ->
  ge_thr (overlap_sets l r) f -> len r <= maxsizeZ ->
  size_filter_pair (ovpf f q) ae (len l) (len r) = false /\
  prefix_filter_pair (ovpf f q) ae l r = Some false /\
  position_filter_pair (ovpf f q) ae l r = Some false.
Proof. exact ThresholdNormFloat.C04_overlap_measure_pair_float. Qed.
Print Assumptions C04_overlap_measure_pair_float.

(* on the statement the harness evaluates (fp_qualifies / model_filter_pair) *)
Theorem C04_filter_pair_overlap_float :
  ltac:(let t := type of filter_pair_safe_overlap_float in exact t).
Proof. exact filter_pair_safe_overlap_float. Qed.
Theorem C04_filter_pair_edit_distance_float :
  ltac:(let t := type of filter_pair_safe_edit_distance_float in exact t).
Proof. exact filter_pair_safe_edit_distance_float. Qed.
Print Assumptions C04_filter_pair_overlap_float.
Print Assumptions C04_filter_pair_edit_distance_float.

(* on the GENERATED filter_pair code: the call with the float threshold returns a bool (no
   TypeError), the one the call with floor f / ceil f returns, and qualifying pairs are kept *)
Theorem generated_filter_pair_overlap_float_safe :
  ltac:(let t := type of filter_pair_gen_overlap_float_safe in exact t).
Proof. exact filter_pair_gen_overlap_float_safe. Qed.
Theorem generated_filter_pair_edit_distance_float_safe :
  ltac:(let t := type of filter_pair_gen_ed_float_safe in exact t).
Proof. exact filter_pair_gen_ed_float_safe. Qed.
Theorem generated_position_filter_pair_float_is_int_call_ed :
  ltac:(let t := type of position_filter_pair_gen_ed_float_int in exact t).
Proof. exact position_filter_pair_gen_ed_float_int. Qed.
Theorem generated_position_filter_pair_float_is_int_call_overlap :
  ltac:(let t := type of position_filter_pair_gen_overlap_float_int in exact t).
Proof. exact position_filter_pair_gen_overlap_float_int. Qed.
Print Assumptions generated_filter_pair_overlap_float_safe.
Print Assumptions generated_filter_pair_edit_distance_float_safe.

(* API level: filter_tables with a float threshold = the call with ceil f / floor f; all specs *)
Theorem C04_api_filter_tables_overlap_float :
  ltac:(let t := type of C04_filter_tables_overlap_float in exact t).
Proof. exact C04_filter_tables_overlap_float. Qed.
Theorem C04_api_filter_tables_edit_distance_float :
  ltac:(let t := type of C04_filter_tables_edit_qgram_float in exact t).
Proof. exact C04_filter_tables_edit_qgram_float. Qed.
Print Assumptions C04_api_filter_tables_overlap_float.
Print Assumptions C04_api_filter_tables_edit_distance_float.
