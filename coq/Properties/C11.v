(* C11 -- output tables have the documented columns and faithfully project source rows.
   The projection pipeline is composed (Model/Projection.v) from the helper functions GENERATED
   from utils/generic_helper.py exactly as the wrappers compose them.                        *)
From Coq Require Import ZArith Bool List String.
From SSJ Require Import F64 PyNum HelperGen Projection ProjSpec ProjectionFacts.
Import ListNotations.
Open Scope string_scope.

(* columns: _id, prefixed keys, requested attributes with the key and repeats removed (order
   kept, prefixed), _sim_score iff requested -- for None, [], and any list of attributes *)
Theorem C11_header : forall c, well_formed c -> out_header c = Some (header_spec c).
Proof. exact out_header_correct. Qed.
Print Assumptions C11_header.

(* every projected value is the value of that attribute in the source row (main path: rows
   taken from the projected arrays through positional indices) *)
Theorem C11_cells :
  forall c lrow rrow, well_formed c ->
  List.length lrow = List.length (p_lcols c) -> List.length rrow = List.length (p_rcols c) ->
  row_ok lrow -> row_ok rrow ->
  out_cells c lrow rrow = cells_spec c lrow rrow /\ exists cells, cells_spec c lrow rrow = Some cells.
Proof. exact out_cells_correct. Qed.
Print Assumptions C11_cells.

(* same for the rows produced by the missing-value branch *)
Theorem C11_cells_missing_branch :
  forall c lrow rrow, well_formed c ->
  List.length lrow = List.length (p_lcols c) -> List.length rrow = List.length (p_rcols c) ->
  row_ok lrow -> row_ok rrow ->
  out_cells_mv c lrow rrow = cells_spec c lrow rrow.
Proof. exact out_cells_mv_correct. Qed.
Print Assumptions C11_cells_missing_branch.

Theorem C11_header_check_is_equality : forall c obs, header_ok c obs = true <-> obs = header_spec c.
Proof. exact header_ok_iff. Qed.
Print Assumptions C11_header_check_is_equality.

(* requesting the key, the join attribute and repeats *)
Example C11_nonvacuous :
  let c := {| p_lcols := ["x"; "id"; "s"; "y"]; p_rcols := ["k"; "t"; "u"];
              p_lkey := "id"; p_rkey := "k"; p_ljoin := "s"; p_rjoin := "t";
              p_lout := Some ["y"; "x"; "y"; "s"; "id"; "x"]; p_rout := Some ["u"; "t"; "k"; "u"];
              p_lpre := "l_"; p_rpre := "r_"; p_score := true |} in
  well_formedb c = true /\
  out_header c = Some ["_id"; "l_id"; "r_k"; "l_y"; "l_x"; "l_s"; "r_u"; "r_t"; "_sim_score"].
Proof. vm_compute. split; reflexivity. Qed.

(* tie of the per-chunk join loop to the source: join/set_sim_join.py, as REGENERATED on this run
   (Gen/JoinGen.v: attribute indices, token ordering, PositionIndex.build, PositionFilter.
   find_candidates, the allow_empty branch, verification round(sim,4) against comp_op, output rows,
   header), returns -- up to the order of rows -- exactly the triples of the hand model
   set_sim_join_core mapped through the declarative projection (Spec/ProjSpec.v), and the
   documented header.  The statement is that of JoinRefineProj.set_sim_join_rows_refines_proj
   (printed by the Check below); its hypotheses on the formulas are discharged for
   JACCARD/COSINE/DICE over all doubles in the envelope by IndexGlueArith (next theorems). *)
From SSJ Require Import F64 PyNum FilterUtilsGen Measures Filters JoinSpec JoinGen JoinGenFacts JoinGenLoop JoinRefine JoinRefineProj IndexGlue IndexGlueArith.
Theorem generated_join_loop_refines_model :
  ltac:(let t := type of set_sim_join_rows_refines_proj in exact t).
Proof. exact set_sim_join_rows_refines_proj. Qed.
Check generated_join_loop_refines_model.
Print Assumptions generated_join_loop_refines_model.
Theorem generated_candidates_end_to_end_jcd :
  ltac:(let t := type of position_candidates_jcd in exact t).
Proof. exact position_candidates_jcd. Qed.
Check generated_candidates_end_to_end_jcd.
Theorem generated_pair_verdict_end_to_end_jcd :
  ltac:(let t := type of ssj_pair_jcd in exact t).
Proof. exact ssj_pair_jcd. Qed.
Check generated_pair_verdict_end_to_end_jcd.
Print Assumptions generated_pair_verdict_end_to_end_jcd.
Theorem generated_formulas_total_jcd :
  forall m t q, is_jcd m = true -> env_t t = true ->
  formulas_ok {| fm := m; ft := PFloat t; fq := q |} size_bound.
Proof. exact formulas_ok_jcd. Qed.

(* ---- tie: the public wrappers jaccard_join_py / cosine_join_py / dice_join_py as REGENERATED from the
   source on this run (Gen/WrapperGen.v: DataFrames as values of Model/Frame.v, validators and the
   tokenizer flag handled by the shape checks of harness/translate/wrappers.py) compute -- through
   dropna / projection / split_table / the per-chunk loop / concat / missing-value pairs / _id --
   a frame whose header is header_spec and whose rows are, up to the order within a chunk, the rows
   of api_join with the declared projection *)
From SSJ Require Import Frame WrapperGen WrapperRefineFrame WrapperRefineChunks WrapperRefineMissing WrapperRefineCore WrapperRefine WrapperRefineClosed WrapperRefineApi WrapperRefineEnd.
Theorem generated_jaccard_wrapper_refines_model :
  ltac:(let t := type of jaccard_join_rows_end_to_end in exact t).
Proof. exact jaccard_join_rows_end_to_end. Qed.
Print Assumptions generated_jaccard_wrapper_refines_model.
Theorem generated_cosine_wrapper_refines_model :
  ltac:(let t := type of cosine_join_rows_end_to_end in exact t).
Proof. exact cosine_join_rows_end_to_end. Qed.
Print Assumptions generated_cosine_wrapper_refines_model.
Theorem generated_dice_wrapper_refines_model :
  ltac:(let t := type of dice_join_rows_end_to_end in exact t).
Proof. exact dice_join_rows_end_to_end. Qed.
Print Assumptions generated_dice_wrapper_refines_model.
Theorem generated_convert_dataframe_to_array_code :
  ltac:(let t := type of convert_dataframe_to_array_eq in exact t).
Proof. exact convert_dataframe_to_array_eq. Qed.
Print Assumptions generated_convert_dataframe_to_array_code.

(* ---- tie: the remaining public wrappers as REGENERATED from the source on this run (Gen/WrapperGen.v,
   Gen/FilterWrapperGen.v over Model/Frame.v): overlap_coefficient_join_py, edit_distance_join_py,
   overlap_join_py and the filters' filter_tables compute header_spec + the rows of api_join (entry
   EJoin / EFilter / EOverlapFilter) through the declared projection, per chunk up to order *)
From SSJ Require Import Frame WrapperGen FilterWrapperGen WrapperBody WrapperApiLink WrapperEnd WrapperRefineOvc WrapperRefineEd FilterWrapperRefineOverlap FilterWrapperRefine FilterWrapperRefineClosed.
Theorem generated_overlap_coefficient_wrapper_refines_model :
  ltac:(let t := type of overlap_coefficient_join_rows_end_to_end_flat in exact t).
Proof. exact overlap_coefficient_join_rows_end_to_end_flat. Qed.
Print Assumptions generated_overlap_coefficient_wrapper_refines_model.
Theorem generated_edit_distance_wrapper_refines_model :
  ltac:(let t := type of edit_distance_join_rows_end_to_end_flat in exact t).
Proof. exact edit_distance_join_rows_end_to_end_flat. Qed.
Print Assumptions generated_edit_distance_wrapper_refines_model.
Theorem generated_overlap_join_wrapper_refines_model :
  ltac:(let t := type of overlap_join_rows_end_to_end_flat in exact t).
Proof. exact overlap_join_rows_end_to_end_flat. Qed.
Print Assumptions generated_overlap_join_wrapper_refines_model.
Theorem generated_position_filter_tables_wrapper :
  ltac:(let t := type of position_filter_tables_rows_end_to_end_flat in exact t).
Proof. exact position_filter_tables_rows_end_to_end_flat. Qed.
Print Assumptions generated_position_filter_tables_wrapper.

(* ==== C11 stated DIRECTLY ABOUT THE CODE: the frame returned by the function regenerated from the Python
   source on this run has header header_spec (spelled out: _id, prefixed keys, the requested attributes
   with the key and repeats removed, _sim_score iff requested) and EVERY row of it reads, position by
   position, the cells of one left and one right source row (row_reads: keys at 1 and 2, every requested
   attribute at its header position, the score last) -- for normal rows, rows of the empty-set branch
   (ordinary rows of the per-chunk core) and missing-value rows (score NaN); with unique keys the source rows
   are THE rows identified by the row's keys *)
From SSJ Require Import CodeLevelCells CodeLevelCellsScores CodeLevelCellsFamilies.
Theorem C11_code_header_spelled_out :
  ltac:(let t := type of header_spec_spelled in exact t).
Proof. exact header_spec_spelled. Qed.
Print Assumptions C11_code_header_spelled_out.
Theorem C11_code_jaccard :
  ltac:(let t := type of C11_code_cells_jaccard in exact t).
Proof. exact C11_code_cells_jaccard. Qed.
Print Assumptions C11_code_jaccard.
Theorem C11_code_cosine :
  ltac:(let t := type of C11_code_cells_cosine in exact t).
Proof. exact C11_code_cells_cosine. Qed.
Print Assumptions C11_code_cosine.
Theorem C11_code_dice :
  ltac:(let t := type of C11_code_cells_dice in exact t).
Proof. exact C11_code_cells_dice. Qed.
Print Assumptions C11_code_dice.
Theorem C11_code_overlap_coefficient :
  ltac:(let t := type of C11_code_cells_overlap_coefficient in exact t).
Proof. exact C11_code_cells_overlap_coefficient. Qed.
Print Assumptions C11_code_overlap_coefficient.
Theorem C11_code_edit_distance :
  ltac:(let t := type of C11_code_cells_edit_distance in exact t).
Proof. exact C11_code_cells_edit_distance. Qed.
Print Assumptions C11_code_edit_distance.
Theorem C11_code_overlap_join :
  ltac:(let t := type of C11_code_cells_overlap_join in exact t).
Proof. exact C11_code_cells_overlap_join. Qed.
Print Assumptions C11_code_overlap_join.
Theorem C11_code_overlap_filter :
  ltac:(let t := type of C11_code_cells_overlap_filter in exact t).
Proof. exact C11_code_cells_overlap_filter. Qed.
Print Assumptions C11_code_overlap_filter.
Theorem C11_code_size_filter :
  ltac:(let t := type of C11_code_cells_size_filter in exact t).
Proof. exact C11_code_cells_size_filter. Qed.
Print Assumptions C11_code_size_filter.
Theorem C11_code_prefix_filter :
  ltac:(let t := type of C11_code_cells_prefix_filter in exact t).
Proof. exact C11_code_cells_prefix_filter. Qed.
Print Assumptions C11_code_prefix_filter.
Theorem C11_code_position_filter :
  ltac:(let t := type of C11_code_cells_position_filter in exact t).
Proof. exact C11_code_cells_position_filter. Qed.
Print Assumptions C11_code_position_filter.
Theorem C11_code_rows_read_source_cells :
  ltac:(let t := type of projects_reads in exact t).
Proof. exact projects_reads. Qed.
Print Assumptions C11_code_rows_read_source_cells.
Theorem C11_code_source_rows_unique :
  ltac:(let t := type of C11_frame_rows_unique in exact t).
Proof. exact C11_frame_rows_unique. Qed.
Print Assumptions C11_code_source_rows_unique.
