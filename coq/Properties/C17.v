(* C17 -- the profiler reports exact unique/missing counts and key suitability. *)
From Coq Require Import ZArith Bool List String Reals.
From SSJ Require Import F64 PyNum F64Spec Profiler ProfilerSpec ProfilerFacts ProfilerPercent.
Import ListNotations.
Open Scope Z_scope.

(* for ALL table sizes 1 <= n < 2^31 and all counts: the comment recommends the attribute as a
   key exactly when all values are distinct and none is missing, and warns about ignored rows
   exactly when at least one value is missing *)
Theorem C17_comments : C17_comments_stmt.
Proof. exact ProfilerFacts.C17_comments. Qed.
Print Assumptions C17_comments.

(* the counts are the exact number of distinct values (a missing value counting as one value)
   and of missing values *)
Theorem C17_counts : C17_counts_stmt.
Proof. exact ProfilerFacts.C17_counts. Qed.
Print Assumptions C17_counts.

(* the reported percentage is within 0.005 (+1e-9 float noise) of 100*c/n *)
Theorem C17_percent :
  forall c n : Z, (1 <= n < 2 ^ 31)%Z -> (0 <= c <= n)%Z ->
  fin (pct c n) /\ (Rabs (FR (pct c n) - 100 * (IZR c / IZR n)) <= pct_tol)%R.
Proof. exact ProfilerPercent.C17_percent. Qed.
Print Assumptions C17_percent.

(* why the comments must come from the counts: with 20001 rows one duplicate (or one missing
   value) is invisible in the two-decimal percentages *)
Theorem C17_percentages_not_decisive :
  exists n u m, counts_range n u m /\ u < n /\ m = 0 /\ pct u n = pct n n /\ pct 1 n = pct 0 n.
Proof. exact C17_pct_not_decisive. Qed.
Print Assumptions C17_percentages_not_decisive.
