(* C17 -- the profiler reports exact unique/missing counts and key suitability. *)
From Coq Require Import ZArith Bool List String Reals.
From SSJ Require Import F64 PyNum F64Spec Profiler ProfilerSpec ProfilerFacts ProfilerPercent.
Import ListNotations.
Open Scope Z_scope.

(* for ALL table sizes 1 <= n < 2^31 and all counts: the comment recommends the attribute as a
   key exactly when all values are distinct and none is missing, and warns about ignored rows
   exactly when at least one value is missing *)
Theorem C17_comments : C17_comments_stmt.
Proof. exact ProfilerFacts.C17_comments. Qed.
Print Assumptions C17_comments.

(* the counts are the exact number of distinct values (a missing value counting as one value)
   and of missing values *)
Theorem C17_counts : C17_counts_stmt.
Proof. exact ProfilerFacts.C17_counts. Qed.
Print Assumptions C17_counts.

(* the reported percentage is within 0.005 (+1e-9 float noise) of 100*c/n *)
Theorem C17_percent :
  forall c n : Z, (1 <= n < 2 ^ 31)%Z -> (0 <= c <= n)%Z ->
  fin (pct c n) /\ (Rabs (FR (pct c n) - 100 * (IZR c / IZR n)) <= pct_tol)%R.
Proof. exact ProfilerPercent.C17_percent. Qed.
Print Assumptions C17_percent.

(* why the comments must come from the counts: with 20001 rows one duplicate (or one missing
   value) is invisible in the two-decimal percentages *)
Theorem C17_percentages_not_decisive :
  exists n u m, counts_range n u m /\ u < n /\ m = 0 /\ pct u n = pct n n /\ pct 1 n = pct 0 n.
Proof. exact C17_pct_not_decisive. Qed.
Print Assumptions C17_percentages_not_decisive.

(* ---- tie: profiler/profiler.py as REGENERATED from the source on this run (Gen/ProfilerGen.v over
   Model/ProfFrame.v; str(float) is a parameter) equals the model's result rendered as strings, error
   cases included, and satisfies the C17 clauses for all 1 <= n < 2^31.  The tables include columns that
   hold None AND NaN: the source counts the missing value once itself (len(S.dropna().unique()), + 1 if a
   cell is missing), so the well-formedness hypothesis only relates the PRESENT cells to value ids
   (ProfilerRefineUniq.abstracts); closed instance: ProfilerRefineModel.ex_mixed_missing *)
From SSJ Require Import Frame ProfFrame ProfilerGen ProfilerRefineUniq ProfilerRefineBase ProfilerRefine ProfilerRefineModel ProfilerGenC17.
Theorem generated_profiler_refines_model :
  ltac:(let t := type of profile_table_for_join_rows_refines_model in exact t).
Proof. exact profile_table_for_join_rows_refines_model. Qed.
Print Assumptions generated_profiler_refines_model.
Example generated_profiler_none_and_nan :
  ltac:(let t := type of ex_mixed_missing in exact t).
Proof. exact ex_mixed_missing. Qed.
Theorem generated_profiler_C17 :
  ltac:(let t := type of C17_generated in exact t).
Proof. exact C17_generated. Qed.
Print Assumptions generated_profiler_C17.
