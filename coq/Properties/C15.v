(* C15 -- invalid arguments are rejected up front.  Skeleton part: in every entry point all
   validations precede all work, so a rejected call has done nothing; the threshold validator
   generated from validation.py accepts exactly the documented ranges.                    *)
From Coq Require Import ZArith Bool List String Lia.
From SSJ Require Import F64 PyNum ValidationGen SkeletonLang SkeletonGen Skeleton PyFacts ValidationFacts.
Import ListNotations.
Open Scope string_scope.

Theorem C15_validations_first :
  forall name sk, In (name, sk) all_entry_points ->
  forall o, fst (run_flat o 0 0 (flat_map evs_of sk)) = Raised ->
            snd (run_flat o 0 0 (flat_map evs_of sk)) = 0%nat.
Proof.
  intros name sk Hin. apply validations_first_sound.
  assert (H : forallb (fun p => validations_first (snd p)) all_entry_points = true) by (vm_compute; reflexivity).
  rewrite forallb_forall in H. exact (H (name, sk) Hin).
Qed.
Print Assumptions C15_validations_first.

(* a rejected call also leaves the tokenizer flag alone: C12_flag_restored covers raises *)

Open Scope Z_scope.
(* integer thresholds: the generated validate_threshold accepts exactly the documented ranges *)
Theorem C15_threshold_int :
  forall z : Z,
  (validate_threshold (PInt z) (PStr "EDIT_DISTANCE") = ok <-> 0 <= z) /\
  (validate_threshold (PInt z) (PStr "OVERLAP") = ok <-> 0 < z) /\
  (forall m, String.eqb m "EDIT_DISTANCE" = false -> String.eqb m "OVERLAP" = false ->
             (validate_threshold (PInt z) (PStr m) = ok <-> z = 1)) /\
  (forall m, validate_threshold (PInt z) (PStr m) = ok \/ validate_threshold (PInt z) (PStr m) = rejected).
Proof. exact threshold_int_ranges. Qed.
Print Assumptions C15_threshold_int.

Theorem C15_comp_op :
  forall op : string,
  (validate_comp_op_for_sim_measure (PStr op) (PStr "EDIT_DISTANCE") = ok <->
     op = "<=" \/ op = "<" \/ op = "=") /\
  (forall m, String.eqb m "EDIT_DISTANCE" = false ->
     (validate_comp_op_for_sim_measure (PStr op) (PStr m) = ok <-> op = ">=" \/ op = ">" \/ op = "=")).
Proof. exact comp_op_sets. Qed.
Print Assumptions C15_comp_op.

(* no join / filter / matcher / profiler entry point can return (early exit included) before all
   its validations were executed: a call that returns normally has checked every argument.
   (The two converter functions are outside C15; series_to_str's dtype guard follows its
   documented early return for empty series.) *)
From SSJ Require Import SkeletonRet.
Definition is_converter (n : string) : bool :=
  String.eqb n "series_to_str" || String.eqb n "dataframe_column_to_str".
Theorem C15_no_return_before_validation :
  forall name sk, In (name, sk) all_entry_points -> is_converter name = false ->
  forall o, fst (run_cnt o 0 0 (flat_map evs_of sk)) = Returned ->
            snd (run_cnt o 0 0 (flat_map evs_of sk)) = nvalid (flat_map evs_of sk).
Proof.
  intros name sk Hin Hc. apply validations_before_returns_sound.
  assert (H : forallb (fun p => is_converter (fst p) || validations_before_returns (snd p)) all_entry_points = true)
    by (vm_compute; reflexivity).
  rewrite forallb_forall in H. specialize (H (name, sk) Hin). cbn [fst snd] in H.
  rewrite Hc in H. exact H.
Qed.
Print Assumptions C15_no_return_before_validation.
