(* C15 -- invalid arguments are rejected up front.  Skeleton part: in every entry point all
   validations precede all work, so a rejected call has done nothing; the threshold validator
   generated from validation.py accepts exactly the documented ranges.                    *)
From Coq Require Import ZArith Bool List String Lia.
From SSJ Require Import F64 PyNum ValidationGen SkeletonLang SkeletonGen Skeleton PyFacts ValidationFacts
     Measures ValidationFloat.
Import ListNotations.
Open Scope string_scope.

Theorem C15_validations_first :
  forall name sk, In (name, sk) all_entry_points ->
  forall o, fst (run_flat o 0 0 (flat_map evs_of sk)) = Raised ->
            snd (run_flat o 0 0 (flat_map evs_of sk)) = 0%nat.
Proof.
  intros name sk Hin. apply validations_first_sound.
  assert (H : forallb (fun p => validations_first (snd p)) all_entry_points = true) by (vm_compute; reflexivity).
  rewrite forallb_forall in H. exact (H (name, sk) Hin).
Qed.
Print Assumptions C15_validations_first.

(* a rejected call also leaves the tokenizer flag alone: C12_flag_restored covers raises *)

Open Scope Z_scope.
(* integer thresholds: the generated validate_threshold accepts exactly the documented ranges *)
Theorem C15_threshold_int :
  forall z : Z,
  (validate_threshold (PInt z) (PStr "EDIT_DISTANCE") = ok <-> 0 <= z) /\
  (validate_threshold (PInt z) (PStr "OVERLAP") = ok <-> 0 < z) /\
  (forall m, String.eqb m "EDIT_DISTANCE" = false -> String.eqb m "OVERLAP" = false ->
             (validate_threshold (PInt z) (PStr m) = ok <-> z = 1)) /\
  (forall m, validate_threshold (PInt z) (PStr m) = ok \/ validate_threshold (PInt z) (PStr m) = rejected).
Proof. exact threshold_int_ranges. Qed.
Print Assumptions C15_threshold_int.

Theorem C15_comp_op :
  forall op : string,
  (validate_comp_op_for_sim_measure (PStr op) (PStr "EDIT_DISTANCE") = ok <->
     op = "<=" \/ op = "<" \/ op = "=") /\
  (forall m, String.eqb m "EDIT_DISTANCE" = false ->
     (validate_comp_op_for_sim_measure (PStr op) (PStr m) = ok <-> op = ">=" \/ op = ">" \/ op = "=")).
Proof. exact comp_op_sets. Qed.
Print Assumptions C15_comp_op.

(* no join / filter / matcher / profiler entry point can return (early exit included) before all
   its validations were executed: a call that returns normally has checked every argument.
   (The two converter functions are outside C15; series_to_str's dtype guard follows its
   documented early return for empty series.) *)
From SSJ Require Import SkeletonRet.
Definition is_converter (n : string) : bool :=
  String.eqb n "series_to_str" || String.eqb n "dataframe_column_to_str".
Theorem C15_no_return_before_validation :
  forall name sk, In (name, sk) all_entry_points -> is_converter name = false ->
  forall o, fst (run_cnt o 0 0 (flat_map evs_of sk)) = Returned ->
            snd (run_cnt o 0 0 (flat_map evs_of sk)) = nvalid (flat_map evs_of sk).
Proof.
  intros name sk Hin Hc. apply validations_before_returns_sound.
  assert (H : forallb (fun p => is_converter (fst p) || validations_before_returns (snd p)) all_entry_points = true)
    by (vm_compute; reflexivity).
  rewrite forallb_forall in H. specialize (H (name, sk) Hin). cbn [fst snd] in H.
  rewrite Hc in H. exact H.
Qed.
Print Assumptions C15_no_return_before_validation.

(* float thresholds: validate_threshold states its range tests positively (`if not threshold >= 0`, ...), so
   it accepts exactly the documented ranges for EVERY binary64 value -- NaN is rejected (every ordered
   comparison with NaN is False), -0.0 counts as 0, +inf is above every upper bound.  fleb / fltb are the
   IEEE comparisons of Num/F64.v, f_zero = +0.0, f_one = 1.0; the comparison with 1.0 needs f to be a double
   (valid_binary), the other parts hold for every spec_float. *)
From Coq Require Import SpecFloat.
Theorem C15_threshold_float_ranges :
  forall f : f64,
  (validate_threshold (PFloat f) (PStr "EDIT_DISTANCE") = ok <-> fleb f_zero f = true) /\
  (validate_threshold (PFloat f) (PStr "OVERLAP") = ok <-> fltb f_zero f = true) /\
  (forall m, String.eqb m "EDIT_DISTANCE" = false -> String.eqb m "OVERLAP" = false ->
             valid_binary prec emax f = true ->
             (validate_threshold (PFloat f) (PStr m) = ok <-> fltb f_zero f = true /\ fleb f f_one = true)) /\
  (forall m, validate_threshold (PFloat f) (PStr m) = ok \/ validate_threshold (PFloat f) (PStr m) = rejected).
Proof. exact threshold_float_ranges. Qed.
Print Assumptions C15_threshold_float_ranges.

Theorem C15_threshold_nan_rejected :
  forall m : string, validate_threshold (PFloat S754_nan) (PStr m) = rejected.
Proof. exact threshold_nan_rejected. Qed.
Print Assumptions C15_threshold_nan_rejected.
