(* C13 -- joins obey transposition, threshold-refinement and operator-partition laws.
   The laws are COROLLARIES of the single-call specifications (Spec/JoinSpec.v, Spec/MetaSpec.v)
   which the API-level model is proved to satisfy (C01_api / C02_api / C08 / C09): first for
   arbitrary outputs satisfying the specs, then for the model itself.                        *)
From Coq Require Import ZArith Bool List String.
From SSJ Require Import F64 PyNum Filters Joins Api JoinSpec MetaSpec LawsBase LawsScore LawsSpec Laws
     ApiJoinSpec PartitionInst.
Import ListNotations.
Open Scope string_scope.
Open Scope Z_scope.

(* the similarity is symmetric (float multiplication commutes: needed for cosine) *)
Theorem C13_qualifies_symmetric :
  forall m op t x y, qualifies m op t x y = qualifies m op t y x.
Proof. exact qualifies_sym. Qed.
Print Assumptions C13_qualifies_symmetric.

(* transposition: outputs of the call and of the swapped call that satisfy the single-call specs
   are related by transpose_spec (keys swapped, identical scores; empty-empty and gray pairs aside) *)
Theorem C13_transpose :
  forall c out out', set_case c = true -> j_with_score c = true ->
  complete_spec c out = true -> sound_spec c out = true -> missing_spec c out = true -> wf_scores c out = true ->
  complete_spec (swap_case c) out' = true -> sound_spec (swap_case c) out' = true ->
  missing_spec (swap_case c) out' = true -> wf_scores (swap_case c) out' = true ->
  transpose_spec c out out' = true.
Proof. exact transpose_law. Qed.
Print Assumptions C13_transpose.

(* ... hence for the API-level model of the Jaccard / cosine / Dice / overlap-coefficient joins *)
Theorem C13_transpose_model :
  forall c out out', valid_join_case c -> valid_join_case (swap_case c) ->
  set_case c = true -> int_case c = false -> j_with_score c = true ->
  api_join c = Some out -> api_join (swap_case c) = Some out' ->
  transpose_spec c out out' = true.
Proof.
  intros c out out' Hv Hv' Hs Hi Hw Ho Ho'.
  destruct (api_join_spec hpart_cpus_bounded c out Hv Ho) as [H1 [H2 [H3 _]]].
  destruct (api_join_spec hpart_cpus_bounded (swap_case c) out' Hv' Ho') as [H1' [H2' [H3' _]]].
  apply transpose_law; try assumption.
  - unfold wf_scores. rewrite Hi. reflexivity.
  - unfold wf_scores. change (int_case (swap_case c)) with (int_case c). rewrite Hi. reflexivity.
Qed.
Print Assumptions C13_transpose_model.

(* threshold refinement: the stricter join = the rows of the laxer join whose score meets the
   stricter threshold *)
Theorem C13_refine :
  forall c1 c2 o1 o2, set_case c1 = true -> same_but_t c1 c2 -> laxer c1 c2 ->
  j_with_score c1 = true -> j_with_score c2 = true ->
  complete_spec c1 o1 = true -> sound_spec c1 o1 = true -> missing_spec c1 o1 = true -> typed_scores c1 o1 = true ->
  complete_spec c2 o2 = true -> sound_spec c2 o2 = true -> missing_spec c2 o2 = true -> typed_scores c2 o2 = true ->
  refine_spec c1 c2 o1 o2 = true.
Proof. exact refine_law. Qed.
Print Assumptions C13_refine.

(* operator partition: >= is the disjoint union of > and = ; from the specs alone this holds with
   gray pairs set aside (whether a gray pair is found is not fixed by the specs) and exactly for
   the measures without rounding; the EXACT law for J/C/D is decided by the differential runs *)
Theorem C13_partition_nongray :
  forall cge cgt ceq oge ogt oeq, set_case cge = true -> same_but_op cge cgt -> same_but_op cge ceq ->
  j_op cge = ">=" -> j_op cgt = ">" -> j_op ceq = "=" ->
  j_allow_missing cge = false -> j_allow_missing cgt = false -> j_allow_missing ceq = false ->
  j_with_score cge = true -> j_with_score cgt = true -> j_with_score ceq = true ->
  complete_spec cge oge = true /\ sound_spec cge oge = true /\ missing_spec cge oge = true /\ wf_scores cge oge = true ->
  complete_spec cgt ogt = true /\ sound_spec cgt ogt = true /\ missing_spec cgt ogt = true /\ wf_scores cgt ogt = true ->
  complete_spec ceq oeq = true /\ sound_spec ceq oeq = true /\ missing_spec ceq oeq = true /\ wf_scores ceq oeq = true ->
  multiset_eqb (keep_rows [cge; cgt; ceq] oge) (keep_rows [cge; cgt; ceq] ogt ++ keep_rows [cge; cgt; ceq] oeq)%list = true.
Proof. exact partition_nongray. Qed.
Theorem C13_partition_exact :
  forall cge cgt ceq oge ogt oeq, set_case cge = true -> no_gray_case cge = true ->
  same_but_op cge cgt -> same_but_op cge ceq ->
  j_op cge = ">=" -> j_op cgt = ">" -> j_op ceq = "=" ->
  j_allow_missing cge = false -> j_allow_missing cgt = false -> j_allow_missing ceq = false ->
  j_with_score cge = true -> j_with_score cgt = true -> j_with_score ceq = true ->
  complete_spec cge oge = true /\ sound_spec cge oge = true /\ missing_spec cge oge = true /\ wf_scores cge oge = true ->
  complete_spec cgt ogt = true /\ sound_spec cgt ogt = true /\ missing_spec cgt ogt = true /\ wf_scores cgt ogt = true ->
  complete_spec ceq oeq = true /\ sound_spec ceq oeq = true /\ missing_spec ceq oeq = true /\ wf_scores ceq oeq = true ->
  partition_spec cge oge ogt oeq = true.
Proof. exact partition_law_exact. Qed.
Print Assumptions C13_partition_exact.

(* the laws about the API-level MODEL itself, no hypothesis about outputs (all five joins) *)
From SSJ Require Import ModelScores ModelLaws F64Spec.
Theorem C13_transpose_model_all_joins :
  forall c out out', valid_join_case c -> j_with_score c = true ->
  api_join c = Some out -> api_join (swap_case c) = Some out' -> transpose_spec c out out' = true.
Proof. exact C13_transpose_model_all. Qed.
Print Assumptions C13_transpose_model_all_joins.
Theorem C13_refine_model_jaccard_cosine_dice :
  forall c1 c2 m t1 t2 o1 o2,
  valid_join_case c1 -> valid_join_case c2 -> same_but_t c1 c2 ->
  j_entry c1 = EJoin m -> is_jcd m = true -> (j_op c1 = ">=" \/ j_op c1 = ">") ->
  j_t c1 = PFloat t1 -> j_t c2 = PFloat t2 -> fleb t1 t2 = true ->
  j_with_score c1 = true -> j_with_score c2 = true ->
  api_join c1 = Some o1 -> api_join c2 = Some o2 -> refine_spec c1 c2 o1 o2 = true.
Proof. exact C13_refine_model_jcd_b. Qed.
Theorem C13_refine_model_overlap_join :
  forall c1 c2 t1 t2 o1 o2,
  valid_join_case c1 -> valid_join_case c2 -> same_but_t c1 c2 ->
  j_entry c1 = EJoin "OVERLAP" -> (j_op c1 = ">=" \/ j_op c1 = ">") ->
  j_t c1 = PInt t1 -> j_t c2 = PInt t2 -> t1 <= t2 ->
  j_with_score c1 = true -> j_with_score c2 = true ->
  api_join c1 = Some o1 -> api_join c2 = Some o2 -> refine_spec c1 c2 o1 o2 = true.
Proof. exact C13_refine_model_overlap. Qed.
Theorem C13_partition_model :
  forall c oge ogt oeq, valid_join_case c -> j_allow_missing c = false -> j_with_score c = true ->
  api_join (with_op c ">=") = Some oge -> api_join (with_op c ">") = Some ogt ->
  api_join (with_op c "=") = Some oeq ->
  let cs := [with_op c ">="; with_op c ">"; with_op c "="] in
  multiset_eqb (keep_rows cs oge) (keep_rows cs ogt ++ keep_rows cs oeq)%list = true.
Proof. exact C13_partition_model_nongray. Qed.
Theorem C13_partition_model_exact_no_rounding :
  forall c oge ogt oeq, valid_join_case c -> no_gray_case c = true -> j_allow_missing c = false ->
  j_with_score c = true ->
  api_join (with_op c ">=") = Some oge -> api_join (with_op c ">") = Some ogt ->
  api_join (with_op c "=") = Some oeq -> partition_spec (with_op c ">=") oge ogt oeq = true.
Proof. exact C13_partition_model_exact. Qed.
Print Assumptions C13_partition_model_exact_no_rounding.

(* tie of candidate generation to the source: index/position_index.py (build) and
   filter/position_filter.py (find_candidates), as REGENERATED on this run (Gen/IndexGen.v), compute
   for EVERY indexed row c and probe Y exactly the pairwise model's verdict pos_cand -- the
   inverted index over all rows, the eager overlap-threshold cache, the clamping of the size
   window to [min_length, max_length] and the early exit on an empty index are all immaterial *)
From SSJ Require Import FilterUtilsGen Filters IndexGen IndexPyFacts IndexBuildFacts IndexProbeFacts IndexRefine.
Theorem position_index_code_refines_model :
  forall (p : fparams) (attr ordering : pyval) (tokenize : pyval -> pyval) (rows : list pyval)
         (ordered : list (list Z)) (ce ct : bool),
  Forall2 (row_ok attr ordering tokenize) rows ordered ->
  (forall x, In x ordered -> exists kx, g_pl p (len x) = PInt kx) ->
  forall (Y : list Z) (lb ub k : Z),
  g_lb p (len Y) = PInt lb -> g_ub p (len Y) = PInt ub -> g_pl p (len Y) = PInt k ->
  (forall s, 0 <= s -> lb <= s <= ub -> num_of (g_ot p s (len Y)) <> None) ->
  exists (index size_cache : pyval) (mn mx : Z) (ret cands : pyval),
    position_index_build (PList rows) attr (PStr (fm p)) (ft p) ordering (PBool ce) (PBool ct)
                         (PInt (fq p)) tokenize
    = PTuple [index; size_cache; PInt mn; PInt mx; ret] /\
    position_filter_find_candidates (PStr (fm p)) (ft p) (pints Y) index size_cache (PInt mn) (PInt mx)
                                    (PInt (fq p)) = cands /\
    forall c : nat, (c < List.length ordered)%nat ->
      (0 < dict_val cands (Z.of_nat c) <-> exists v, pos_cand p (nth c ordered []) Y = Some v /\ 0 < v).
Proof. exact position_candidate_positive. Qed.
Print Assumptions position_index_code_refines_model.

(* ==== the RELATIONAL property stated directly about the code: two (or three) calls of the functions
   regenerated from the Python source on this run, related through the key-level views of the frames they
   return (code_view); obtained by transferring the laws proved from the single-call specs (Laws*.v) along
   `generated code refines api_join` *)
From SSJ Require Import CodeLevelBase CodeLevelJoins CodeLevelJoins2 CodeLevelFilters CodeLevelMatcher CodeLevelTight CodeLevelRelBase CodeLevelRelCalls CodeLevelRel CodeLevelRel2 CodeLevelRel3 CodeLevelRel4 CodeLevelRel5 CodeLevelRel6.
Theorem C13_code_transpose_JCD :
  ltac:(let t := type of C13_code_transpose_jcd in exact t).
Proof. exact C13_code_transpose_jcd. Qed.
Print Assumptions C13_code_transpose_JCD.
Theorem C13_code_transpose_OVC :
  ltac:(let t := type of C13_code_transpose_overlap_coefficient in exact t).
Proof. exact C13_code_transpose_overlap_coefficient. Qed.
Print Assumptions C13_code_transpose_OVC.
Theorem C13_code_transpose_OVERLAP :
  ltac:(let t := type of C13_code_transpose_overlap_join in exact t).
Proof. exact C13_code_transpose_overlap_join. Qed.
Print Assumptions C13_code_transpose_OVERLAP.
Theorem C13_code_refine_JCD :
  ltac:(let t := type of C13_code_refine_jcd in exact t).
Proof. exact C13_code_refine_jcd. Qed.
Print Assumptions C13_code_refine_JCD.
Theorem C13_code_refine_OVC :
  ltac:(let t := type of C13_code_refine_overlap_coefficient in exact t).
Proof. exact C13_code_refine_overlap_coefficient. Qed.
Print Assumptions C13_code_refine_OVC.
Theorem C13_code_refine_OVERLAP :
  ltac:(let t := type of C13_code_refine_overlap_join in exact t).
Proof. exact C13_code_refine_overlap_join. Qed.
Print Assumptions C13_code_refine_OVERLAP.
Theorem C13_code_partition_JCD :
  ltac:(let t := type of C13_code_partition_jcd in exact t).
Proof. exact C13_code_partition_jcd. Qed.
Print Assumptions C13_code_partition_JCD.
Theorem C13_code_partition_OVC :
  ltac:(let t := type of C13_code_partition_overlap_coefficient in exact t).
Proof. exact C13_code_partition_overlap_coefficient. Qed.
Print Assumptions C13_code_partition_OVC.
Theorem C13_code_partition_OVERLAP :
  ltac:(let t := type of C13_code_partition_overlap_join in exact t).
Proof. exact C13_code_partition_overlap_join. Qed.
Print Assumptions C13_code_partition_OVERLAP.

(* ---- tie: WHICH function verifies a candidate, as read from utils/simfunctions.py on this run
   (Gen/SimFunctionsGen.v): the py_stringmatching measures themselves (and the local set-intersection
   count for OVERLAP) -- a locally re-implemented measure would appear as "local:<name>" *)
From SSJ Require Import SimFunctionsGen.
Theorem sim_functions_of_source_are_library_measures :
  sim_function_table =
  [("COSINE", "py_stringmatching.similarity_measure.cosine.Cosine.get_raw_score");
   ("DICE", "py_stringmatching.similarity_measure.dice.Dice.get_raw_score");
   ("EDIT_DISTANCE", "py_stringmatching.similarity_measure.levenshtein.Levenshtein.get_raw_score");
   ("JACCARD", "py_stringmatching.similarity_measure.jaccard.Jaccard.get_raw_score");
   ("OVERLAP", "local:overlap");
   ("OVERLAP_COEFFICIENT", "py_stringmatching.similarity_measure.overlap_coefficient.OverlapCoefficient.get_raw_score")]%string.
Proof. reflexivity. Qed.
