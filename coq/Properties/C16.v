(* C16 -- numeric-to-string conversion keeps missing values missing and integers integral.
   Model/Converter.v mirrors utils/converter.py over an abstract series (dtype tag + cells) with a
   one-object store, incl. pandas-3's Series.update (refuses to change a numeric dtype).    *)
From Coq Require Import ZArith Bool List String.
From SSJ Require Import F64 PyNum Converter ConverterSpec ConverterFacts.
Import ListNotations.
Open Scope string_scope.

(* every clause of the property (values, missing stays missing, string columns unchanged, inplace
   converts the given object and returns True, otherwise input unmodified and a converted copy,
   inplace+return_col rejected, the documented exception) holds for EVERY well-formed series and
   EVERY call shape EXCEPT exactly one class: series_to_str(inplace=True) on a numeric series
   with a present value *)
Theorem C16_characterisation :
  forall c s, wf s = true -> all_clauses c s (run_call c s) = negb (bad_class c s).
Proof. exact ConverterFacts.C16_characterisation. Qed.
Print Assumptions C16_characterisation.

Theorem C16_all_clauses :
  forall c s, wf s = true -> bad_class c s = false -> all_clauses c s (run_call c s) = true.
Proof. exact C16_model_spec. Qed.
Print Assumptions C16_all_clauses.

(* clauses that hold without exception *)
Theorem C16_input_unmodified : forall c s, wf s = true -> cl_unmodified c s (run_call c s) = true.
Proof. exact C16_unmodified. Qed.
Theorem C16_inplace_and_return_col_rejected :
  forall s, wf s = true -> run_call (CallFrame true true) s = (RExc "AssertionError", s).
Proof. exact C16_rejected_exc. Qed.
Theorem C16_documented_exception : forall c s, wf s = true -> cl_doc_exception c s (run_call c s) = true.
Proof. exact C16_doc_exception. Qed.
Print Assumptions C16_documented_exception.

(* dataframe_column_to_str(inplace=True) converts the frame's column and returns True *)
Theorem C16_dataframe_inplace :
  forall s, wf s = true -> in_domain s = true ->
  let o := run_call (CallFrame true false) s in
  fst o = RTrue /\ cl_values (CallFrame true false) s o = true /\
  cl_missing (CallFrame true false) s o = true /\ cl_strings (CallFrame true false) s o = true.
Proof. exact C16_frame_inplace. Qed.
Print Assumptions C16_dataframe_inplace.

(* the full-strength statement is FALSE of the faithful model on that class (known finding
   series-to-str-inplace-numeric): TypeError, object untouched *)
Theorem C16_series_inplace_numeric_refuted :
  exists s, wf s = true /\ numeric_col s = true /\
            run_call (CallSeries true) s = (RExc "TypeError", s) /\
            cl_inplace_true (CallSeries true) s (run_call (CallSeries true) s) = false /\
            cl_values (CallSeries true) s (run_call (CallSeries true) s) = false.
Proof. exact C16_series_inplace_refuted. Qed.
Print Assumptions C16_series_inplace_numeric_refuted.
