(* C07 -- a join equals filter_tables followed by apply_matcher. *)
From Coq Require Import ZArith Bool List String SpecFloat Lia.
From SSJ Require Import F64 PyNum Filters Joins Api JoinSpec MetaSpec LawsBase LawsScore LawsSpec Laws LawsPipe LawsArith
     ApiFilterBase ApiFilterEdit ApiFilterClosed.
Import ListNotations.
Open Scope string_scope.
Open Scope Z_scope.

(* set-similarity measures: if the pipeline's result P is sound and complete w.r.t. the score the
   MATCHER computes (matcher_raw_score: the measure's get_raw_score on the tokenizer's lists, whose
   exact-match shortcut compares LISTS; what apply_matcher yields on the candidates of a filter
   that keeps every qualifying pair: C04 / C05) and the join's result J satisfies the single-call
   specs (C01 / C02 / C08), then P and J have the same key pairs and the same scores after rounding
   to 4 decimals, empty-empty and gray pairs aside (gray = raw and rounded score on different sides
   of the threshold, for the join's raw score: pair_gray, or the matcher's: pair_gray_pipe) *)
Theorem C07_set_measures :
  forall c m obsJ obsP, j_entry c = EJoin m -> set_measure m = true -> j_with_score c = true ->
  pipeline_sound_raw c obsP = true -> pipeline_complete_raw c obsP = true ->
  missing_spec c obsP = true -> typed_scores c obsP = true ->
  complete_spec c obsJ = true -> sound_spec c obsJ = true -> missing_spec c obsJ = true -> typed_scores c obsJ = true ->
  round_agrees c m -> pipeline_spec c obsJ obsP = true.
Proof. exact pipeline_law. Qed.
Print Assumptions C07_set_measures.

(* rounding a rounded score changes nothing (needed to compare the two score columns) *)
Theorem C07_round_agrees_overlap : forall c, round_agrees c "OVERLAP".
Proof. exact round_agrees_overlap. Qed.

(* edit distance: the join's result is EXACTLY the pairs whose distance satisfies the comparison
   and whose q-gram bags share a q-gram (API-level model, any n_jobs); the pipeline
   apply_matcher(filter_tables(...)) keeps every pair whose distance satisfies the comparison
   among the filter's candidates, and the filters keep every such pair sharing a q-gram (C04):
   hence join within pipeline, equal on pairs sharing a q-gram *)
Theorem C07_edit_distance_join_exact :
  forall c tau, valid_ed_case c tau ->
  forall out, api_join c = Some out -> cf_rows c ->
  forall l r, In l (j_L c) -> In r (j_R c) -> present l = true -> present r = true ->
  has_pair (fst l) (fst r) out =
  cmp_op (j_op c) (JoinSpec.ed_dist l r) (PInt tau) && share (toks_of l) (toks_of r).
Proof.
  intros c tau Hv out Ho Hcf. destruct (C03_edit_distance_join c tau Hv) as [_ H].
  destruct (H out Ho) as [_ [_ [_ H4]]]. destruct (H4 Hcf) as [_ H5]. exact H5.
Qed.
Print Assumptions C07_edit_distance_join_exact.

(* the MODEL pipeline (filter_tables stage of the API-level model, then the apply_matcher model
   with the measure's raw similarity) against the MODEL join, no hypothesis about outputs:
   Jaccard / cosine / Dice / overlap, first stage Size / Prefix / Position, any n_jobs *)
From SSJ Require Import ApiJoinSpec ApiFilterTables ModelPipe.
Theorem C07_model_pipeline_equals_join :
  forall c k m outJ outP,
  valid_join_case c -> j_entry c = EJoin m -> pipe_measure m -> k3 k -> j_with_score c = true ->
  Z.of_nat (List.length (j_L c)) * Z.of_nat (List.length (j_R c)) < 2 ^ 31 ->
  api_join c = Some outJ -> pipeline_model c k m = Some outP ->
  pipeline_spec c outJ outP = true.
Proof. exact C07_pipeline_model. Qed.
Print Assumptions C07_model_pipeline_equals_join.
Theorem C07_model_pipeline_total :
  forall c k m, valid_join_case c -> j_entry c = EJoin m -> pipe_measure m -> k3 k ->
  Z.of_nat (List.length (j_L c)) * Z.of_nat (List.length (j_R c)) < 2 ^ 31 ->
  exists outP, pipeline_model c k m = Some outP.
Proof. exact C07_pipeline_model_total. Qed.

(* ------------------------------------------------------------------ the order-sensitive shortcut *)
(* COSINE, ">=", t = 1.0, left value "p q1" -> tokens [1; 2], right value "q1 p" -> tokens [2; 1].
   The join passes both lists sorted by the global token ordering: equal lists, exact-match
   shortcut, raw 1.0, reported 1.0 >= 1.0: pair reported.  apply_matcher passes the tokenizer's
   lists: different lists, formula 2 / (sqrt 2 * sqrt 2) = 0.9999999999999998 < 1.0: pair dropped.
   Raw (matcher) and rounded score are on different sides of t: the pair is excluded by C07. *)
From SSJ Require Import Measures.
Definition c07_gray_case : jcase :=
  {| j_entry := EJoin "COSINE"; j_t := PFloat f_one; j_q := 0; j_op := ">="; j_allow_empty := true;
     j_allow_missing := false; j_with_score := true; j_njobs := 1; j_cpus := 4;
     j_L := [(1, Some ([], [1; 2]))]; j_R := [(7, Some ([], [2; 1]))] |}.

Example C07_pipe_gray_witness :
  pair_gray_pipe c07_gray_case (1, Some ([], [1; 2])) (7, Some ([], [2; 1])) = true /\
  pair_gray c07_gray_case (1, Some ([], [1; 2])) (7, Some ([], [2; 1])) = false /\
  raw_score "COSINE" [1; 2] [2; 1] = PFloat f_one /\
  reported_score "COSINE" [1; 2] [2; 1] = PFloat f_one /\
  matcher_raw_score "COSINE" [1; 2] [2; 1] = PFloat (sim_formula "COSINE" 2 2 2) /\
  fltb (sim_formula "COSINE" 2 2 2) f_one = true /\
  matcher_raw_score "COSINE" [1; 2] [1; 2] = PFloat f_one.
Proof. vm_compute. repeat split; reflexivity. Qed.

(* the observed results of the false alarm satisfy the property; without the second exclusion
   (the previous pipeline_spec) they would not *)
Example C07_pipe_gray_spec :
  pipeline_spec c07_gray_case [(1, 7, PFloat f_one)] [] = true /\
  multiset_eqb (round_rows (keep_rows [c07_gray_case] [(1, 7, PFloat f_one)]))
               (round_rows (keep_rows [c07_gray_case] [])) = false.
Proof. vm_compute. split; reflexivity. Qed.

(* and the MODEL reproduces the two observed results *)
Example C07_pipe_gray_model :
  api_join c07_gray_case = Some [(1, 7, PFloat f_one)] /\
  pipeline_model c07_gray_case KSize "COSINE" = Some [] /\
  pipeline_model c07_gray_case KPrefix "COSINE" = Some [] /\
  pipeline_model c07_gray_case KPosition "COSINE" = Some [].
Proof. vm_compute. repeat split; reflexivity. Qed.

(* the witness lies inside the envelope of C07_model_pipeline_equals_join (non-vacuity) *)
Example c07_gray_case_valid : valid_join_case c07_gray_case.
Proof.
  split.
  { unfold tables_ok, c07_gray_case. cbn [j_L j_R j_cpus].
    split; [nodup_small|]. split; [nodup_small|].
    split. { intros r [<-|[]] Hp. split; [cbn [toks_of snd]; nodup_small | vm_compute; reflexivity]. }
    split. { intros r [<-|[]] Hp. split; [cbn [toks_of snd]; nodup_small | vm_compute; reflexivity]. }
    split; [lia|]. split; vm_compute; reflexivity. }
  split; [left; reflexivity|].
  exists "COSINE". split; [reflexivity|]. left. split; [reflexivity|].
  exists f_one. split; [reflexivity | vm_compute; reflexivity].
Qed.

Example C07_pipe_gray_theorem : forall k outJ outP, k3 k ->
  api_join c07_gray_case = Some outJ -> pipeline_model c07_gray_case k "COSINE" = Some outP ->
  pipeline_spec c07_gray_case outJ outP = true.
Proof.
  intros k outJ outP Hk HJ HP.
  apply (C07_model_pipeline_equals_join c07_gray_case k "COSINE" outJ outP c07_gray_case_valid);
    try reflexivity; try assumption. left; reflexivity.
Qed.

(* tie of candidate generation to the source: index/position_index.py (build) and
   filter/position_filter.py (find_candidates), as REGENERATED on this run (Gen/IndexGen.v), compute
   for EVERY indexed row c and probe Y exactly the pairwise model's verdict pos_cand -- the
   inverted index over all rows, the eager overlap-threshold cache, the clamping of the size
   window to [min_length, max_length] and the early exit on an empty index are all immaterial *)
From SSJ Require Import FilterUtilsGen Filters IndexGen IndexPyFacts IndexBuildFacts IndexProbeFacts IndexRefine.
Theorem position_index_code_refines_model :
  forall (p : fparams) (attr ordering : pyval) (tokenize : pyval -> pyval) (rows : list pyval)
         (ordered : list (list Z)) (ce ct : bool),
  Forall2 (row_ok attr ordering tokenize) rows ordered ->
  (forall x, In x ordered -> exists kx, g_pl p (len x) = PInt kx) ->
  forall (Y : list Z) (lb ub k : Z),
  g_lb p (len Y) = PInt lb -> g_ub p (len Y) = PInt ub -> g_pl p (len Y) = PInt k ->
  (forall s, 0 <= s -> lb <= s <= ub -> num_of (g_ot p s (len Y)) <> None) ->
  exists (index size_cache : pyval) (mn mx : Z) (ret cands : pyval),
    position_index_build (PList rows) attr (PStr (fm p)) (ft p) ordering (PBool ce) (PBool ct)
                         (PInt (fq p)) tokenize
    = PTuple [index; size_cache; PInt mn; PInt mx; ret] /\
    position_filter_find_candidates (PStr (fm p)) (ft p) (pints Y) index size_cache (PInt mn) (PInt mx)
                                    (PInt (fq p)) = cands /\
    forall c : nat, (c < List.length ordered)%nat ->
      (0 < dict_val cands (Z.of_nat c) <-> exists v, pos_cand p (nth c ordered []) Y = Some v /\ 0 < v).
Proof. exact position_candidate_positive. Qed.
Print Assumptions position_index_code_refines_model.

(* ==== the RELATIONAL property stated directly about the code: two (or three) calls of the functions
   regenerated from the Python source on this run, related through the key-level views of the frames they
   return (code_view); obtained by transferring the laws proved from the single-call specs (Laws*.v) along
   `generated code refines api_join` *)
From SSJ Require Import CodeLevelBase CodeLevelJoins CodeLevelJoins2 CodeLevelFilters CodeLevelMatcher CodeLevelTight CodeLevelRelBase CodeLevelRelCalls CodeLevelRel CodeLevelRel2 CodeLevelRel3 CodeLevelRel4 CodeLevelRel5 CodeLevelRel6.
Theorem C07_code_pipeline_JCD :
  ltac:(let t := type of C07_code_pipeline_jcd in exact t).
Proof. exact C07_code_pipeline_jcd. Qed.
Print Assumptions C07_code_pipeline_JCD.
Theorem C07_code_pipeline_JCD_partial :
  ltac:(let t := type of C07_code_pipeline_jcd_partial in exact t).
Proof. exact C07_code_pipeline_jcd_partial. Qed.
Print Assumptions C07_code_pipeline_JCD_partial.

(* the residual shape hypothesis (R1) of C07_code_pipeline_JCD is derivable: the full statement, and the
   same for the generated overlap_join (first stage Size/Prefix/Position with measure OVERLAP, or the
   overlap filter with size S <= T) *)
From SSJ Require Import CodeLevelRel7 CodeLevelRel8 CodeLevelRel9.
Theorem C07_code_pipeline_JCD_full :
  ltac:(let t := type of C07_code_pipeline_jcd_full in exact t).
Proof. exact C07_code_pipeline_jcd_full. Qed.
Print Assumptions C07_code_pipeline_JCD_full.
Theorem C07_code_pipeline_OVERLAP :
  ltac:(let t := type of C07_code_pipeline_overlap_join in exact t).
Proof. exact C07_code_pipeline_overlap_join. Qed.
Print Assumptions C07_code_pipeline_OVERLAP.
Theorem C07_code_pipeline_OVERLAP_via_overlap_filter :
  ltac:(let t := type of C07_code_pipeline_overlap_join_ovf in exact t).
Proof. exact C07_code_pipeline_overlap_join_ovf. Qed.
Print Assumptions C07_code_pipeline_OVERLAP_via_overlap_filter.

(* ---- tie: WHICH function verifies a candidate, as read from utils/simfunctions.py on this run
   (Gen/SimFunctionsGen.v): the py_stringmatching measures themselves (and the local set-intersection
   count for OVERLAP) -- a locally re-implemented measure would appear as "local:<name>" *)
From SSJ Require Import SimFunctionsGen.
Theorem sim_functions_of_source_are_library_measures :
  sim_function_table =
  [("COSINE", "py_stringmatching.similarity_measure.cosine.Cosine.get_raw_score");
   ("DICE", "py_stringmatching.similarity_measure.dice.Dice.get_raw_score");
   ("EDIT_DISTANCE", "py_stringmatching.similarity_measure.levenshtein.Levenshtein.get_raw_score");
   ("JACCARD", "py_stringmatching.similarity_measure.jaccard.Jaccard.get_raw_score");
   ("OVERLAP", "local:overlap");
   ("OVERLAP_COEFFICIENT", "py_stringmatching.similarity_measure.overlap_coefficient.OverlapCoefficient.get_raw_score")]%string.
Proof. reflexivity. Qed.
